"""C12 — the bundled solution checker accepts valid solutions and rejects injected breaches (plugin for tools/verif.py;
built on the shared end-to-end oracle e2e.py / Spec/Valid.v).

generate   : phase 1 (inside `generate`): generated pragmatic problems are SOLVED by the real solver (harness op "solve",
             deterministic layout) -> pairs (P, S).  phase 2: one BASE case per pair (the unmutated document) and one
             case per (breach class, site) of Spec/Mutations.v, enumerated systematically (all sites; in the quick tier
             at most CAP evenly spaced sites per class and solution).  Every case is op "check": the REAL checker
             (vrp_cli::extensions::check::check_pragmatic_solution -> CheckerContext::check) on the (mutated) JSON documents.
model      : Mutations.run_base / run_mutation evaluated in Coq on the UNMUTATED rendered pair and the mutation term: validity of
             the base pair (valid_b P S), applicability of the site, valid_b on the Coq-mutated pair, fingerprints of
             the Coq-mutated documents.
compare    : the Python mirror of the mutation (applied to JSON) renders to the same document as the Coq operator
             (fingerprints), the site is applicable, and — instance of theorem C12_breach_is_invalid — the reference semantics
             rejects the breached pair whenever it accepts the base pair (with the violation constructor the class predicts).
oracle     : base pair valid in Coq  => the real checker must ACCEPT   (else `checker-rejects-valid:<error prefix>`);
             base pair valid in Coq  => the real checker must REJECT every breached pair (else `checker-accepts:<class>`).
"""
import copy
import hashlib
import json
import math
import os
import re
import subprocess
import sys
import tempfile
from coqterm import z, nat
from props import e2e

ID = 'C12'
HARNESS = 'c12'
SUBSTREAMS = ['c12_rules']        # structural tie of the real checker to Model/Checker.v, rule group by rule group
COQ_IMPORTS = 'From VRP Require Import Base.Tac Model.Core Spec.Valid Spec.Relations Spec.Mutations.'
MODEL_TARGETS = ['theories/Spec/Mutations.vo']
SHARD = 24
SIZES = {'quick': 36, 'thorough': 300, 'search': 40}       # number of SOLVED pairs (P, S); cases = pairs x (1 + sites)
# one escalated round of 40 pairs (thorough site density) after a broken correspondence: a change of a rule DETAIL that keeps every
# accept / reject verdict (the typical catch of the sub-stream c12_rules) has no oracle-level failing input to be found, and three
# rounds of 120 pairs took more than an hour on a loaded machine
SEARCH_ROUNDS = 1
CAP = {'quick': 3, 'thorough': 12, 'search': 6}
UNKNOWN = 'c12-unknown-job'
FIELDS = ['cost', 'distance', 'duration', 'driving', 'serving', 'waiting', 'break']
RULE = ('pairs (P, S): generated pragmatic problems (e2e generator: 3-10 jobs incl. multi-task jobs, 1-3 vehicle types, shifts, '
        'capacity, skills, limits, metric / non-metric integer matrices, every additive feature of the e2e generator incl. reloads '
        'and optional breaks; one batch in which every problem has breaks; one batch of problems with relations derived from a '
        'solution of the same problem) solved by the real solver (1-20 generations); per pair '
        'the unmutated document plus every breach class of Spec/Mutations.v at systematically enumerated sites (quick: at most 3 '
        'evenly spaced sites per class and solution). non-trivial = distinct (P, S, class, site) where S has at least one tour.')
TRUSTED = ['rendering of the JSON documents into the reduced Coq types (e2e.g_problem / g_solution)',
           'the Python mirror of every mutation operator is validated against the Coq operator on every site through a '
           'fingerprint of the whole mutated document (not trusted)',
           'the harness calls vrp_cli::extensions::check::check_pragmatic_solution, the function behind `vrp-cli check pragmatic`']
ASSUMPTIONS = ['problem fragment of the e2e generator (reloads, OPTIONAL breaks, relations derived from a solution of the same problem) '
               'without required breaks, recharges, clustering, time-dependent routing; "misplaced break" = a break reported at a '
               'location where no place of a break of the shift is / a break that takes time listed twice / taken out of the tour',
               'arrival / distance / tour-statistic breaches are injected with |d| = 2 (the checker documents a tolerance of 1)',
               'the bundled checker is modelled structurally (Model/Checker.v, sub-stream c12_rules) except check_jobs_match and the '
               'amount-of-breaks rule; those two are tied to the reference semantics valid_b behaviourally only']


# ------------------------------------------------------------------------------------------------ phase 1: real solves
def _exe():
    for name in ('__main__', 'verif'):
        ct = getattr(sys.modules.get(name), 'CARGO_TARGET', None)
        if ct:
            return os.path.join(ct, 'debug', HARNESS)
    build = os.environ.get('VERIF_BUILD', os.path.join(os.path.dirname(os.path.dirname(os.path.dirname(os.path.abspath(__file__)))), 'build'))
    return os.path.join(build, 'cargo', 'debug', HARNESS)


def _solve_all(cases):
    d = tempfile.mkdtemp(prefix='c12-solve-')
    cf, of = os.path.join(d, 'solve.jsonl'), os.path.join(d, 'solve.out.jsonl')
    with open(cf, 'w') as fh:
        for k, c in enumerate(cases):
            fh.write(json.dumps(dict(c, id=k)) + '\n')
    subprocess.run([_exe(), cf, of], stdout=subprocess.DEVNULL, stderr=subprocess.DEVNULL, timeout=3000)
    res = {}
    if os.path.exists(of):
        for line in open(of):
            r = json.loads(line)
            res[r['id']] = r.get('res') if 'panic' not in r else {'panic': r['panic']}
    for f in (cf, of):
        if os.path.exists(f):
            os.remove(f)
    os.rmdir(d)
    return [res.get(k) for k in range(len(cases))]


def generate(rng, tier, n):
    probs, solve_cases = [], []
    for _ in range(n + n // 4 + 2):
        # optional breaks ARE generated (E2EX3): every rejection of a valid document with breaks is attributed to a structural
        # cause by a twin of the checker's reading of breaks (`_bk_*` below; findings C12-F10 / F12 / F14 / F15 / F16)
        p = e2e.gen_checked_problem(rng)
        probs.append(p)
        gens = rng.choice([1, 2, 3, rng.range(4, 20)])
        solve_cases.append({'op': 'solve', 'problem': p['problem'], 'matrices': p['matrices'],
                            'config': {'max_generations': gens, 'seed': rng.below(1000)}})
    # two further batches, each from its own forked stream (the problems above stay what they were): problems that all have
    # optional breaks, and problems WITH RELATIONS (derived from a solution of the same problem: e2e.gen_relation_problems, solved
    # here by the c12 binary)
    brng, rrng, grng = rng.fork('c12-breaks'), rng.fork('c12-relations'), rng.fork('c12-growing')
    nb, nr, ng = max(2, n // 6), max(4, n * 4 // 9), max(3, n // 9)
    bprobs = [e2e.gen_checked_problem(brng, features=('breaks',) + tuple(f for f in e2e.FEATURES if brng.chance(1, 4)))
              for _ in range(nb + nb // 3 + 1)]
    # three times as many relation problems as pairs are wanted: the pairs in which a SERVICE job of an `any` relation can be moved
    # to the tour of another vehicle (`_svc_any_sites`, seeded change C12-4) are taken first
    rprobs = e2e.gen_relation_problems(rrng, 4 * nr + 4, solver=_solve_all, tweak=_more_services(rrng), derive=_rel_derive)
    # tours whose load GROWS up to the last stop of a load interval (seeded change C12-3: capacity compared at the `from` stop of
    # every leg only): open-ended last shifts, most single deliveries turned into static pickups, reloads on half of them
    gprobs = [_growing(grng, e2e.gen_checked_problem(grng, features=('reloads',) if grng.chance(1, 2) else ()))
              for _ in range(ng + ng // 3 + 1)]
    for stream, ps in ((brng, bprobs), (rrng, rprobs), (grng, gprobs)):
        for p in ps:
            solve_cases.append({'op': 'solve', 'problem': p['problem'], 'matrices': p['matrices'],
                                'config': {'max_generations': stream.choice([1, 2, 3, stream.range(4, 20)]), 'seed': stream.below(1000)}})
    sols = _solve_all(solve_cases)
    cases = []

    def take(ps, rs, want, cap, rot0):
        pairs = 0
        for p, r in zip(ps, rs):
            if pairs >= want:
                break
            if not isinstance(r, dict) or 'solution' not in r or e2e.unsupported(p, r['solution']):
                continue
            s = r['solution']
            cases.append(make_case(p, s, None))
            for m in sites(p, s, cap, rot0 + pairs):
                cases.append(make_case(p, s, m))
            pairs += 1
    k1, k2 = len(probs), len(probs) + len(bprobs)
    k3 = k2 + len(rprobs)
    take(probs, sols[:k1], n, CAP.get(tier, 3), 0)
    take(bprobs, sols[k1:k2], nb, CAP.get(tier, 3), 0)
    # which relation pairs: half of them offer the site "service job of an `any` relation moves to another vehicle's tour", a
    # quarter an ORDER breach of a SEQUENCE relation, the rest come in the generated order
    rel = [(p, r) for p, r in zip(rprobs, sols[k2:k3])
           if isinstance(r, dict) and 'solution' in r and not e2e.unsupported(p, r['solution'])]
    rsites = [_rel_sites(p, r['solution']) for p, r in rel]
    is_a = [any(m['op'] == 'MRelTour' and m.get('d') == 1 for m in ms) for ms in rsites]
    is_b = [any(m['op'] == 'MRelShift' and m['f'] == 1 and p['problem']['plan']['relations'][m['r']]['type'] == 'sequence' for m in ms)
            for (p, _), ms in zip(rel, rsites)]
    chosen = [i for i in range(len(rel)) if is_a[i]][:nr // 2]
    chosen += [i for i in range(len(rel)) if is_b[i] and i not in chosen][:nr // 4]
    is_c = [any(m['op'] == 'MRelShift' and p['problem']['plan']['relations'][m['r']]['type'] == 'strict' for m in ms)
            for (p, _), ms in zip(rel, rsites)]
    chosen += [i for i in range(len(rel)) if is_c[i] and i not in chosen][:nr // 8]
    chosen += [i for i in range(len(rel)) if i not in chosen][:max(0, nr - len(chosen))]
    take([rel[i][0] for i in chosen], [rel[i][1] for i in chosen], nr, CAP.get(tier, 3), 0)
    take(gprobs, sols[k3:], ng, CAP.get(tier, 3), 0)
    return cases


def _more_services(rng):
    """base problems of the relation batch get more SERVICE jobs (a third of the single deliveries / pickups lose their demand):
    the `any` rule of relations.rs has to see service activities in the tours of other vehicles too (seeded change C12-4)"""
    def tweak(p):
        singles = []
        for j in p['problem']['plan']['jobs']:
            keys = [k for k in ('pickups', 'deliveries', 'replacements', 'services') if j.get(k)]
            if len(keys) == 1 and keys[0] in ('pickups', 'deliveries') and len(j[keys[0]]) == 1:
                singles.append((j, keys[0]))
        chosen = [x for x in singles if rng.chance(1, 2)]
        nsvc = sum(1 for j in p['problem']['plan']['jobs'] if j.get('services') and len(e2e.tasks_of(j)) == 1)
        for x in singles:                                  # at least two single service jobs where the plan allows it
            if nsvc + len(chosen) < 2 and x not in chosen:
                chosen.append(x)
        for j, key in chosen:
            t = j.pop(key)[0]
            t.pop('demand', None)
            j['services'] = [t]
        # ... and at least two vehicles, so that "the tour of another vehicle" can exist
        vs = p['problem']['fleet']['vehicles']
        if sum(len(v['vehicleIds']) for v in vs) < 2:
            vs[0]['vehicleIds'].append('%s_2' % vs[0]['typeId'])
        return p
    return tweak


def _rel_derive(rng, p, s):
    """e2e.derive_relations, plus an `any` relation naming a SERVICE job for tours that got no relation"""
    rels = e2e.derive_relations(rng, p, s)
    # a strict relation without anchors is also a valid SEQUENCE relation (the weaker rule): a third of them are turned into one,
    # so that sequence relations with several jobs are frequent enough for the order breach
    for r in rels:
        if r['type'] == 'strict' and not any(x in ('departure', 'arrival') for x in r['jobs']) and rng.chance(1, 2):
            r['type'] = 'sequence'
    have = {(r['vehicleId'], r.get('shiftIndex') or 0): r for r in rels}
    jobs = {j['id']: j for j in p['problem']['plan']['jobs']}
    tours = s.get('tours') or []

    def services(t):
        """single SERVICE jobs of the tour that may be named by a relation (one place, at most one window: E1203)"""
        out = []
        for st in t['stops']:
            for a in st['activities']:
                j = jobs.get(a.get('jobId'))
                if a.get('type') == 'service' and j is not None and len(e2e.tasks_of(j)) == 1:
                    pl = j['services'][0]['places']
                    if len(pl) == 1 and len(pl[0].get('times') or []) <= 1 and a['jobId'] not in out:
                        out.append(a['jobId'])
        return out

    def name_services(r, svc):
        for x in svc[:2]:
            if x not in r['jobs']:
                r['jobs'].append(x)
    for t in tours:
        key = (t['vehicleId'], t.get('shiftIndex', 0))
        svc = services(t)
        if not svc or (key in have and have[key]['type'] != 'any'):
            continue
        if key in have:                   # an `any` relation of this tour: it also names service jobs of the tour
            name_services(have[key], svc)
        else:
            rel = {'type': 'any', 'vehicleId': t['vehicleId'], 'jobs': []}
            name_services(rel, svc)
            if key[1] != 0:
                rel['shiftIndex'] = key[1]
            rels.append(rel)
            have[key] = rel
    # EVERY relation problem gets an `any` relation with a service job where the base solution allows it: when none came out
    # above, the relation of a tour that serves one (preferably while another vehicle has a tour too) is weakened to `any` - the
    # jobs of a sequence / strict relation taken from a solution are a consistent `any` relation as well - and names it
    def has_any_service(r):
        return r['type'] == 'any' and any(jobs.get(x) is not None and jobs[x].get('services') and len(e2e.tasks_of(jobs[x])) == 1
                                          for x in r['jobs'])
    if not any(has_any_service(r) for r in rels):
        # (never a sequence / strict relation with two or more jobs: those carry the order / contiguity breach sites)
        cands = [t for t in tours if services(t)
                 and len({x for x in have[(t['vehicleId'], t.get('shiftIndex', 0))]['jobs'] if x not in ('departure', 'arrival')}) < 2]
        cands.sort(key=lambda t: 0 if any(o['vehicleId'] != t['vehicleId'] for o in tours) else 1)
        if cands:
            t = cands[0]
            r = have[(t['vehicleId'], t.get('shiftIndex', 0))]
            r['type'] = 'any'
            r['jobs'] = [x for x in r['jobs'] if x not in ('departure', 'arrival')]
            name_services(r, services(t))
    return rels


def _growing(rng, p):
    """the last shift of every vehicle becomes open-ended and two thirds of the single deliveries become static pickups: the
    load grows along the tour and peaks at the last stop of a load interval (last stop of the tour / last stop before a reload)"""
    for v in p['problem']['fleet']['vehicles']:
        v['shifts'][-1].pop('end', None)
    for j in p['problem']['plan']['jobs']:
        keys = [k for k in ('pickups', 'deliveries', 'replacements', 'services') if j.get(k)]
        if keys == ['deliveries'] and len(j['deliveries']) == 1 and rng.chance(2, 3):
            j['pickups'] = j.pop('deliveries')
    e2e.renumber_locations(p['problem'], p['matrices'])
    return p


def make_case(p, s, m):
    c = {'op': 'check', 'matrices': p['matrices'], 'mut': m}
    if m is None:
        c['problem'], c['solution'] = p['problem'], s
        return c
    p2, s2 = mutate(p['problem'], s, m)
    c['problem'], c['solution'] = p2, s2
    if p2 != p['problem']:
        c['base_problem'] = p['problem']
    if s2 != s:
        c['base_solution'] = s
    return c


def base_of(c):
    return ({'problem': c.get('base_problem', c['problem']), 'matrices': c['matrices']}, c.get('base_solution', c['solution']))


# ------------------------------------------------------------------------------------------------ mutations (JSON mirror)
JOBKINDS = ('pickup', 'delivery', 'service', 'replacement')


def _is_job(a):
    return a.get('type') in JOBKINDS


def _reason():
    return [{'code': 'NO_REASON_FOUND', 'description': 'injected by C12'}]


def _job_acts_ids(stops):
    return [a['jobId'] for st in stops for a in st['activities'] if _is_job(a)]


def mutate(problem, sol, m):
    """mirror of Mutations.mutS / mutP on the JSON documents; m = {'op': ctor, 'k','s','a','k2','i','f','d'}"""
    p, s = copy.deepcopy(problem), copy.deepcopy(sol)
    op = m['op']
    tours = s['tours']

    def stop():
        return tours[m['k']]['stops'][m['s']]

    def vtypes(k):
        return [vt for vt in p['fleet']['vehicles'] if vt['typeId'] == tours[k]['typeId']]

    def un():
        if s.get('unassigned') is None:
            s['unassigned'] = []
        return s['unassigned']

    if op == 'MLoad':
        stop()['load'][0] += m['d']
    elif op == 'MCapacity':
        for vt in vtypes(m['k']):
            vt['capacity'] = [stop()['load'][0] - 1] + list(vt['capacity'][1:])
    elif op == 'MUnknownAct':
        stop()['activities'][m['a']]['jobId'] = UNKNOWN
    elif op == 'MUnknownUn':
        un().append({'jobId': UNKNOWN, 'reasons': _reason()})
    elif op == 'MDupAct':
        stop()['activities'].append(copy.deepcopy(stop()['activities'][-1]))
    elif op == 'MDupUn':
        un().append(copy.deepcopy(un()[m['i']]))
    elif op == 'MDropUn':
        del un()[m['i']]
    elif op == 'MDropStop':
        del tours[m['k']]['stops'][m['s']]
    elif op == 'MCopyStop':
        tours[m['k2']]['stops'].insert(1, copy.deepcopy(stop()))
    elif op == 'MRelShift':
        st = tours[m['k']]['stops'].pop(m['s'])
        tours[m['k']]['stops'].insert(m['s2'], st)
    elif op in ('MMoveStop', 'MRelTour'):
        st = copy.deepcopy(stop())
        del tours[m['k']]['stops'][m['s']]
        tours[m['k2']]['stops'].insert(1, st)
    elif op == 'MBoth':
        un().append({'jobId': stop()['activities'][m['a']]['jobId'], 'reasons': _reason()})
    elif op == 'MArrival':
        stop()['time']['arrival'] = e2e.rfc(e2e.secs(stop()['time']['arrival']) + m['d'])
    elif op == 'MDistance':
        stop()['distance'] += m['d']
    elif op in ('MStatTour', 'MStatTotal'):
        st = tours[m['k']]['statistic'] if op == 'MStatTour' else s['statistic']
        f = FIELDS[m['f']]
        if m['f'] == 0:
            st['cost'] = st['cost'] + m['d']
        elif m['f'] <= 2:
            st[f] += m['d']
        else:
            st['times'][f] += m['d']
    elif op == 'MLimitDistance':
        for vt in vtypes(m['k']):
            vt.setdefault('limits', {})['maxDistance'] = tours[m['k']]['statistic']['distance'] - 1
    elif op == 'MLimitDuration':
        for vt in vtypes(m['k']):
            vt.setdefault('limits', {})['maxDuration'] = tours[m['k']]['statistic']['duration'] - 1
    elif op == 'MLimitSize':
        for vt in vtypes(m['k']):
            vt.setdefault('limits', {})['tourSize'] = len(_job_acts_ids(tours[m['k']]['stops'])) - 1
    elif op == 'MBreakLoc':
        stop()['activities'][m['a']]['location'] = {'index': m['l']}
    elif op == 'MBreakDup':
        stop()['activities'].insert(m['a'] + 1, copy.deepcopy(stop()['activities'][m['a']]))
    elif op == 'MBreakDrop':
        if len(stop()['activities']) == 1:
            del tours[m['k']]['stops'][m['s']]
        else:
            del stop()['activities'][m['a']]
    else:
        raise ValueError(op)
    return p, s


def g_mutation(m, ids):
    op = m['op']
    n = lambda key: nat(m[key])
    if op in ('MLoad', 'MArrival', 'MDistance'):
        return '(%s %s %s %s)' % (op, n('k'), n('s'), z(m['d']))
    if op in ('MCapacity', 'MDupAct', 'MDropStop'):
        return '(%s %s %s)' % (op, n('k'), n('s'))
    if op == 'MUnknownAct':
        return '(MUnknownAct %s %s %s %s)' % (n('k'), n('s'), n('a'), z(ids.job(UNKNOWN)))
    if op == 'MUnknownUn':
        return '(MUnknownUn %s)' % z(ids.job(UNKNOWN))
    if op in ('MDupUn', 'MDropUn'):
        return '(%s %s)' % (op, n('i'))
    if op in ('MCopyStop', 'MMoveStop', 'MRelTour'):
        return '(%s %s %s %s)' % (op, n('k'), n('s'), n('k2'))
    if op == 'MRelShift':
        return '(MRelShift %s %s %s)' % (n('k'), n('s'), n('s2'))
    if op in ('MBoth', 'MBreakDup', 'MBreakDrop'):
        return '(%s %s %s %s)' % (op, n('k'), n('s'), n('a'))
    if op == 'MBreakLoc':
        return '(MBreakLoc %s %s %s %s)' % (n('k'), n('s'), n('a'), z(m['l']))
    if op == 'MStatTour':
        return '(MStatTour %s %s %s)' % (n('k'), n('f'), z(m['d']))
    if op == 'MStatTotal':
        return '(MStatTotal %s %s)' % (n('f'), z(m['d']))
    return '(%s %s)' % (op, n('k'))


def mut_class(m, sol=None):
    """structural class of a breach (site structure included where the checker treats sites differently)"""
    op = m['op']
    if op == 'MLoad':
        if sol is not None and len(sol['tours'][m['k']]['stops']) == 1:
            return 'load-misreported-single-stop-tour'
        if sol is not None:
            # findings C12-F8 / F11: at a reload stop that also serves jobs, or that is the last stop of the tour, the checker's OWN
            # expectation of the reported load is wrong (it rejects the true value), so a wrong value can happen to satisfy it
            stops = sol['tours'][m['k']]['stops']
            acts = stops[m['s']]['activities']
            if any(a.get('type') == 'reload' for a in acts) and (any(_is_job(a) for a in acts) or m['s'] == len(stops) - 1):
                return 'load-misreported-at-reload-stop-with-jobs-or-last'
        return 'load-misreported'
    if op == 'MCapacity':
        if sol is not None and len(sol['tours'][m['k']]['stops']) == 1:
            return 'load-above-capacity-single-stop-tour'          # no leg, nothing is load-checked: finding C12-F3
        return 'load-above-capacity'
    if op == 'MUnknownAct':
        return 'unknown-job-activity'
    if op == 'MUnknownUn':
        return 'unknown-job-unassigned'
    if op == 'MDupAct':
        return 'duplicated-job-activity'
    if op == 'MDupUn':
        return 'duplicated-job-unassigned'
    if op == 'MDropUn':
        return 'dropped-job-unassigned'
    if op == 'MDropStop':
        return 'dropped-job-stop'
    if op == 'MCopyStop':
        return 'job-in-two-tours'
    if op == 'MMoveStop':
        return 'job-split-over-tours'
    if op == 'MBoth':
        return 'assigned-and-unassigned'
    if op == 'MArrival':
        return 'arrival'
    if op == 'MDistance':
        if m['s'] == 0:
            return 'distance-first-stop'
        # finding C12-F19: routing.rs::skip_distance_check switches every distance comparison off when ALL stop distances of the
        # (breached) solution are 0 - the breach zeroes the only non-zero one
        if sol is not None and all(st['distance'] + (m['d'] if (k, si) == (m['k'], m['s']) else 0) == 0
                                   for k, t in enumerate(sol['tours']) for si, st in enumerate(t['stops'])):
            return 'distance/all-stop-distances-zero'
        return 'distance'
    if op == 'MStatTour':
        return 'stat-tour-' + FIELDS[m['f']]
    if op == 'MStatTotal':
        return 'stat-total-' + FIELDS[m['f']]
    if op in ('MRelTour', 'MRelShift'):
        # relations.rs compares only the VEHICLE id for an `any` relation: another shift of the same vehicle passes
        return 'broken-relation-' + REL_SUB[m['f']] + ('/any-relation-other-shift-of-the-same-vehicle' if m.get('anyshift') else '')
    return {'MLimitDistance': 'limit-max-distance', 'MLimitDuration': 'limit-max-duration', 'MLimitSize': 'limit-tour-size',
            'MBreakLoc': 'misplaced-break-location', 'MBreakDup': 'misplaced-break-duplicated',
            'MBreakDrop': 'misplaced-break-dropped'}[op]


# violation constructors of valid_b the proofs derive for each operator (sanity check of the theorem instances)
EXPECT = {'MLoad': ('RLoad',), 'MDistance': ('RDistance',), 'MUnknownAct': ('AForeignJob',), 'MUnknownUn': ('AForeignJob',),
          'MDupUn': ('AJobDuplicated',), 'MDropUn': ('AJobLost',), 'MCopyStop': ('AJobDuplicated',),
          'MMoveStop': ('AJobDuplicated',), 'MBoth': ('AJobDuplicated',), 'MStatTotal': ('RTotal',),
          'MLimitDistance': ('FMaxDistance',), 'MLimitDuration': ('FMaxDuration',), 'MLimitSize': ('FTourSize',),
          'MCapacity': ('FCapacity',), 'MArrival': ('RArrival', 'RNoReplay'),
          'MDupAct': ('AJobIncomplete', 'AJobOrder'),
          'MBreakLoc': ('RActLocation', 'RNoReplay'), 'MBreakDup': ('FNoTour', 'RNoReplay', 'ABreak'),
          'MBreakDrop': ('RStatBreak', 'RNoReplay')}


# breaches that necessarily damage other rules too (an inserted stop breaks load and routing): the checker's dedicated message
DEDICATED = {'MCopyStop': 'job served in multiple tours', 'MMoveStop': 'job served in multiple tours',
             'MBreakLoc': 'break location', 'MRelTour': 'relation', 'MRelShift': 'relation'}
REL_SUB = ['tour', 'order', 'contiguity', 'anchor']


# ---- python twin of Spec/Relations.v rel_viols on the JSON documents: proposes the relation breach sites and predicts the
# violation constructors; VALIDATED against rel_viols (evaluated in Coq) on every base pair and every site (compare)
MIDKINDS = JOBKINDS + ('break', 'reload')


def _mid_ids(t):
    return [a['jobId'] for st in t['stops'] for a in st['activities'] if a.get('type') in MIDKINDS]


def _is_rel_tour(r, t):
    return t.get('vehicleId') == r['vehicleId'] and t.get('shiftIndex', 0) == (r.get('shiftIndex') or 0)


def rel_viols_py(rels, sol):
    out = []
    tours = sol.get('tours') or []
    for i, r in enumerate(rels):
        ids = [x for x in r['jobs'] if x not in ('departure', 'arrival')]
        typ = e2e.REL_TYPE[r['type']]
        mids = [_mid_ids(t) for t in tours]
        ok = all(_is_rel_tour(r, t) or not any(x in ms for x in ids) for t, ms in zip(tours, mids))
        ok = ok and (typ == 0 or all(any(_is_rel_tour(r, t) and x in ms for t, ms in zip(tours, mids)) for x in ids))
        if not ok:
            out.append(('FRelVehicle', i))
        for t, ms in zip(tours, mids):
            if not _is_rel_tour(r, t):
                continue
            n = len(ids)
            if typ >= 1 and [x for x in ms if x in ids] != ids:
                out.append(('FRelOrder', i))
            if typ == 2 and not any(ms[j:j + n] == ids for j in range(len(ms) - n + 1)):
                out.append(('FRelContiguous', i))
            if typ == 2 and ((r['jobs'][:1] == ['departure'] and ms[:n] != ids)
                             or (r['jobs'][-1:] == ['arrival'] and ms[len(ms) - n:] != ids)):
                out.append(('FRelAnchor', i))
    return sorted(set(out))


def _svc_any_sites(p, s):
    return [m for m in _rel_sites(p, s) if m['op'] == 'MRelTour' and m.get('d') == 1]


def _rel_sites(p, s):
    """breach sites for the relations of the plan: MRelTour (a stop with a pinned job moves to another tour) and MRelShift (a stop
    moves inside its tour), kept when the twin of rel_viols says the breached document violates a relation; 'f' = sub-class
    (0 tour, 1 order, 2 contiguity, 3 anchor), 'expect' = the F-Rel constructors the twin predicts"""
    rels = p['problem']['plan'].get('relations') or []
    if not rels or rel_viols_py(rels, s):
        return []
    tours, out, seen = s['tours'], [], set()
    for ri, r in enumerate(rels):
        ks = [k for k, t in enumerate(tours) if _is_rel_tour(r, t)]
        if not ks:
            continue
        k = ks[0]
        stops = tours[k]['stops']
        ids = {x for x in r['jobs'] if x not in ('departure', 'arrival')}
        movable = [si for si, st in enumerate(stops) if si >= 1 and st['activities']
                   and not any(a.get('type') in ('departure', 'arrival') for a in st['activities'])]
        cands = []
        for si in movable:
            if any(_is_job(a) and a['jobId'] in ids for a in stops[si]['activities']):
                for k2 in range(len(tours)):
                    if k2 == k:
                        continue
                    m = {'op': 'MRelTour', 'k': k, 's': si, 'k2': k2}
                    # own bucket ('d': 1, not part of the Coq term): a SERVICE (or replacement) job of an `any` relation moves to
                    # the tour of ANOTHER VEHICLE - relations.rs has to find non-pickup / non-delivery activities there too
                    if r['type'] == 'any' and tours[k2].get('vehicleId') != r['vehicleId'] and \
                            any(a.get('type') in ('service', 'replacement') and a['jobId'] in ids for a in stops[si]['activities']) \
                            and not any(a.get('type') in ('pickup', 'delivery') and a['jobId'] in ids for a in stops[si]['activities']):
                        m['d'] = 1
                    cands.append(m)
        fixed_last = any(a.get('type') == 'arrival' for a in stops[-1]['activities'])
        for si in movable:
            cands += [{'op': 'MRelShift', 'k': k, 's': si, 's2': s2}
                      for s2 in range(1, len(stops) - (1 if fixed_last else 0)) if s2 != si]
        for m in cands:
            key = json.dumps(m, sort_keys=True)
            if key in seen:
                continue
            seen.add(key)
            v = {c for c, _ in rel_viols_py(rels, mutate(p['problem'], s, m)[1])}
            if m['op'] == 'MRelTour':
                if 'FRelVehicle' not in v:
                    continue
                m['f'] = 0
                if r['type'] == 'any' and tours[m['k2']].get('vehicleId') == r['vehicleId']:
                    m['anyshift'] = True
            else:
                sub = [i for i, c in ((1, 'FRelOrder'), (2, 'FRelContiguous'), (3, 'FRelAnchor')) if c in v]
                if not sub or 'FRelVehicle' in v:
                    continue
                m['f'] = sub[0]
            m['expect'] = sorted(v)
            m['r'] = ri
            out.append(m)
    return out


def _spread(xs, cap, rot):
    """at most `cap` evenly spaced elements (systematic, rotated by the solution index so that all positions get used)"""
    if len(xs) <= cap:
        return list(xs)
    step = len(xs) / float(cap)
    off = rot % max(1, int(math.ceil(step)))
    return [xs[min(len(xs) - 1, int(i * step) + off)] for i in range(cap)]


def sites(p, s, cap, rot=0):
    tours = s['tours']
    un = s.get('unassigned') or []
    by = {}

    def add(m):
        by.setdefault((m['op'], m.get('f'), m.get('d')), []).append(m)

    for k, t in enumerate(tours):
        stops = t['stops']
        for si, st in enumerate(stops):
            load = st['load'][0]
            add({'op': 'MLoad', 'k': k, 's': si, 'd': 1})
            if load >= 1:
                add({'op': 'MLoad', 'k': k, 's': si, 'd': -1})
            # any stop but a last one that holds the arrival (the final arrival unloads the vehicle); the LAST STOP OF A LOAD
            # INTERVAL (last stop of an open-ended tour, stop in front of a reload stop) gets its own bucket ('f': 1): it is never
            # the `from` stop of a leg of its interval (seeded change C12-3)
            open_last = si + 1 == len(stops) and not any(a.get('type') == 'arrival' for a in st['activities'])
            if load >= 1 and (si + 1 < len(stops) or open_last):
                nxt = stops[si + 1]['activities'] if si + 1 < len(stops) else []
                m = {'op': 'MCapacity', 'k': k, 's': si}
                if open_last or (nxt and nxt[0].get('type') == 'reload'):
                    m['f'] = 1
                add(m)
            for d in (2, -2):
                if si >= 1 and st['activities']:
                    add({'op': 'MArrival', 'k': k, 's': si, 'd': d})
                if st['distance'] + d >= 0:
                    add({'op': 'MDistance', 'k': k, 's': si, 'd': d})
            acts = st['activities']
            for ai, a in enumerate(acts):
                if _is_job(a):
                    add({'op': 'MUnknownAct', 'k': k, 's': si, 'a': ai})
                    add({'op': 'MBoth', 'k': k, 's': si, 'a': ai})
            if acts and _is_job(acts[-1]):
                add({'op': 'MDupAct', 'k': k, 's': si})
            if any(_is_job(a) for a in acts):
                add({'op': 'MDropStop', 'k': k, 's': si})
                rest = _job_acts_ids(stops[:si] + stops[si + 1:])
                stays = any(_is_job(a) and a['jobId'] in rest for a in acts)
                for k2 in range(len(tours)):
                    if k2 != k:
                        add({'op': 'MCopyStop', 'k': k, 's': si, 'k2': k2})
                        if stays:
                            add({'op': 'MMoveStop', 'k': k, 's': si, 'k2': k2})
        for f in range(7):
            add({'op': 'MStatTour', 'k': k, 'f': f, 'd': 2})
        for f in (1, 2):
            if t['statistic'][FIELDS[f]] >= 2:
                add({'op': 'MStatTour', 'k': k, 'f': f, 'd': -2})
        if t['statistic']['distance'] >= 1:
            add({'op': 'MLimitDistance', 'k': k})
        if t['statistic']['duration'] >= 1:
            add({'op': 'MLimitDuration', 'k': k})
        if len(_job_acts_ids(stops)) >= 1:
            add({'op': 'MLimitSize', 'k': k})
        for m in _break_sites(p, s, k, t):
            add(m)
    for m in _rel_sites(p, s):
        add(m)
    for f in range(7):
        add({'op': 'MStatTotal', 'f': f, 'd': 1})
    add({'op': 'MUnknownUn'})
    for i in range(len(un)):
        add({'op': 'MDupUn', 'i': i})
        add({'op': 'MDropUn', 'i': i})
    out = []
    for key in sorted(by, key=lambda x: (x[0], x[1] or 0, x[2] or 0)):
        out += _spread(by[key], cap, rot)
    return out


# ------------------------------------------------------------------------------------------------ fingerprints (mirror of Mutations.v)
FPM = 2305843009213693951


def _fp(nums):
    h = 7
    for x in nums:
        h = (h * 1000003 + x + 17) % FPM
    return h


def _oz(x):
    return [0] if x is None else [1, x]


def _stat_numbers(st):
    t = st['times']
    return [int(st['cost']), st['distance'], st['duration'], t['driving'], t['serving'], t['waiting'], t['break']]


def sol_numbers(s, ids):
    out = _stat_numbers(s['statistic']) + [len(s['tours'])]
    for t in s['tours']:
        out += [ids.vehicle(t['vehicleId']), ids.vtype(t['typeId']), t.get('shiftIndex', 0), len(t['stops'])]
        for st in t['stops']:
            out += [st['location']['index'], e2e.secs(st['time']['arrival']), e2e.secs(st['time']['departure']),
                    (st['load'] or [0])[0], st['distance'], len(st['activities'])]
            for a in st['activities']:
                kind = e2e.KIND.get(a.get('type'), 99)
                out += [ids.job(a['jobId']) if kind in (0, 1, 2, 3) else e2e.RELOAD_JOB if kind == 13
                        else e2e.BREAK_JOB if kind == 12 else -1, kind]
                out += _oz(None if a.get('location') is None else a['location']['index'])
                out += [0] if a.get('time') is None else [1, e2e.secs(a['time']['start']), e2e.secs(a['time']['end'])]
                out += _oz(None if a.get('jobTag') is None else ids.tag(a['jobTag']))
        out += _stat_numbers(t['statistic'])
    un = s.get('unassigned') or []
    out.append(len(un))
    for u in un:
        out += [ids.job(u['jobId']), len(u.get('reasons') or [])]
    return out


def prob_numbers(problem, ids):
    out = []
    for vt in problem['fleet']['vehicles']:
        lim = vt.get('limits') or {}
        out += [ids.vtype(vt['typeId']), vt['capacity'][0]]
        for key in ('maxDistance', 'maxDuration', 'tourSize'):
            out += _oz(None if lim.get(key) is None else int(lim[key]))
    return out


# ------------------------------------------------------------------------------------------------ model / compare / oracle
def model_term(c):
    p, s = base_of(c)
    ids = e2e.Ids(p)
    P, S = e2e.g_problem(p, ids), e2e.g_solution(p, s, ids)
    R = e2e.g_relations(p, ids)             # [] without relations: valid_r [] = valid_b
    if c.get('mut') is None:
        return '(run_base_r %s %s %s)' % (R, P, S)
    return '(run_mutation_r %s %s %s %s)' % (g_mutation(c['mut'], ids), R, P, S)


def _ctor_names(viols):
    return {t[0] for t in e2e.coq_viols(viols)}


def compare(c, impl, model):
    m = c.get('mut')
    p, s = base_of(c)
    rels = p['problem']['plan'].get('relations') or []

    def frel(viols):
        return sorted({(t[0], int(t[1])) for t in e2e.coq_viols(viols) if t[0].startswith('FRel')})
    if m is None:
        # the python twin of rel_viols (which proposes the relation breach sites) against rel_viols itself
        if rels and frel(model[0]) != rel_viols_py(rels, s):
            return 'python twin of rel_viols differs on the base pair: coq %s, python %s' % (frel(model[0]), rel_viols_py(rels, s))
        return None
    base_v, applicable, mut_v, (sfp, pfp) = model
    if rels and frel(mut_v) != rel_viols_py(rels, c['solution']):
        return 'python twin of rel_viols differs on the breached pair: coq %s, python %s (%s)' % (
            frel(mut_v), rel_viols_py(rels, c['solution']), json.dumps(m))
    ids = e2e.Ids(p)
    e2e.g_solution(p, s, ids)                       # same id numbering as model_term (foreign ids in order of appearance)
    if m['op'] in ('MUnknownAct', 'MUnknownUn'):
        ids.job(UNKNOWN)
    mine_s = _fp(sol_numbers(c['solution'], ids))
    mine_p = _fp(prob_numbers(c['problem'], ids))
    if mine_s != sfp:
        return 'mutation mirror differs (solution document): class %s site %s' % (mut_class(m), json.dumps(m))
    if mine_p != pfp:
        return 'mutation mirror differs (problem document): class %s site %s' % (mut_class(m), json.dumps(m))
    if applicable != 'true':
        return 'generated site is not applicable in the model: %s' % json.dumps(m)
    if not base_v:
        names = _ctor_names(mut_v)
        if not names:
            return 'theorem instance fails: reference semantics accepts the breached pair, %s' % json.dumps(m)
        exp = m.get('expect') or EXPECT.get(m['op'])
        if exp and not (names & set(exp)):
            return 'breached pair rejected, but not for the expected reason %s: %s (%s)' % (exp, sorted(names), json.dumps(m))
    return None


def _prefix(msg):
    return re.split(r"[':0-9]", str(msg))[0].strip().replace(' ', '-')[:60] or 'error'


# ---- TWIN of the bundled checker's reading of optional breaks (checker/breaks.rs, checker/mod.rs::get_activity_type,
# format/solution/activity_matcher.rs::try_match_point_job, checker/assignment.rs::is_valid_job_info).  It is used ONLY to name
# the structural cause of a rejection of a document that valid_b accepts (and to pick breach sites); it never produces a
# verdict.  A rejection gets a known-finding class only when the twin REPRODUCES the numbers of the message and the whole
# discrepancy is explained by the named causes; anything else keeps the bare class and is a VIOLATION.
#   F12 /offset-break-and-job-at-departure-stop: offset intervals are resolved against the DEPARTURE OF THE FIRST STOP
#       (get_route_start_time, get_break_time_window), the end of the last activity merged into that stop, not the tour's departure
#   F10 /two-breaks-of-the-shift-overlap-in-time: a break activity is attributed to the FIRST break of the shift whose interval
#       intersects the activity's time; location, duration and tag are held against that break only
#   F14 /break-followed-by-another-activity-in-its-stop: check_break_assignment walks activities.windows(2) and counts a break once
#       per PAIR that contains it
#   F15 /no-intersection-break-ends-before-departure, /break-starts-exactly-at-tour-arrival: expected_break_count reads
#       skip-if-no-intersection as `break.start < arrival`; the solver (features/breaks.rs::can_be_scheduled) and vehicles.md as
#       "the break window intersects [departure, arrival]"
#       /jobs-in-the-arrival-stop: the tour's arrival is taken from the LAST STOP's arrival, which is the arrival of the first
#       activity merged into that stop, not the arrival of the tour's end activity
#   F16 break:first-fitting-place-has-another-duration: match_place returns the first place of the break whose location and
#       time fit; is_valid_job_info then expects that place's duration (the twin of F7 / F13 for break places)
ABE = 'skip-if-arrival-before-end'


def _bw(b, dep):
    w = e2e.break_window(b)
    return (w[0] + dep, w[1] + dep) if e2e.break_is_offset(b) else w


def _isect(a, b):
    return a[0] <= b[1] and b[0] <= a[1]


def _bk_tour(prob, t):
    """a tour as the twin sees it: optional breaks of its shift, flattened activities, the two readings of departure / arrival"""
    vt = e2e.vehicle_type_of({'problem': prob}, t)
    if vt is None or t.get('shiftIndex', 0) >= len(vt['shifts']) or not t.get('stops'):
        return None
    acts = []
    for si, st in enumerate(t['stops']):
        arr = e2e.secs(st['time']['arrival'])
        for ai, a in enumerate(st['activities']):
            if a.get('time'):
                b, e = e2e.secs(a['time']['start']), e2e.secs(a['time']['end'])
            else:
                b, e = e2e.secs(st['time']['arrival']), e2e.secs(st['time']['departure'])
            acts.append({'kind': a.get('type'), 'loc': (a.get('location') or st['location'])['index'], 'arr': arr, 'start': b,
                         'end': e, 'tag': a.get('jobTag'), 'si': si, 'ai': ai, 'n': len(st['activities'])})
            arr = e
    if not acts:
        return None
    return {'t': t, 'brs': e2e.optional_breaks(vt['shifts'][t.get('shiftIndex', 0)]), 'acts': acts,
            'ds': e2e.secs(t['stops'][0]['time']['departure']), 'dt': acts[0]['end'],
            'as': e2e.secs(t['stops'][-1]['time']['arrival']), 'at': acts[-1]['arr']}


def _bk_tours(prob, sol, vehicle=None, shift=None):
    out = []
    for t in sol.get('tours') or []:
        if (vehicle is None or t.get('vehicleId') == vehicle) and (shift is None or t.get('shiftIndex', 0) == shift):
            T = _bk_tour(prob, t)
            if T is not None:
                out.append(T)
    return out


def _resolve(T, a, dep):
    """checker/mod.rs::get_activity_type for a break activity: index of the first break whose interval intersects its time"""
    for bi, b in enumerate(T['brs']):
        if _isect(_bw(b, dep), (a['start'], a['end'])):
            return bi
    return None


def _chk_expect(b, dep, arr):            # breaks.rs expected_break_count (should_assign)
    w = _bw(b, dep)
    return arr > w[1] if b.get('policy') == ABE else w[0] < arr


def _slv_required(b, dep, arr):          # features/breaks.rs can_be_scheduled
    w = _bw(b, dep)
    return arr > w[1] if b.get('policy') == ABE else (w[0] <= arr and dep <= w[1])


def _bk_violations(sol, T):
    return sum(1 for v in sol.get('violations') or [] if v.get('type') == 'break' and v.get('vehicle_id') == T['t'].get('vehicleId')
               and v.get('shift_index', 0) == T['t'].get('shiftIndex', 0))


def _bk_amount_ok(sol, T):
    """the checker's amount-of-breaks rule holds for this tour (breach sites: duplicating / dropping a break must break it)"""
    n = sum(1 for a in T['acts'] if a['kind'] == 'break')
    return sum(1 for b in T['brs'] if _chk_expect(b, T['ds'], T['as'])) == n + _bk_violations(sol, T)


def _amount_causes(sol, T, exp, got):
    brs, ds, dt, as_, at = T['brs'], T['ds'], T['dt'], T['as'], T['at']
    n = sum(1 for a in T['acts'] if a['kind'] == 'break')
    if sum(1 for b in brs if _chk_expect(b, ds, as_)) != exp or n + _bk_violations(sol, T) != got \
            or sum(1 for b in brs if _slv_required(b, dt, at)) != got:
        return ['']                       # the twin does not reproduce the numbers / the solver contradicts its own rule
    causes = set()
    for b in brs:
        s = _slv_required(b, dt, at)
        if _chk_expect(b, ds, as_) == s:
            continue
        if _chk_expect(b, dt, at) == s:   # the checker's own formula agrees once it reads the tour's departure / arrival
            if _chk_expect(b, dt, as_) == s:
                causes.add('/offset-break-and-job-at-departure-stop')
            elif _chk_expect(b, ds, at) == s:
                causes.add('/jobs-in-the-arrival-stop')
            else:
                causes |= {'/offset-break-and-job-at-departure-stop', '/jobs-in-the-arrival-stop'}
        else:
            w = _bw(b, dt)
            if b.get('policy') != ABE and w[1] < dt and not s:
                causes.add('/no-intersection-break-ends-before-departure')
            elif b.get('policy') != ABE and w[0] == at and s:
                causes.add('/break-starts-exactly-at-tour-arrival')
            else:
                causes.add('')
    return sorted(causes) or ['']


def _pairs(T):
    """breaks.rs: stop.activities().windows(len.min(2)) -> (from, to) per stop"""
    by = {}
    for a in T['acts']:
        by.setdefault(a['si'], []).append(a)
    out = []
    for si in sorted(by):
        la = by[si]
        out += [(None, la[0])] if len(la) == 1 else list(zip(la, la[1:]))
    return out


def _matched(T, dep):
    n = 0
    for f, to in _pairs(T):
        for x in (to, f):
            if x is not None and x['kind'] == 'break' and _resolve(T, x, dep) is not None:
                n += 1
                break
    return n


def _matched_causes(T, matched, actual):
    bacts = [a for a in T['acts'] if a['kind'] == 'break']
    if len(bacts) != actual or _matched(T, T['ds']) != matched:
        return ['']
    causes = set()
    if _matched(T, T['dt']) != matched:
        causes.add('/offset-break-and-job-at-departure-stop')
    if _matched(T, T['dt']) != actual:
        if all(_resolve(T, a, T['dt']) is not None for a in bacts) and any(a['ai'] < a['n'] - 1 for a in bacts):
            causes.add('/break-followed-by-another-activity-in-its-stop')
        else:
            causes.add('')
    return sorted(causes) or ['']


def _unresolved_causes(Ts):
    """a break activity that no break of the shift claims (\"cannot find break for tour\")"""
    causes = set()
    for T in Ts:
        for a in T['acts']:
            if a['kind'] == 'break' and _resolve(T, a, T['ds']) is None:
                causes.add('/offset-break-and-job-at-departure-stop' if _resolve(T, a, T['dt']) is not None else '')
    return sorted(causes) or ['']


def _place_ok(b, loc_to, loc_from):
    return any(pl['location']['index'] == loc_to if pl.get('location') is not None else loc_from == loc_to for pl in b['places'])


def _location_causes(Ts):
    """breaks.rs has_match: the places of the break the activity was attributed to, held against the location of `to`"""
    causes = set()
    for T in Ts:
        for f, to in _pairs(T):
            x = next((y for y in (to, f) if y is not None and y['kind'] == 'break' and _resolve(T, y, T['ds']) is not None), None)
            if x is None:
                continue
            lf = f['loc'] if f is not None else to['loc']
            if _place_ok(T['brs'][_resolve(T, x, T['ds'])], to['loc'], lf):
                continue
            bt = _resolve(T, x, T['dt'])
            if bt is not None and bt != _resolve(T, x, T['ds']) and _place_ok(T['brs'][bt], to['loc'], lf):
                causes.add('/offset-break-and-job-at-departure-stop')
            elif any(_isect(_bw(b, T['ds']), (x['start'], x['end'])) and _place_ok(b, to['loc'], lf) for b in T['brs']):
                causes.add('/two-breaks-of-the-shift-overlap-in-time')
            else:
                causes.add('')
    return sorted(causes) or ['']


def _match_break(T, a, dep):
    """try_match_point_job for a break activity, then is_valid_job_info: (break index, place index, valid) | None"""
    for bi, b in enumerate(T['brs']):
        w = _bw(b, dep)

        def fits(pl):
            return (pl.get('location') is None or pl['location']['index'] == a['loc']) and _isect(w, (a['start'], a['end']))
        job_tag = next((pl['tag'] for pl in b['places'] if pl.get('tag') is not None and fits(pl)), None)
        if job_tag != a['tag']:
            continue
        for pi, pl in enumerate(b['places']):
            if fits(pl):
                d = int(pl['duration'])
                tws = a['end'] - d if e2e.break_is_offset(b) else w[0]
                return bi, pi, a['end'] == max(a['start'], tws) + d
    return None


def _match_causes(Ts, tag):
    causes = set()
    for T in Ts:
        for a in T['acts']:
            if a['kind'] != 'break' or (a['tag'] or '<no tag>') != tag:
                continue
            r = _match_break(T, a, T['ds'])
            if r is not None and r[2]:
                continue
            r2 = _match_break(T, a, T['dt'])
            exact = [(bi, pi) for bi, b in enumerate(T['brs']) for pi, pl in enumerate(b['places'])
                     if (pl.get('location') is None or pl['location']['index'] == a['loc'])
                     and int(pl['duration']) == a['end'] - a['start'] and pl.get('tag') == a['tag']
                     and a['start'] == max(a['arr'], _bw(b, T['dt'])[0])]
            if r2 is not None and r2[2]:
                causes.add('break:offset-break-and-job-at-departure-stop')
            elif r2 is None or not exact:
                causes.add('break')
            elif r2[0] not in [bi for bi, _ in exact]:
                causes.add('break:two-breaks-of-the-shift-overlap-in-time')
            elif (r2[0], r2[1]) not in exact:
                causes.add('break:first-fitting-place-has-another-duration')
            else:
                causes.add('break')
    return sorted(causes) or ['break']


def _break_sites(p, s, k, t):
    """sites of the "misplaced break" operators in tour k.  MBreakLoc: a break the checker attributes to some break (twin), not the
    first activity of a stop it shares (breaks.rs then holds the NEXT activity's location against the places), reported at a
    location where no place of any break of the shift is; MBreakDup / MBreakDrop: a break that takes time, in a tour for which the
    checker's amount-of-breaks rule holds"""
    T = _bk_tour(p['problem'], t)
    if T is None or not T['brs']:
        return []
    n = e2e.matrix_size(p['matrices'][0])
    placed = {pl['location']['index'] for b in T['brs'] for pl in b['places'] if pl.get('location') is not None}
    out = []
    for a in T['acts']:
        if a['kind'] != 'break':
            continue
        if _resolve(T, a, T['ds']) is not None and (a['ai'] >= 1 or a['n'] == 1):
            free = [l for l in range(n) if l != t['stops'][a['si']]['location']['index'] and l != a['loc'] and l not in placed]
            if free:
                out.append({'op': 'MBreakLoc', 'k': k, 's': a['si'], 'a': a['ai'], 'l': free[(a['loc'] + 1) % len(free)]})
        if a['end'] > a['start'] and _bk_amount_ok(s, T):
            out.append({'op': 'MBreakDup', 'k': k, 's': a['si'], 'a': a['ai']})
            out.append({'op': 'MBreakDrop', 'k': k, 's': a['si'], 'a': a['ai']})
    return out


def _reject_structure(c, msg):
    """structural qualifier of a rejection of a VALID document, derived from the documents and the items the message names"""
    prob, sol = c['problem'], c['solution']
    jobs = {j['id']: j for j in prob['plan']['jobs']}
    if msg.startswith('tour size limit violation'):
        # finding C12-F20: checker/mod.rs::get_vehicle_shift finds the shift of a tour BY TIME (the first shift of the vehicle whose
        # [start.earliest, end.latest] intersects [arrival at the first stop, arrival at the last stop]) and never reads shiftIndex;
        # when two shifts of a vehicle overlap in time the tour is counted with the other shift's `end` (one / two terminal activities)
        mm = re.search(r"vehicle id '([^']*)', shift index: (\d+)", msg)
        for t in sol['tours']:
            if mm and t['vehicleId'] == mm.group(1) and t.get('shiftIndex', 0) == int(mm.group(2)) and t.get('stops'):
                vt = e2e.vehicle_type_of({'problem': prob}, t)
                if vt is None:
                    continue
                lo, hi = e2e.secs(t['stops'][0]['time']['arrival']), e2e.secs(t['stops'][-1]['time']['arrival'])
                found = next((i for i, sh in enumerate(vt['shifts'])
                              if e2e.secs(sh['start']['earliest']) <= hi
                              and lo <= (e2e.secs(sh['end']['latest']) if sh.get('end') else e2e.INF)), None)
                if found is not None and found != t.get('shiftIndex', 0) and \
                        bool(vt['shifts'][found].get('end')) != bool(vt['shifts'][t.get('shiftIndex', 0)].get('end')):
                    return ['/shift-found-by-time-is-not-the-tours-shift']
        return ['']
    if msg.startswith('load mismatch'):
        mt = re.search(r"in tour '([^']*)'", msg)
        for t in sol['tours']:
            if mt and t['vehicleId'] == mt.group(1) and any(_is_job(a) for a in t['stops'][0]['activities']):
                return ['/job-at-departure-stop']
        for t in sol['tours']:
            if mt and t['vehicleId'] == mt.group(1):
                # capacity.rs::is_reload_stop recognises a reload only as the FIRST activity of its stop
                if any(any(a.get('type') == 'reload' for a in st['activities'][1:]) for st in t['stops']):
                    return ['/reload-not-first-activity-of-its-stop']
                # get_intervals closes the last interval at the last leg: a reload in the LAST stop (reload place = end
                # location, merged with the arrival) is not seen as the start of a new interval
                if any(a.get('type') == 'reload' for a in t['stops'][-1]['activities']):
                    return ['/reload-in-last-stop']
                # the interval that starts at a reload stop expects that stop's load to be the freshly loaded vehicle
                # (carry + the static deliveries of the interval); the writer reports the load AFTER all activities of the
                # stop, so a reload stop that also serves jobs (jobs at the reload location) never matches
                if any(st['activities'][0].get('type') == 'reload' and any(_is_job(a) for a in st['activities'][1:])
                       for st in t['stops']):
                    return ['/reload-stop-also-serves-jobs']
                if any(a.get('type') == 'reload' for st in t['stops'] for a in st['activities']):
                    return ['/tour-with-reload']
        return ['']
    mm = re.match(r"relation (\d+) has jobs assigned to another tour", msg)
    if mm:
        # relations.rs (RelationType::Any) looks for the ids of the relation in the tours of the OTHER vehicles; the ids include
        # the reserved ones (`departure`, `arrival`, ...: relations.md allows them in `jobs`), and every tour has an activity
        # whose jobId is `departure`
        rels = prob['plan'].get('relations') or []
        r = rels[int(mm.group(1))] if int(mm.group(1)) < len(rels) else None
        if r is not None and r['type'] == 'any':
            others = [t for t in sol['tours'] if t.get('vehicleId') != r['vehicleId']]
            reserved = [x for x in r['jobs'] if x in ('departure', 'arrival', 'break', 'reload')]
            real = [x for x in r['jobs'] if x not in reserved]
            if reserved and not any(x in _mid_ids(t) for t in others for x in real) and \
                    any(a.get('jobId') in reserved for t in others for st in t['stops'] for a in st['activities']):
                return ['/any-relation-lists-a-reserved-id']
        return ['']
    if msg.startswith('amount of breaks does not match'):
        mm = re.search(r"expected: '(\d+)', got '(\d+)' for vehicle '([^']*)', shift index '(\d+)'", msg)
        Ts = _bk_tours(prob, sol, mm.group(3), int(mm.group(4))) if mm else []
        return _amount_causes(sol, Ts[0], int(mm.group(1)), int(mm.group(2))) if len(Ts) == 1 else ['']
    if msg.startswith('cannot match all breaks'):
        mm = re.search(r"matched: '(\d+)', actual '(\d+)' for vehicle '([^']*)', shift index '(\d+)'", msg)
        Ts = _bk_tours(prob, sol, mm.group(3), int(mm.group(4))) if mm else []
        return _matched_causes(Ts[0], int(mm.group(1)), int(mm.group(2))) if len(Ts) == 1 else ['']
    if msg.startswith('cannot find break for tour'):
        mm = re.search(r"for tour '([^']*)'", msg)
        return _unresolved_causes(_bk_tours(prob, sol, mm.group(1) if mm else None))
    if msg.startswith('break location') or msg.startswith('break visit time'):
        return _location_causes(_bk_tours(prob, sol))
    if msg.startswith('cannot match activities to jobs'):
        cats = set()
        for item in msg.split(': ', 1)[1].split(', '):
            jid, _, tag = item.partition(':')
            if jid == 'break' and jid not in jobs:
                cats |= set(_match_causes(_bk_tours(prob, sol), tag))
                continue
            if jid == 'reload' and jid not in jobs:
                # activity_matcher.rs::try_match_point_job takes the FIRST reload of the shift whose location / tag / time fit
                # (match_place does not look at the duration); assignment.rs then expects that reload's duration
                twin = False
                for t in sol['tours']:
                    vt = e2e.vehicle_type_of({'problem': prob}, t)
                    if vt is None or not any(a.get('type') == 'reload' for st in t['stops'] for a in st['activities']):
                        continue
                    rl = vt['shifts'][t.get('shiftIndex', 0)].get('reloads') or []
                    twin = twin or any(rl[i]['location'] == rl[j]['location'] and rl[i].get('tag') == rl[j].get('tag')
                                       and rl[i]['duration'] != rl[j]['duration']
                                       for i in range(len(rl)) for j in range(i + 1, len(rl)))
                cats.add('reload:two-reloads-of-the-shift-at-one-location-differ-by-duration' if twin else 'reload')
                continue
            job = jobs.get(jid)
            if job is None:
                cats.add('unknown-job')
                continue
            tasks = e2e.tasks_of(job)
            tags = {pl.get('tag') for _, t in tasks for pl in t['places'] if pl.get('tag') is not None}
            if len(tasks) >= 2 and len(tags) < len(tasks):
                cats.add('multi-job-without-unique-tags')
                continue
            places = [pl for _, t in tasks for pl in t['places'] if tag == '<no tag>' or pl.get('tag') == tag]
            same_loc = any(len({pl['location']['index'] for pl in t['places']}) < len(t['places']) for _, t in tasks
                           if any(tag == '<no tag>' or pl.get('tag') == tag for pl in t['places']))
            if same_loc:
                cats.add('places-at-same-location')
            elif any(len(pl.get('times') or []) >= 2 for pl in places):
                cats.add('multi-window-place')
            else:
                cats.add('other')
        return ['/' + x for x in sorted(cats)]
    return ['']


def _verdict(impl):
    if impl is None or 'panic' in impl:
        return 'panic'
    if impl.get('ok') is True:
        return 'ok'
    if 'errors' in impl:
        if any(str(e).startswith('cannot read') for e in impl['errors']):
            return 'unreadable'
        return 'reject'
    return 'error'


def oracle(c, impl):
    return []


def oracle_model(c, impl, model):
    m = c.get('mut')
    base_v = model[0]
    v = _verdict(impl)
    if base_v:                # the pair the solver returned is not valid for the reference semantics: C01/C02/C03's business
        return []
    if m is None:
        if v == 'ok':
            return []
        if v == 'panic':
            return [{'class': 'checker-panics-on-valid' + _panic_structure(c, impl),
                     'what': 'checker panicked on a valid solution: %s' % str(impl)[:300]}]
        errs = impl.get('errors') or [impl.get('error')]
        return [{'class': 'checker-rejects-valid:' + _prefix(e) + suf,
                 'what': 'valid_b = [] (evaluated in Coq) but the checker reports %s' % json.dumps(e)[:600]}
                for e in errs for suf in _reject_structure(c, str(e))]
    cls = mut_class(m, base_of(c)[1])
    if v == 'reject' and m['op'] in DEDICATED:
        # a breach that also damages load / routing is rejected anyway: the rule the class is about must be among the reasons
        ded = DEDICATED[m['op']] if m.get('r') is None else 'relation %d ' % m['r']
        if not any(ded in str(e) for e in impl.get('errors') or []):
            if _masked(c, m, [str(e) for e in impl.get('errors') or []]):
                return []
            return [{'class': 'checker-misses-rule:' + cls,
                     'what': 'breach %s at site %s rejected only for other reasons: %s' % (
                         cls, json.dumps(m), json.dumps(impl.get('errors'))[:400])}]
    if v == 'reject' or v == 'unreadable':
        return []
    if v == 'panic':
        # a panic whose site is identified by the structure of the breached document does not depend on which breach operator
        # produced that structure
        ps = _panic_structure(c, impl)
        return [{'class': ('checker-panics' + ps) if ps else ('checker-panics:' + cls),
                 'what': 'checker panicked on breach %s (%s): %s' % (json.dumps(m), cls, str(impl)[:300])}]
    if v == 'ok':
        return [{'class': 'checker-accepts:' + cls,
                 'what': 'breach %s at site %s accepted by the checker; reference semantics: %s' % (
                     cls, json.dumps(m), sorted(_ctor_names(model[2])))}]
    return [{'class': 'harness-error', 'what': str(impl)[:300]}]


def _masked(c, m, errs):
    """check_break_assignment and check_relations_assignment stop at the FIRST tour / relation that fails: a rejection of an
    EARLIER tour (relation) - typically one of the known findings about valid documents - hides what the checker would say about
    the breached one, so nothing can be concluded about the dedicated rule"""
    sol = base_of(c)[1]
    if m['op'] == 'MBreakLoc':
        for e in errs:
            mm = re.search(r"for vehicle '([^']*)', shift index '(\d+)'", e)
            if mm and e.startswith(('cannot match all breaks', 'amount of breaks does not match')):
                idx = [k for k, t in enumerate(sol['tours']) if t.get('vehicleId') == mm.group(1)
                       and t.get('shiftIndex', 0) == int(mm.group(2))]
                if idx and idx[0] < m['k']:
                    return True
    if m['op'] in ('MRelTour', 'MRelShift') and m.get('r') is not None:
        for e in errs:
            mm = re.match(r"relation (\d+) ", e)
            if mm and int(mm.group(1)) < m['r']:
                return True
    return False


def _panic_structure(c, impl):
    """structural qualifier of a checker panic: capacity.rs::get_intervals computes `*idx - 1` for the leg that ENDS at a reload
    stop, which underflows when that leg is the first one (a reload stop right after the departure stop)"""
    if 'subtract with overflow' in str((impl or {}).get('panic')):
        def starts_with_reload(st):
            return bool(st['activities'][:1]) and st['activities'][0].get('type') == 'reload'
        for t in c['solution'].get('tours') or []:
            if len(t['stops']) > 1 and starts_with_reload(t['stops'][1]):
                return '/reload-stop-right-after-departure'
        # second site of the same function: two consecutive reload stops give the interval (start, end) = (i + 2, i + 1), and
        # `end_idx - start_idx + 1` underflows
        for t in c['solution'].get('tours') or []:
            if any(starts_with_reload(a) and starts_with_reload(b) for a, b in zip(t['stops'], t['stops'][1:])):
                return '/two-consecutive-reload-stops'
    return ''


def nontrivial_key(c, impl):
    _, s = base_of(c)
    if not s.get('tours'):
        return None
    h = hashlib.sha256(json.dumps([c['problem'], c['solution']], sort_keys=True).encode()).hexdigest()[:16]
    return (h, json.dumps(c.get('mut'), sort_keys=True))


def classify(c, impl):
    m = c.get('mut')
    _, s = base_of(c)
    labs = ['kind=%s' % ('base' if m is None else 'breach'), 'checker=%s' % _verdict(impl),
            'tours=%d' % len(s.get('tours') or []), 'unassigned=%s' % ('0' if not s.get('unassigned') else '1+')]
    if m is not None:
        labs.append('class=' + mut_class(m, s))
        if m['op'] == 'MRelTour' and m.get('d') == 1:
            labs.append('relation_breach=any/service-job-moved')
    return labs


MANIFEST_TEXT = ('Machine-checked proof (Coq, no axioms), two layers. (1) Reference: valid_b (Spec/Valid.v: accounting, feasibility '
                 'inputs, replay of schedule / load / distance / statistics; with the relation pinning rules of Spec/Relations.v: valid_r) '
                 'rejects every single breach of the listed classes at every applicable site of a valid (problem, solution) pair (operators '
                 'Spec/Mutations.v), and its accounting group is equivalent to the declarative statement. (2) The bundled Rust checker '
                 'itself: Model/Checker.v is an executable model of checker/{mod,limits,capacity,routing,assignment,relations,breaks}.rs as '
                 'written (early exits, skipped first stop, usize underflow = Panic, tolerance 1, fields read); theorems relate the model of '
                 'each real rule to the reference on explicit fragments: limits sound + complete, routing = a declarative stop-level rule '
                 'and complete for valid documents, capacity complete, assignment sound (the clauses it establishes), `any` relation rule '
                 'sound + complete, breach operators rejected BY THE MODEL OF THE REAL RULE (limits, statistic, arrival, distance, load, '
                 'capacity, unknown / duplicated / dropped job, two tours, assigned-and-unassigned, relation), and a _refuted witness per recorded '
                 'finding of a modelled rule. Ties on every run: (a) structural - the error classes of the real checker = the error classes '
                 'of the model, rule group by rule group, on solver output and on every breached document; (b) behavioural - real solver '
                 'outputs that valid_b accepts must be accepted by the real checker, breached ones rejected.')
MANIFEST_NOTE = ('Trusted: Coq kernel + vm_compute; JSON->Gallina rendering (and the rendering assumptions listed in the header of '
                 'Model/Checker.v); harness; projection of error messages to classes by prefix. The Python mirror of the mutation operators is '
                 'validated against the Coq operators by fingerprint on every site; the Python twin of rel_viols against rel_viols on every pair. '
                 'Not modelled: check_jobs_match (activity_matcher.rs) and the amount-of-breaks rule; no theorem for sequence / strict relations, '
                 'breaks, completeness of check_assignment (compared with the code on every case only). Not covered: required breaks, recharges. '
                 'Known findings C12-F1..F19: e.g. cost / times.* / first-stop distance never verified, all distance checks skipped when every stop '
                 'distance is 0, valid tours with a job at the departure stop or a merged reload rejected, panic on a reload right after departure.')
MANIFEST_TECHNIQUE = ('Coq proofs about the reference semantics AND about an executable model of the real checker + structural tie (error classes per rule '
                      'group, model vs. code) and behavioural tie (accept / reject) by systematic breach injection')
