"""C12 — the bundled solution checker accepts valid solutions and rejects injected breaches (plugin for tools/verif.py;
built on the shared end-to-end oracle e2e.py / Spec/Valid.v).

generate   : phase 1 (inside `generate`): generated pragmatic problems are SOLVED by the real solver (harness op "solve",
             deterministic layout) -> pairs (P, S).  phase 2: one BASE case per pair (the unmutated document) and one
             case per (breach class, site) of Spec/Mutations.v, enumerated systematically (all sites; in the quick tier
             at most CAP evenly spaced sites per class and solution).  Every case is op "check": the REAL checker
             (vrp_cli::extensions::check::check_pragmatic_solution -> CheckerContext::check) on the (mutated) JSON documents.
model      : Mutations.run_base / run_mutation evaluated in Coq on the UNMUTATED rendered pair and the mutation term: validity of
             the base pair (valid_b P S), applicability of the site, valid_b on the Coq-mutated pair, fingerprints of
             the Coq-mutated documents.
compare    : the Python mirror of the mutation (applied to JSON) renders to the same document as the Coq operator
             (fingerprints), the site is applicable, and — instance of theorem C12_breach_is_invalid — the reference semantics
             rejects the breached pair whenever it accepts the base pair (with the violation constructor the class predicts).
oracle     : base pair valid in Coq  => the real checker must ACCEPT   (else `checker-rejects-valid:<error prefix>`);
             base pair valid in Coq  => the real checker must REJECT every breached pair (else `checker-accepts:<class>`).
"""
import copy
import hashlib
import json
import math
import os
import re
import subprocess
import sys
import tempfile
from coqterm import z, nat
from props import e2e

ID = 'C12'
HARNESS = 'c12'
COQ_IMPORTS = 'From VRP Require Import Base.Tac Model.Core Spec.Valid Spec.Mutations.'
MODEL_TARGETS = ['theories/Spec/Mutations.vo']
SHARD = 24
SIZES = {'quick': 36, 'thorough': 300, 'search': 120}      # number of SOLVED pairs (P, S); cases = pairs x (1 + sites)
CAP = {'quick': 3, 'thorough': 12, 'search': 6}
UNKNOWN = 'c12-unknown-job'
FIELDS = ['cost', 'distance', 'duration', 'driving', 'serving', 'waiting', 'break']
RULE = ('pairs (P, S): generated pragmatic problems (e2e generator: 3-10 jobs incl. multi-task jobs, 1-3 vehicle types, shifts, '
        'capacity, skills, limits, metric / non-metric integer matrices) solved by the real solver (1-20 generations); per pair '
        'the unmutated document plus every breach class of Spec/Mutations.v at systematically enumerated sites (quick: at most 3 '
        'evenly spaced sites per class and solution). non-trivial = distinct (P, S, class, site) where S has at least one tour.')
TRUSTED = ['rendering of the JSON documents into the reduced Coq types (e2e.g_problem / g_solution)',
           'the Python mirror of every mutation operator is validated against the Coq operator on every site through a '
           'fingerprint of the whole mutated document (not trusted)',
           'the harness calls vrp_cli::extensions::check::check_pragmatic_solution, the function behind `vrp-cli check pragmatic`']
ASSUMPTIONS = ['problem fragment of the e2e generator WITHOUT breaks, relations, recharges, clustering (reloads are generated): the two '
               'breach classes "broken relation" and "misplaced break" are not generated and not covered (optional breaks are known to '
               'the reference semantics but excluded here: the bundled checker rejects many valid documents with breaks, notes/C12.md)',
               'arrival / distance / tour-statistic breaches are injected with |d| = 2 (the checker documents a tolerance of 1)',
               'the bundled checker is not modelled structurally; it is tied to the reference semantics valid_b behaviourally']


# ------------------------------------------------------------------------------------------------ phase 1: real solves
def _exe():
    for name in ('__main__', 'verif'):
        ct = getattr(sys.modules.get(name), 'CARGO_TARGET', None)
        if ct:
            return os.path.join(ct, 'debug', HARNESS)
    build = os.environ.get('VERIF_BUILD', os.path.join(os.path.dirname(os.path.dirname(os.path.dirname(os.path.abspath(__file__)))), 'build'))
    return os.path.join(build, 'cargo', 'debug', HARNESS)


def _solve_all(cases):
    d = tempfile.mkdtemp(prefix='c12-solve-')
    cf, of = os.path.join(d, 'solve.jsonl'), os.path.join(d, 'solve.out.jsonl')
    with open(cf, 'w') as fh:
        for k, c in enumerate(cases):
            fh.write(json.dumps(dict(c, id=k)) + '\n')
    subprocess.run([_exe(), cf, of], stdout=subprocess.DEVNULL, stderr=subprocess.DEVNULL, timeout=3000)
    res = {}
    if os.path.exists(of):
        for line in open(of):
            r = json.loads(line)
            res[r['id']] = r.get('res') if 'panic' not in r else {'panic': r['panic']}
    for f in (cf, of):
        if os.path.exists(f):
            os.remove(f)
    os.rmdir(d)
    return [res.get(k) for k in range(len(cases))]


def generate(rng, tier, n):
    probs, solve_cases = [], []
    for _ in range(n + n // 4 + 2):
        # optional breaks are NOT generated here: the bundled checker rejects many valid documents with breaks for reasons that
        # are not separated yet (notes/C12.md "Breaks"); the three that are understood are findings C12-F10 / F12 (corpus cases)
        p = e2e.gen_checked_problem(rng, exclude=('breaks',))
        probs.append(p)
        gens = rng.choice([1, 2, 3, rng.range(4, 20)])
        solve_cases.append({'op': 'solve', 'problem': p['problem'], 'matrices': p['matrices'],
                            'config': {'max_generations': gens, 'seed': rng.below(1000)}})
    sols = _solve_all(solve_cases)
    cases, pairs = [], 0
    for p, r in zip(probs, sols):
        if pairs >= n:
            break
        if not isinstance(r, dict) or 'solution' not in r or e2e.unsupported(p, r['solution']):
            continue
        s = r['solution']
        cases.append(make_case(p, s, None))
        for m in sites(p, s, CAP.get(tier, 3), pairs):
            cases.append(make_case(p, s, m))
        pairs += 1
    return cases


def make_case(p, s, m):
    c = {'op': 'check', 'matrices': p['matrices'], 'mut': m}
    if m is None:
        c['problem'], c['solution'] = p['problem'], s
        return c
    p2, s2 = mutate(p['problem'], s, m)
    c['problem'], c['solution'] = p2, s2
    if p2 != p['problem']:
        c['base_problem'] = p['problem']
    if s2 != s:
        c['base_solution'] = s
    return c


def base_of(c):
    return ({'problem': c.get('base_problem', c['problem']), 'matrices': c['matrices']}, c.get('base_solution', c['solution']))


# ------------------------------------------------------------------------------------------------ mutations (JSON mirror)
JOBKINDS = ('pickup', 'delivery', 'service', 'replacement')


def _is_job(a):
    return a.get('type') in JOBKINDS


def _reason():
    return [{'code': 'NO_REASON_FOUND', 'description': 'injected by C12'}]


def _job_acts_ids(stops):
    return [a['jobId'] for st in stops for a in st['activities'] if _is_job(a)]


def mutate(problem, sol, m):
    """mirror of Mutations.mutS / mutP on the JSON documents; m = {'op': ctor, 'k','s','a','k2','i','f','d'}"""
    p, s = copy.deepcopy(problem), copy.deepcopy(sol)
    op = m['op']
    tours = s['tours']

    def stop():
        return tours[m['k']]['stops'][m['s']]

    def vtypes(k):
        return [vt for vt in p['fleet']['vehicles'] if vt['typeId'] == tours[k]['typeId']]

    def un():
        if s.get('unassigned') is None:
            s['unassigned'] = []
        return s['unassigned']

    if op == 'MLoad':
        stop()['load'][0] += m['d']
    elif op == 'MCapacity':
        for vt in vtypes(m['k']):
            vt['capacity'] = [stop()['load'][0] - 1] + list(vt['capacity'][1:])
    elif op == 'MUnknownAct':
        stop()['activities'][m['a']]['jobId'] = UNKNOWN
    elif op == 'MUnknownUn':
        un().append({'jobId': UNKNOWN, 'reasons': _reason()})
    elif op == 'MDupAct':
        stop()['activities'].append(copy.deepcopy(stop()['activities'][-1]))
    elif op == 'MDupUn':
        un().append(copy.deepcopy(un()[m['i']]))
    elif op == 'MDropUn':
        del un()[m['i']]
    elif op == 'MDropStop':
        del tours[m['k']]['stops'][m['s']]
    elif op == 'MCopyStop':
        tours[m['k2']]['stops'].insert(1, copy.deepcopy(stop()))
    elif op == 'MMoveStop':
        st = copy.deepcopy(stop())
        del tours[m['k']]['stops'][m['s']]
        tours[m['k2']]['stops'].insert(1, st)
    elif op == 'MBoth':
        un().append({'jobId': stop()['activities'][m['a']]['jobId'], 'reasons': _reason()})
    elif op == 'MArrival':
        stop()['time']['arrival'] = e2e.rfc(e2e.secs(stop()['time']['arrival']) + m['d'])
    elif op == 'MDistance':
        stop()['distance'] += m['d']
    elif op in ('MStatTour', 'MStatTotal'):
        st = tours[m['k']]['statistic'] if op == 'MStatTour' else s['statistic']
        f = FIELDS[m['f']]
        if m['f'] == 0:
            st['cost'] = st['cost'] + m['d']
        elif m['f'] <= 2:
            st[f] += m['d']
        else:
            st['times'][f] += m['d']
    elif op == 'MLimitDistance':
        for vt in vtypes(m['k']):
            vt.setdefault('limits', {})['maxDistance'] = tours[m['k']]['statistic']['distance'] - 1
    elif op == 'MLimitDuration':
        for vt in vtypes(m['k']):
            vt.setdefault('limits', {})['maxDuration'] = tours[m['k']]['statistic']['duration'] - 1
    elif op == 'MLimitSize':
        for vt in vtypes(m['k']):
            vt.setdefault('limits', {})['tourSize'] = len(_job_acts_ids(tours[m['k']]['stops'])) - 1
    else:
        raise ValueError(op)
    return p, s


def g_mutation(m, ids):
    op = m['op']
    n = lambda key: nat(m[key])
    if op in ('MLoad', 'MArrival', 'MDistance'):
        return '(%s %s %s %s)' % (op, n('k'), n('s'), z(m['d']))
    if op in ('MCapacity', 'MDupAct', 'MDropStop'):
        return '(%s %s %s)' % (op, n('k'), n('s'))
    if op == 'MUnknownAct':
        return '(MUnknownAct %s %s %s %s)' % (n('k'), n('s'), n('a'), z(ids.job(UNKNOWN)))
    if op == 'MUnknownUn':
        return '(MUnknownUn %s)' % z(ids.job(UNKNOWN))
    if op in ('MDupUn', 'MDropUn'):
        return '(%s %s)' % (op, n('i'))
    if op in ('MCopyStop', 'MMoveStop'):
        return '(%s %s %s %s)' % (op, n('k'), n('s'), n('k2'))
    if op == 'MBoth':
        return '(MBoth %s %s %s)' % (n('k'), n('s'), n('a'))
    if op == 'MStatTour':
        return '(MStatTour %s %s %s)' % (n('k'), n('f'), z(m['d']))
    if op == 'MStatTotal':
        return '(MStatTotal %s %s)' % (n('f'), z(m['d']))
    return '(%s %s)' % (op, n('k'))


def mut_class(m, sol=None):
    """structural class of a breach (site structure included where the checker treats sites differently)"""
    op = m['op']
    if op == 'MLoad':
        if sol is not None and len(sol['tours'][m['k']]['stops']) == 1:
            return 'load-misreported-single-stop-tour'
        return 'load-misreported'
    if op == 'MCapacity':
        return 'load-above-capacity'
    if op == 'MUnknownAct':
        return 'unknown-job-activity'
    if op == 'MUnknownUn':
        return 'unknown-job-unassigned'
    if op == 'MDupAct':
        return 'duplicated-job-activity'
    if op == 'MDupUn':
        return 'duplicated-job-unassigned'
    if op == 'MDropUn':
        return 'dropped-job-unassigned'
    if op == 'MDropStop':
        return 'dropped-job-stop'
    if op == 'MCopyStop':
        return 'job-in-two-tours'
    if op == 'MMoveStop':
        return 'job-split-over-tours'
    if op == 'MBoth':
        return 'assigned-and-unassigned'
    if op == 'MArrival':
        return 'arrival'
    if op == 'MDistance':
        return 'distance-first-stop' if m['s'] == 0 else 'distance'
    if op == 'MStatTour':
        return 'stat-tour-' + FIELDS[m['f']]
    if op == 'MStatTotal':
        return 'stat-total-' + FIELDS[m['f']]
    return {'MLimitDistance': 'limit-max-distance', 'MLimitDuration': 'limit-max-duration', 'MLimitSize': 'limit-tour-size'}[op]


# violation constructors of valid_b the proofs derive for each operator (sanity check of the theorem instances)
EXPECT = {'MLoad': ('RLoad',), 'MDistance': ('RDistance',), 'MUnknownAct': ('AForeignJob',), 'MUnknownUn': ('AForeignJob',),
          'MDupUn': ('AJobDuplicated',), 'MDropUn': ('AJobLost',), 'MCopyStop': ('AJobDuplicated',),
          'MMoveStop': ('AJobDuplicated',), 'MBoth': ('AJobDuplicated',), 'MStatTotal': ('RTotal',),
          'MLimitDistance': ('FMaxDistance',), 'MLimitDuration': ('FMaxDuration',), 'MLimitSize': ('FTourSize',),
          'MCapacity': ('FCapacity',), 'MArrival': ('RArrival', 'RNoReplay'),
          'MDupAct': ('AJobIncomplete', 'AJobOrder')}


# breaches that necessarily damage other rules too (an inserted stop breaks load and routing): the checker's dedicated message
DEDICATED = {'MCopyStop': 'job served in multiple tours', 'MMoveStop': 'job served in multiple tours'}


def _spread(xs, cap, rot):
    """at most `cap` evenly spaced elements (systematic, rotated by the solution index so that all positions get used)"""
    if len(xs) <= cap:
        return list(xs)
    step = len(xs) / float(cap)
    off = rot % max(1, int(math.ceil(step)))
    return [xs[min(len(xs) - 1, int(i * step) + off)] for i in range(cap)]


def sites(p, s, cap, rot=0):
    tours = s['tours']
    un = s.get('unassigned') or []
    by = {}

    def add(m):
        by.setdefault((m['op'], m.get('f'), m.get('d')), []).append(m)

    for k, t in enumerate(tours):
        stops = t['stops']
        for si, st in enumerate(stops):
            load = st['load'][0]
            add({'op': 'MLoad', 'k': k, 's': si, 'd': 1})
            if load >= 1:
                add({'op': 'MLoad', 'k': k, 's': si, 'd': -1})
            if si + 1 < len(stops) and load >= 1:
                add({'op': 'MCapacity', 'k': k, 's': si})
            for d in (2, -2):
                if si >= 1 and st['activities']:
                    add({'op': 'MArrival', 'k': k, 's': si, 'd': d})
                if st['distance'] + d >= 0:
                    add({'op': 'MDistance', 'k': k, 's': si, 'd': d})
            acts = st['activities']
            for ai, a in enumerate(acts):
                if _is_job(a):
                    add({'op': 'MUnknownAct', 'k': k, 's': si, 'a': ai})
                    add({'op': 'MBoth', 'k': k, 's': si, 'a': ai})
            if acts and _is_job(acts[-1]):
                add({'op': 'MDupAct', 'k': k, 's': si})
            if any(_is_job(a) for a in acts):
                add({'op': 'MDropStop', 'k': k, 's': si})
                rest = _job_acts_ids(stops[:si] + stops[si + 1:])
                stays = any(_is_job(a) and a['jobId'] in rest for a in acts)
                for k2 in range(len(tours)):
                    if k2 != k:
                        add({'op': 'MCopyStop', 'k': k, 's': si, 'k2': k2})
                        if stays:
                            add({'op': 'MMoveStop', 'k': k, 's': si, 'k2': k2})
        for f in range(7):
            add({'op': 'MStatTour', 'k': k, 'f': f, 'd': 2})
        for f in (1, 2):
            if t['statistic'][FIELDS[f]] >= 2:
                add({'op': 'MStatTour', 'k': k, 'f': f, 'd': -2})
        if t['statistic']['distance'] >= 1:
            add({'op': 'MLimitDistance', 'k': k})
        if t['statistic']['duration'] >= 1:
            add({'op': 'MLimitDuration', 'k': k})
        if len(_job_acts_ids(stops)) >= 1:
            add({'op': 'MLimitSize', 'k': k})
    for f in range(7):
        add({'op': 'MStatTotal', 'f': f, 'd': 1})
    add({'op': 'MUnknownUn'})
    for i in range(len(un)):
        add({'op': 'MDupUn', 'i': i})
        add({'op': 'MDropUn', 'i': i})
    out = []
    for key in sorted(by, key=lambda x: (x[0], x[1] or 0, x[2] or 0)):
        out += _spread(by[key], cap, rot)
    return out


# ------------------------------------------------------------------------------------------------ fingerprints (mirror of Mutations.v)
FPM = 2305843009213693951


def _fp(nums):
    h = 7
    for x in nums:
        h = (h * 1000003 + x + 17) % FPM
    return h


def _oz(x):
    return [0] if x is None else [1, x]


def _stat_numbers(st):
    t = st['times']
    return [int(st['cost']), st['distance'], st['duration'], t['driving'], t['serving'], t['waiting'], t['break']]


def sol_numbers(s, ids):
    out = _stat_numbers(s['statistic']) + [len(s['tours'])]
    for t in s['tours']:
        out += [ids.vehicle(t['vehicleId']), ids.vtype(t['typeId']), t.get('shiftIndex', 0), len(t['stops'])]
        for st in t['stops']:
            out += [st['location']['index'], e2e.secs(st['time']['arrival']), e2e.secs(st['time']['departure']),
                    (st['load'] or [0])[0], st['distance'], len(st['activities'])]
            for a in st['activities']:
                kind = e2e.KIND.get(a.get('type'), 99)
                out += [ids.job(a['jobId']) if kind in (0, 1, 2, 3) else e2e.RELOAD_JOB if kind == 13
                        else e2e.BREAK_JOB if kind == 12 else -1, kind]
                out += _oz(None if a.get('location') is None else a['location']['index'])
                out += [0] if a.get('time') is None else [1, e2e.secs(a['time']['start']), e2e.secs(a['time']['end'])]
                out += _oz(None if a.get('jobTag') is None else ids.tag(a['jobTag']))
        out += _stat_numbers(t['statistic'])
    un = s.get('unassigned') or []
    out.append(len(un))
    for u in un:
        out += [ids.job(u['jobId']), len(u.get('reasons') or [])]
    return out


def prob_numbers(problem, ids):
    out = []
    for vt in problem['fleet']['vehicles']:
        lim = vt.get('limits') or {}
        out += [ids.vtype(vt['typeId']), vt['capacity'][0]]
        for key in ('maxDistance', 'maxDuration', 'tourSize'):
            out += _oz(None if lim.get(key) is None else int(lim[key]))
    return out


# ------------------------------------------------------------------------------------------------ model / compare / oracle
def model_term(c):
    p, s = base_of(c)
    ids = e2e.Ids(p)
    P, S = e2e.g_problem(p, ids), e2e.g_solution(p, s, ids)
    if c.get('mut') is None:
        return '(run_base %s %s)' % (P, S)
    return '(run_mutation %s %s %s)' % (g_mutation(c['mut'], ids), P, S)


def _ctor_names(viols):
    return {t[0] for t in e2e.coq_viols(viols)}


def compare(c, impl, model):
    m = c.get('mut')
    if m is None:
        return None
    base_v, applicable, mut_v, (sfp, pfp) = model
    p, s = base_of(c)
    ids = e2e.Ids(p)
    e2e.g_solution(p, s, ids)                       # same id numbering as model_term (foreign ids in order of appearance)
    if m['op'] in ('MUnknownAct', 'MUnknownUn'):
        ids.job(UNKNOWN)
    mine_s = _fp(sol_numbers(c['solution'], ids))
    mine_p = _fp(prob_numbers(c['problem'], ids))
    if mine_s != sfp:
        return 'mutation mirror differs (solution document): class %s site %s' % (mut_class(m), json.dumps(m))
    if mine_p != pfp:
        return 'mutation mirror differs (problem document): class %s site %s' % (mut_class(m), json.dumps(m))
    if applicable != 'true':
        return 'generated site is not applicable in the model: %s' % json.dumps(m)
    if not base_v:
        names = _ctor_names(mut_v)
        if not names:
            return 'theorem instance fails: reference semantics accepts the breached pair, %s' % json.dumps(m)
        exp = EXPECT.get(m['op'])
        if exp and not (names & set(exp)):
            return 'breached pair rejected, but not for the expected reason %s: %s (%s)' % (exp, sorted(names), json.dumps(m))
    return None


def _prefix(msg):
    return re.split(r"[':0-9]", str(msg))[0].strip().replace(' ', '-')[:60] or 'error'


def _break_structure(prob, sol):
    """structural qualifier of a rejection that names a break (tours with a break activity only):
    /offset-break-and-job-at-departure-stop: the checker resolves offset intervals against the DEPARTURE OF THE FIRST STOP
        (activity_matcher.rs::get_route_start_time, breaks.rs::get_break_time_window), which is the end of the last activity
        merged into that stop when jobs are served at the start location, not the tour's departure time;
    /two-breaks-of-the-shift-overlap-in-time: checker/mod.rs::get_activity_type and activity_matcher.rs::try_match_point_job
        attribute a break activity to the FIRST break of the shift whose time interval intersects the activity's; location,
        duration and tag are then held against that break only"""
    out = ''
    for t in sol['tours']:
        vt = e2e.vehicle_type_of({'problem': prob}, t)
        if vt is None or not any(a.get('type') == 'break' for st in t['stops'] for a in st['activities']):
            continue
        brs = e2e.optional_breaks(vt['shifts'][t.get('shiftIndex', 0)])
        first = t['stops'][0]
        acts = first['activities']
        dep = e2e.secs(acts[0]['time']['end']) if acts and acts[0].get('time') else e2e.secs(first['time']['departure'])
        if any(e2e.break_is_offset(b) for b in brs) and dep != e2e.secs(first['time']['departure']):
            return '/offset-break-and-job-at-departure-stop'
        ws = []
        for b in brs:
            w = e2e.break_window(b)
            ws.append((w[0] + dep, w[1] + dep) if e2e.break_is_offset(b) else w)
        if any(ws[i][0] <= ws[j][1] and ws[j][0] <= ws[i][1] for i in range(len(ws)) for j in range(i + 1, len(ws))):
            out = '/two-breaks-of-the-shift-overlap-in-time'
    return out


def _reject_structure(c, msg):
    """structural qualifier of a rejection of a VALID document, derived from the documents and the items the message names"""
    prob, sol = c['problem'], c['solution']
    jobs = {j['id']: j for j in prob['plan']['jobs']}
    if msg.startswith('load mismatch'):
        mt = re.search(r"in tour '([^']*)'", msg)
        for t in sol['tours']:
            if mt and t['vehicleId'] == mt.group(1) and any(_is_job(a) for a in t['stops'][0]['activities']):
                return ['/job-at-departure-stop']
        for t in sol['tours']:
            if mt and t['vehicleId'] == mt.group(1):
                # capacity.rs::is_reload_stop recognises a reload only as the FIRST activity of its stop
                if any(any(a.get('type') == 'reload' for a in st['activities'][1:]) for st in t['stops']):
                    return ['/reload-not-first-activity-of-its-stop']
                # get_intervals closes the last interval at the last leg: a reload in the LAST stop (reload place = end
                # location, merged with the arrival) is not seen as the start of a new interval
                if any(a.get('type') == 'reload' for a in t['stops'][-1]['activities']):
                    return ['/reload-in-last-stop']
                # the interval that starts at a reload stop expects that stop's load to be the freshly loaded vehicle
                # (carry + the static deliveries of the interval); the writer reports the load AFTER all activities of the
                # stop, so a reload stop that also serves jobs (jobs at the reload location) never matches
                if any(st['activities'][0].get('type') == 'reload' and any(_is_job(a) for a in st['activities'][1:])
                       for st in t['stops']):
                    return ['/reload-stop-also-serves-jobs']
                if any(a.get('type') == 'reload' for st in t['stops'] for a in st['activities']):
                    return ['/tour-with-reload']
        return ['']
    if msg.startswith('break location') or msg.startswith('break visit time') or msg.startswith('cannot match all breaks'):
        return [_break_structure(prob, sol)]
    if msg.startswith('cannot match activities to jobs'):
        cats = set()
        for item in msg.split(': ', 1)[1].split(', '):
            jid, _, tag = item.partition(':')
            if jid == 'break' and jid not in jobs:
                cats.add('break' + _break_structure(prob, sol).replace('/', ':'))
                continue
            if jid == 'reload' and jid not in jobs:
                # activity_matcher.rs::try_match_point_job takes the FIRST reload of the shift whose location / tag / time fit
                # (match_place does not look at the duration); assignment.rs then expects that reload's duration
                twin = False
                for t in sol['tours']:
                    vt = e2e.vehicle_type_of({'problem': prob}, t)
                    if vt is None or not any(a.get('type') == 'reload' for st in t['stops'] for a in st['activities']):
                        continue
                    rl = vt['shifts'][t.get('shiftIndex', 0)].get('reloads') or []
                    twin = twin or any(rl[i]['location'] == rl[j]['location'] and rl[i].get('tag') == rl[j].get('tag')
                                       and rl[i]['duration'] != rl[j]['duration']
                                       for i in range(len(rl)) for j in range(i + 1, len(rl)))
                cats.add('reload:two-reloads-of-the-shift-at-one-location-differ-by-duration' if twin else 'reload')
                continue
            job = jobs.get(jid)
            if job is None:
                cats.add('unknown-job')
                continue
            tasks = e2e.tasks_of(job)
            tags = {pl.get('tag') for _, t in tasks for pl in t['places'] if pl.get('tag') is not None}
            if len(tasks) >= 2 and len(tags) < len(tasks):
                cats.add('multi-job-without-unique-tags')
                continue
            places = [pl for _, t in tasks for pl in t['places'] if tag == '<no tag>' or pl.get('tag') == tag]
            same_loc = any(len({pl['location']['index'] for pl in t['places']}) < len(t['places']) for _, t in tasks
                           if any(tag == '<no tag>' or pl.get('tag') == tag for pl in t['places']))
            if same_loc:
                cats.add('places-at-same-location')
            elif any(len(pl.get('times') or []) >= 2 for pl in places):
                cats.add('multi-window-place')
            else:
                cats.add('other')
        return ['/' + x for x in sorted(cats)]
    return ['']


def _verdict(impl):
    if impl is None or 'panic' in impl:
        return 'panic'
    if impl.get('ok') is True:
        return 'ok'
    if 'errors' in impl:
        if any(str(e).startswith('cannot read') for e in impl['errors']):
            return 'unreadable'
        return 'reject'
    return 'error'


def oracle(c, impl):
    return []


def oracle_model(c, impl, model):
    m = c.get('mut')
    base_v = model[0]
    v = _verdict(impl)
    if base_v:                # the pair the solver returned is not valid for the reference semantics: C01/C02/C03's business
        return []
    if m is None:
        if v == 'ok':
            return []
        if v == 'panic':
            return [{'class': 'checker-panics-on-valid' + _panic_structure(c, impl),
                     'what': 'checker panicked on a valid solution: %s' % str(impl)[:300]}]
        errs = impl.get('errors') or [impl.get('error')]
        return [{'class': 'checker-rejects-valid:' + _prefix(e) + suf,
                 'what': 'valid_b = [] (evaluated in Coq) but the checker reports %s' % json.dumps(e)[:600]}
                for e in errs for suf in _reject_structure(c, str(e))]
    cls = mut_class(m, base_of(c)[1])
    if v == 'reject' and m['op'] in DEDICATED:
        # a breach that also damages load / routing is rejected anyway: the rule the class is about must be among the reasons
        if not any(DEDICATED[m['op']] in str(e) for e in impl.get('errors') or []):
            return [{'class': 'checker-misses-rule:' + cls,
                     'what': 'breach %s at site %s rejected only for other reasons: %s' % (
                         cls, json.dumps(m), json.dumps(impl.get('errors'))[:400])}]
    if v == 'reject' or v == 'unreadable':
        return []
    if v == 'panic':
        # a panic whose site is identified by the structure of the breached document does not depend on which breach operator
        # produced that structure
        ps = _panic_structure(c, impl)
        return [{'class': ('checker-panics' + ps) if ps else ('checker-panics:' + cls),
                 'what': 'checker panicked on breach %s (%s): %s' % (json.dumps(m), cls, str(impl)[:300])}]
    if v == 'ok':
        return [{'class': 'checker-accepts:' + cls,
                 'what': 'breach %s at site %s accepted by the checker; reference semantics: %s' % (
                     cls, json.dumps(m), sorted(_ctor_names(model[2])))}]
    return [{'class': 'harness-error', 'what': str(impl)[:300]}]


def _panic_structure(c, impl):
    """structural qualifier of a checker panic: capacity.rs::get_intervals computes `*idx - 1` for the leg that ENDS at a reload
    stop, which underflows when that leg is the first one (a reload stop right after the departure stop)"""
    if 'subtract with overflow' in str((impl or {}).get('panic')):
        def starts_with_reload(st):
            return bool(st['activities'][:1]) and st['activities'][0].get('type') == 'reload'
        for t in c['solution'].get('tours') or []:
            if len(t['stops']) > 1 and starts_with_reload(t['stops'][1]):
                return '/reload-stop-right-after-departure'
        # second site of the same function: two consecutive reload stops give the interval (start, end) = (i + 2, i + 1), and
        # `end_idx - start_idx + 1` underflows
        for t in c['solution'].get('tours') or []:
            if any(starts_with_reload(a) and starts_with_reload(b) for a, b in zip(t['stops'], t['stops'][1:])):
                return '/two-consecutive-reload-stops'
    return ''


def nontrivial_key(c, impl):
    _, s = base_of(c)
    if not s.get('tours'):
        return None
    h = hashlib.sha256(json.dumps([c['problem'], c['solution']], sort_keys=True).encode()).hexdigest()[:16]
    return (h, json.dumps(c.get('mut'), sort_keys=True))


def classify(c, impl):
    m = c.get('mut')
    _, s = base_of(c)
    labs = ['kind=%s' % ('base' if m is None else 'breach'), 'checker=%s' % _verdict(impl),
            'tours=%d' % len(s.get('tours') or []), 'unassigned=%s' % ('0' if not s.get('unassigned') else '1+')]
    if m is not None:
        labs.append('class=' + mut_class(m, s))
    return labs


MANIFEST_TEXT = ('Machine-checked proof (Coq, no axioms) that the reference semantics valid_b (Spec/Valid.v: accounting, feasibility '
                 'inputs, replay of schedule / load / distance / statistics) rejects every single breach of the listed classes at every '
                 'applicable site of a valid (problem, solution) pair (Properties/C12.v, operators Spec/Mutations.v), plus the exact '
                 'equivalence of its accounting group with the declarative statement. The bundled Rust checker is tied to that semantics '
                 'behaviourally on every run: real solver outputs that valid_b accepts (evaluated inside Coq) must be accepted by the real '
                 'checker, and the same documents with each breach injected at systematically enumerated sites must be rejected.')
MANIFEST_NOTE = ('Trusted: Coq kernel + vm_compute; JSON->Gallina rendering; harness. The Python mirror of the mutation operators is '
                 'validated against the Coq operators by fingerprint on every site. Not covered: relations, breaks (not generated). '
                 'Known findings: the checker never verifies cost and the times.* statistics, nor the cumulative distance of the first stop.')
MANIFEST_TECHNIQUE = 'Coq proof (every breach class is rejected by the reference semantics) + behavioural tie of the real checker by systematic breach injection'
