"""C05 — cached tour state always equals recomputation from the bare tours (plugin for tools/verif.py).
Shares the operator-level harness `ops` and tools/props/opslib.py with C04."""
import re
from coqterm import z, zlist, lst, nat
from props import opslib as O
from props.corelib import tz, tout, INF

ID = 'C05'
HARNESS = 'ops'
COQ_IMPORTS = 'From VRP Require Import Base.Tac Model.Core Spec.Feasible Model.Eval Spec.Inv Model.Cache.'
MODEL_TARGETS = ['theories/Model/Cache.vo']
MODEL_NEEDS_IMPL = True
SHARD = 6
SIZES = {'quick': 150, 'thorough': 2500, 'search': 500}
SUBSTREAMS = ['c05_shared', 'c05_feat']      # goals with the shared-resource reload feature: a per-solution aggregate cached inside per-route state
RULE = ('cases: the operator histories of C04 (problem built through the core API + 6-18 calls of the real ruin / recreate / local / '
        'search operators with a scripted Random; 1 step in 5 runs under a counting quota that is reached from its k-th poll '
        'on, so the step is interrupted after some insertions; some jobs start pending in `ignored`); every third history '
        'additionally observes every single applied insertion '
        'through the cfg(reinterpretcat_vrp_verif) hook. After every step (and observed insertion) RouteState::verif_digest() and '
        'the activity schedules of every tour are compared with those of a context rebuilt from the bare tours (route-level '
        'handlers on an empty cache, then accept_solution_state), SolutionState::verif_digest() and the fitness vector with those '
        'of the rebuilt context, and the rebuilt values with the Coq model of the recomputation. '
        'non-trivial = distinct histories with at least one step that changed the tours.')
TRUSTED = ['the two hooks in /repo under cfg(reinterpretcat_vrp_verif): RouteState/SolutionState::verif_digest (renders the '
           'module-private cached values) and the insertion observer',
           'harness/src/bin/ops.rs `rebuild`: copies the tours into a new context (Solution::from + new_from_solution), marks every '
           'tour stale, runs goal.accept_route_state on each and then restore()',
           'entries of the solution state that are not derived from tours (the tabu list, rendered "opaque") are ignored']
ASSUMPTIONS = ['integer-valued data: every f64 operation on schedules/loads is exact (the load ratio is compared as the same '
               'division of the same integers)',
               'features in the goal as for C04; no conditional jobs, so accept_solution_state runs a single round',
               'an absent group set and an empty group set are the same observable (GroupConstraint treats them alike)']


def generate(rng, tier, n):
    return [O.gen_case(rng, tier, observe=(k % 3 == 0)) for k in range(n)]


def model_term(c, impl):
    if 'panic' in impl:
        return None
    return 'run_recompute %s %s' % (O.g_pworld(c), lst(O.states(impl), O.g_dump))


# ---------------------------------------------------------------- digests
def num(x):
    x = float(x)
    if x >= 1e300:
        return 'inf'
    return int(x) if x == int(x) else x


def parse_entry(s):
    kind, _, body = s.partition(':')
    if kind == 'f':
        return ('f', num(body))
    if kind in ('vf', 'vl1'):
        body = body.strip()[1:-1].strip()
        return (kind, tuple(num(x) for x in body.split(',')) if body else ())
    if kind == 'hs':
        return ('hs', tuple(re.findall(r'"([^"]*)"', body)))
    return (kind, body)


def canon_digest(dig):
    out = [parse_entry(s) for s in dig]
    return sorted((e for e in out if e != ('hs', ())), key=str)


def model_digest(c, m):
    """the model's recomputation of one tour rendered like the implementation's digest"""
    actor, sched, (latest, waiting, totals), (cur, past, fut, maxload), (compat, groups) = m
    cap = c['vehicles'][actor]['cap']
    t = lambda xs: tuple(tout(x) for x in xs)
    out = [('vf', t(latest)), ('vf', t(waiting)), ('f', tout(totals[0])), ('f', tout(totals[1])),
           ('vl1', tuple(cur)), ('vl1', tuple(past)), ('vl1', tuple(fut)), ('f', num(float(maxload) / float(cap)))]
    inv = {v: k for k, v in O.CODES.items() if k in ('A', 'B', 'C')}
    ginv = {v: k for k, v in O.CODES.items() if k.startswith('g')}
    if compat:
        out.append(('s', inv[compat]))
    if groups:
        out.append(('hs', tuple(sorted(ginv[g] for g in groups))))
    return sorted(out, key=str), [[tout(a), tout(b)] for a, b in sched]


def compare(c, impl, model):
    """the model's recomputation vs the implementation's recomputation (the rebuilt context)"""
    if 'panic' in impl:
        return None
    sts = O.states(impl)
    if len(model) != len(sts):
        return 'model evaluated %d states, implementation dumped %d' % (len(model), len(sts))
    for k, d in enumerate(sts):
        rb = {r['v']: r for r in d['rebuilt']['routes']}
        for m in model[k]:
            f = rb.get(m[0])
            if f is None:
                continue          # a tour without jobs is dropped by the rebuild
            md, ms = model_digest(c, m)
            fd = canon_digest(f['dig'])
            if md != fd:
                return 'state %d vehicle %d: recomputed route state: model %s implementation %s' % (k, m[0], md, fd)
            if ms != f['sched']:
                return 'state %d vehicle %d: recomputed schedule: model %s implementation %s' % (k, m[0], ms, f['sched'])
    return None


# ---------------------------------------------------------------- oracle: cached == recomputed
def route_diffs(d):
    out = []
    rb = {r['v']: r for r in d['rebuilt']['routes']}
    for r in d['routes']:
        if not O.route_jobs(r):
            continue                      # empty tours are dropped by the rebuild (C04 reports them)
        f = rb.get(r['v'])
        if f is None:
            out.append((r['v'], ['route-missing']))
            continue
        kinds = set()
        if [[a['arr'], a['dep']] for a in r['acts']] != f['sched']:
            kinds.add('schedule')
        live, fresh = canon_digest(r['dig']), canon_digest(f['dig'])
        for e in live:
            if e not in fresh:
                kinds.add(e[0])
        for e in fresh:
            if e not in live:
                kinds.add(e[0])
        if kinds:
            out.append((r['v'], sorted(kinds)))
    return out


KIND_NAMES = {'s': 'compatibility-tag', 'hs': 'group-tags', 'vf': 'latest-arrival-or-waiting', 'vl1': 'load-profile',
              'f': 'tour-totals-or-load-ratio', 'schedule': 'activity-schedule', 'route-missing': 'route-missing'}


def diff_class(kinds):
    if kinds == ['s']:
        return 'compatibility-tag-not-refreshed-after-removal'
    return 'stale-' + '+'.join(KIND_NAMES.get(k, k) for k in kinds)


def oracle(c, impl):
    if 'panic' in impl:
        return [{'class': 'panic', 'what': 'an operator panicked: ' + impl['panic'][:300]}]
    out = []
    sts = O.states(impl)
    for k, d in enumerate(sts):
        op = 'construction' if k == 0 else c['history'][k - 1]['op']
        for v, kinds in route_diffs(d):
            out.append({'class': diff_class(kinds),
                        'what': 'state %d (after %s), vehicle %d: cached %s differs from recomputation from the tour' % (k, op, v, kinds)})
        for kind in O.solution_diffs(c, impl['names'], d):
            out.append({'class': 'solution-' + kind, 'what': 'state %d (after %s): %s differs from the rebuilt context' % (k, op, kind)})
        # "two solutions with identical tours compare equal": GoalContext::total_order(live, rebuilt from the same tours)
        if d['rebuilt'].get('cmp') not in (None, 'Equal') and d['fit'] == d['rebuilt']['fit']:
            out.append({'class': 'identical-tours-do-not-compare-equal',
                        'what': 'state %d (after %s): all objective values agree but total_order(live, rebuilt) = %s' % (k, op, d['rebuilt']['cmp'])})
        if any(r['stale'] for r in d['routes']):
            out.append({'class': 'stale-flag-at-handover-after-' + op, 'what': 'state %d: a tour is handed over with the stale flag set' % k})
    compat = {j['id']: j.get('compat') for j in c['jobs']}
    for m in impl['observed_mismatches']:
        for r in m['routes']:
            if r.get('missing_in_rebuilt'):
                kinds = ['route-missing']
            else:
                kinds = set()
                if r['sched'] != r['fresh_sched']:
                    kinds.add('schedule')
                live, fresh = canon_digest(r['dig']), canon_digest(r['fresh_dig'])
                kinds |= set(e[0] for e in live if e not in fresh) | set(e[0] for e in fresh if e not in live)
                # inside InfeasibleSearch the hard constraints are switched off and a tour can serve jobs of two
                # compatibility values; the tag is then "the first tagged job of an unordered job set" (Tour::jobs is a
                # HashSet), i.e. not a function of the tour at all - recomputing it twice can give two answers. Such tours
                # never leave the operator (repair rebuilds under the real constraints; C04 checks VCompat at every handover).
                tags = set(compat[j] for j in r.get('jobs', []) if compat.get(j))
                if len(tags) > 1:
                    kinds.discard('s')
                kinds = sorted(kinds)
            if kinds:
                out.append({'class': diff_class(kinds),
                            'what': 'after insertion #%d during %s, vehicle %d: cached %s differs from recomputation' % (
                                m['n'], m['stage'], r['v'], kinds)})
    # one report per class and case is enough
    seen, uniq = set(), []
    for v in out:
        if v['class'] not in seen:
            seen.add(v['class'])
            uniq.append(v)
    return uniq


def nontrivial_key(c, impl):
    if 'panic' in impl:
        return None
    sts = O.states(impl)
    sig = lambda d: [(r['v'], [(a['job'], a['sub']) for a in r['acts']]) for r in d['routes']]
    if all(sig(sts[k]) == sig(sts[0]) for k in range(len(sts))):
        return None
    return (c['seed'], tuple(o['op'] for o in c['history']))


def classify(c, impl):
    labs = ['feature:' + k for k, v in c['features'].items() if v]
    labs.append('observe=%s' % c.get('observe', False))
    labs.append('ignored_jobs=%d' % len(c.get('ignored', [])))
    labs.append('steps_with_quota=%d' % sum(1 for o in c['history'] if o.get('quota') is not None))
    if 'panic' in impl:
        return labs + ['panic']
    labs.append('observed_insertions>0' if impl['observations'] else 'observed_insertions=0')
    for o in c['history']:
        labs.append(o['op'])
    return labs


def shrink_candidates(c):
    h = c['history']
    for k in range(len(h) - 1, -1, -1):
        d = dict(c)
        d['history'] = h[:k] + h[k + 1:]
        yield d


MANIFEST_TEXT = ('Machine-checked proof (Coq) over a model of the stale-flag protocol of RouteContext (route_mut/state_mut/as_mut mark '
                 'stale; accept_route_state clears and recomputes stale tours; accept_insertion; accept_solution_state with its final '
                 '"unset all") for ANY table of feature descriptors: the invariant "not stale -> cached field = recomputation from the '
                 'tour" is kept by every protocol operation; after every single insertion all fields are fresh when features skip a '
                 'refresh only for jobs that cannot change their field (proved for the shipped table); at handover '
                 '(accept_solution_state) no tour is stale and every field is fresh PROVIDED its feature refreshes in that handler - '
                 'true of every shipped feature (transport, capacity, compatibility, groups); false of the compatibility feature '
                 'as it was before /repo b397f8a (machine-checked counterexample on the pre-fix table, regression mutant C05-6); '
                 'objective values are a function of the tours. Tied to /repo on every run: cached state digests and schedules of '
                 'every tour after every real operator call and every observed insertion are compared with a context rebuilt from '
                 'the bare tours, and the rebuilt values with the Coq recomputation (schedules, latest arrivals, waiting, totals, load '
                 'profiles, tags). Sub-stream c05_feat (Model/CacheF.v): the remaining caching features - tour limits, recharge, '
                 'simple reload, tour order, the four work balance objectives, fast service - with handlers that READ OTHER CACHED '
                 'FIELDS (goal order matters) and per-solution aggregates: for any table of sound handlers every key / aggregate of '
                 'the computed `good` sets equals its function of the tours after accept_route_state / every insertion / '
                 'accept_solution_state, objective values are a function of the tours (full modelled goal); machine-checked '
                 'counterexamples for defects of the work balance feature: C05-F3 per-route value never refreshed at hand-over and '
                 'C05-F5 aggregates count a job-less tour removed after the refresh (both repaired in /repo by 5d6f1d2 / 38e261f: the '
                 'pre-fix table / restore order is kept for the witnesses, the statements about the code as it is are proved: route '
                 'values fresh at hand-over, restore aggregates = fold over the tours that remain), C05-F4 values / objective '
                 'computed before the state they read is refreshed (open), C05-F6 a tour emptied by a state handler of the same '
                 'refresh was still counted (repaired in /repo by 70e48c1, witness and repaired statement proved). The feature table of the Coq instantiation is compared on every run '
                 'with the handlers / state keys extracted from the `impl FeatureState` blocks of the source.')
MANIFEST_NOTE = ('Trusted: Coq kernel+vm_compute; the two cfg-gated hooks; harness rebuild; generators. The feature table '
                 '(which handler recomputes which field) is instantiated by reading the FeatureState impls, validated by the digests. '
                 'Sub-stream c05_feat additionally trusts: the keyless rendering of the digests (multiset comparison), the Python '
                 'replica of get_cv_safe, the regex reading of the Rust source in tools/props/c05_table.py with its key map. '
                 'Not modelled: conditional-job promotion loop beyond CacheX.v, hierarchical areas (medoid index), tour compactness '
                 '(only live vs rebuilt), known-edge footprint cost.')
MANIFEST_TECHNIQUE = 'Coq proof (protocol invariant) + vm_compute recomputation model vs digests of the real cached state'


# ---------------------------------------------------------------- the tie between the feature table of the Coq instantiation and the Rust source
_EXTRA = {}


def extra_checks(ctx):
    """tools/props/c05_table.py: the handlers / written state keys of every `impl FeatureState for X`, extracted from the Rust
    source of the tree under test, against the rows Coq prints for `table_rows` (Model/CacheF.v).  A difference means the
    correspondence between the table the theorems are instantiated with and the code is broken: reported like a failed
    correspondence (VIOLATION ... no-failing-input-found), never silently."""
    import os
    import subprocess
    import coqterm
    from props import c05_table as T
    wd = ctx['wd']
    coq = os.environ.get('VERIF_COQ', os.path.join(os.path.dirname(os.path.dirname(os.path.dirname(os.path.abspath(__file__)))), 'coq'))
    f = os.path.join(wd, 'table_rows.v')
    with open(f, 'w') as fh:
        fh.write('From VRP Require Import Base.Tac Model.Core Model.Cache Model.CacheF.\nSet Printing Width 1000000.\n'
                 'Eval vm_compute in table_rows.\n')
    p = subprocess.run(['timeout', '300', 'coqc', '-noglob', '-Q', os.path.join(coq, 'theories'), 'VRP', '-w', '-all', f],
                       cwd=wd, stdout=subprocess.PIPE, stderr=subprocess.STDOUT, text=True)
    if p.returncode != 0:
        diffs = ['evaluation of table_rows failed: ' + p.stdout[-800:]]
    else:
        rows = coqterm.parse_eval_output(p.stdout)[0]
        diffs = T.compare(ctx['repo'], rows)
        _EXTRA['feature_state_impls_compared_with_the_coq_table'] = len(T.table(ctx['repo']))
    if diffs:
        rp = ctx['write_replay'](ID, {'property': ID, 'kind': 'no-failing-input-found',
                                      'broken': ['feature table of the Coq instantiation != FeatureState impls of the source: ' + d for d in diffs],
                                      'note': 'tools/props/c05_table.py: the handlers / state keys extracted from the Rust source differ from '
                                              'the table the C05 theorems are instantiated with (Model/CacheF.v table_rows, HAND_ROWS)',
                                      'seed': ctx['stats'].get('seed')})
        ctx['verdict'].violation(rp, nofail=True)


def extra_coverage():
    return dict(_EXTRA)
