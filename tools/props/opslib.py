"""Shared by C04 and C05 (operator-level harness `ops`): case generation (problem + operator history), Gallina rendering
of the problem and of the dumped states, an independent Python reading of the invariant (cross-checked against the Coq
checker `inv_b` on every state) and the cache-vs-recomputation comparison."""
from coqterm import z, zlist, lst, nat
from props.corelib import tz, INF, g_demand

RUINS = ['asr', 'rjob', 'rroute', 'wjob', 'neigh', 'cluster', 'croute', 'wroute']
RECREATES = ['cheapest', 'farthest', 'gaps', 'nearest', 'perturbation', 'regret', 'skip_best', 'skip_random', 'slice', 'blinks']
LOCALS = ['inter_best', 'inter_random', 'intra_random', 'sequence', 'swap_star', 'reschedule', 'composite']
SEARCHES = ['rr', 'local_search', 'decompose', 'redistribute', 'infeasible', 'lkh_improve', 'lkh_diverse']


# ---------------------------------------------------------------- generation
def gen_matrix(rng, n, metric):
    if metric:
        xs = [(rng.range(0, 20), rng.range(0, 20)) for _ in range(n)]
        base = [[abs(xs[i][0] - xs[j][0]) + abs(xs[i][1] - xs[j][1]) for j in range(n)] for i in range(n)]
        dur = [base[i][j] for i in range(n) for j in range(n)]
        dist = [2 * base[i][j] for i in range(n) for j in range(n)]
    else:
        dur = [0 if i == j else rng.range(1, 40) for i in range(n) for j in range(n)]
        dist = [0 if i == j else rng.range(1, 60) for i in range(n) for j in range(n)]
    return dur, dist


def is_metric(c):
    n, d = c['n'], c['dur']
    return all(d[i * n + k] <= d[i * n + j] + d[j * n + k] for i in range(n) for j in range(n) for k in range(n))


def gen_vehicle(rng, n):
    closed = rng.chance(7, 10)
    ss = rng.choice([0, 0, 0, 20])
    v = {'start': rng.choice([0, 0, rng.below(n)]), 'end': None, 'shift_start': ss, 'shift_latest': None, 'shift_end': 'inf',
         'cap': rng.range(5, 16), 'costs': [rng.range(0, 40), rng.range(1, 3), rng.range(0, 2), rng.range(0, 2), rng.range(0, 1)]}
    if closed:
        v['end'] = rng.choice([v['start'], v['start'], rng.below(n)])
        v['shift_end'] = rng.choice(['inf', ss + rng.range(150, 400), ss + rng.range(250, 600)])
    if rng.chance(1, 3):
        v['shift_latest'] = ss + rng.range(10, 120)
    return v


def gen_place(rng, n, wide=False):
    if wide:
        return {'loc': rng.below(n), 'svc': rng.choice([0, 2, 5]), 'tws': [[0, 'inf']]}
    tws = []
    for _ in range(1 if rng.chance(3, 4) else 2):
        k = rng.below(10)
        if k < 4:
            tws.append([0, 'inf'])
        elif k < 9:
            a = rng.range(0, 200)
            tws.append([a, a + rng.range(15, 150)])
        else:
            a = rng.range(0, 250)
            tws.append([a, 'inf'])
    if len(tws) == 2 and tws[0] == tws[1]:
        tws = tws[:1]
    return {'loc': rng.below(n), 'svc': rng.choice([0, 0, 3, 8]), 'tws': tws}


def gen_jobs(rng, n, count, feats):
    jobs = []
    for i in range(1, count + 1):
        if rng.chance(1, 4):
            q = rng.range(1, 5)
            a = {'places': [gen_place(rng, n, rng.chance(1, 2))], 'dem': [0, q, 0, 0]}
            b = {'places': [gen_place(rng, n, True)], 'dem': [0, 0, 0, q]}
            j = {'id': i, 'multi': [a, b]}
        else:
            k = rng.below(10)
            dem = [0, 0, rng.range(1, 6), 0] if k < 5 else ([rng.range(1, 6), 0, 0, 0] if k < 9 else [0, 0, 0, 0])
            places = [gen_place(rng, n)] + ([gen_place(rng, n)] if rng.chance(1, 5) else [])
            j = {'id': i, 'places': places, 'dem': dem}
        if feats.get('compat') and rng.chance(2, 5):
            j['compat'] = rng.choice(['A', 'A', 'B'])
        if feats.get('order') and rng.chance(1, 2) and 'multi' not in j:
            j['order'] = rng.range(1, 3)
        jobs.append(j)
    if feats.get('groups'):
        members = rng.shuffle([j for j in jobs])[:rng.range(2, 3)]
        for j in members:
            j['group'] = 'g1'
        if count >= 7 and rng.chance(1, 2):
            rest = [j for j in jobs if 'group' not in j]
            for j in rng.shuffle(rest)[:2]:
                j['group'] = 'g2'
    return jobs


def gen_op(rng, prev_ruin):
    r = rng.below(100)
    if prev_ruin and r < 65:
        kind = 'recreate'
    elif r < 28:
        kind = 'ruin'
    elif r < 45:
        kind = 'recreate'
    elif r < 72:
        kind = 'local'
    else:
        kind = 'search'
    op = {}
    if kind == 'ruin':
        op['op'] = 'ruin:' + rng.choice(RUINS)
    elif kind == 'recreate':
        op['op'] = 'recreate:' + rng.choice(RECREATES)
    elif kind == 'local':
        op['op'] = 'local:' + rng.choice(LOCALS + ['sequence', 'inter_best', 'intra_random', 'reschedule', 'reschedule'])
    else:
        op['op'] = 'search:' + rng.choice(SEARCHES)
        op['ruin'] = rng.choice(RUINS)
        op['recreate'] = rng.choice(RECREATES)
        op['recovery'] = rng.choice(RECREATES)
        op['local'] = rng.choice(LOCALS)
        op['repeat'] = rng.range(1, 2)
    a = rng.range(1, 3)
    op['acts'] = [a, a + rng.range(0, 3)]
    b = rng.range(1, 2)
    op['routes'] = [b, b + rng.range(0, 2)]
    op['skip'] = rng.range(1, 3)
    op['min'] = rng.range(1, 2)
    op['max'] = op['min'] + rng.range(1, 2)
    op['size'] = rng.range(2, 4)
    op['lmax'] = rng.range(2, 6)
    op['cavg'] = rng.range(2, 6)
    return op


def arm_quota(rng, op):
    """a counting quota for this step: reached from its k-th poll on (InsertionHeuristic::process polls once per
    insertion round, DecomposeSearch once per repeat); most steps run without interruption"""
    if rng.chance(1, 5):
        op['quota'] = rng.range(0, 8)
    return op


def gen_fleet_case(rng, tier, observe):
    """many small vehicles, every job assignable, a few jobs pending in `ignored`, no pinned jobs: the solutions have
    3+ tours and nothing unassigned, so DecomposeSearch really decomposes (2+ groups and no leftover of pending jobs
    other than the ignored ones)"""
    n = rng.range(5, 8)
    dur, dist = gen_matrix(rng, n, True)
    feats = {'compat': False, 'groups': False, 'order': rng.chance(1, 3)}
    count = rng.range(8, 12)
    cap = rng.range(2, 3)
    nveh = -(-count // cap) + rng.range(1, 2)
    vehicles = []
    for _ in range(nveh):
        end = rng.choice([0, 0, None])
        vehicles.append({'start': 0, 'end': end, 'shift_start': 0, 'shift_latest': None, 'shift_end': 'inf', 'cap': cap,
                         'costs': [rng.range(0, 20), rng.range(1, 3), rng.range(0, 2), 0, 0]})
    jobs = []
    for i in range(1, count + 1):
        j = {'id': i, 'places': [gen_place(rng, n, wide=not rng.chance(1, 4))], 'dem': [0, 0, 1, 0]}
        if feats['order'] and rng.chance(1, 2):
            j['order'] = rng.range(1, 3)
        jobs.append(j)
    ignored = sorted(j['id'] for j in rng.shuffle(jobs)[:rng.range(1, 2)])
    hist = []
    for _ in range(rng.range(4, 9) if tier == 'quick' else rng.range(6, 14)):
        r = rng.below(10)
        op = gen_op(rng, False)
        if r < 5:
            op['op'] = 'search:decompose'
            op['repeat'] = rng.range(1, 2)
        elif r < 7:
            op['op'] = 'search:' + rng.choice(['rr', 'local_search', 'redistribute'])
        elif r < 9:
            op['op'] = 'local:' + rng.choice(LOCALS)
        else:
            op['op'] = 'recreate:' + rng.choice(RECREATES)
        op.setdefault('ruin', rng.choice(RUINS))
        op.setdefault('recreate', rng.choice(RECREATES))
        op.setdefault('recovery', rng.choice(RECREATES))
        op.setdefault('local', rng.choice(LOCALS))
        op.setdefault('repeat', 1)
        hist.append(arm_quota(rng, op) if rng.chance(1, 2) else op)
    return {'n': n, 'dur': dur, 'dist': dist, 'vehicles': vehicles, 'jobs': jobs, 'features': feats, 'locks': [],
            'ignored': ignored, 'seed': rng.next() % (2 ** 53), 'history': hist, 'observe': observe}


def gen_repair_case(rng):
    """targeted stream for repair_solution_from_unknown (LKHSearch, InfeasibleSearch): one tour of 5-7 nodes with a
    pickup-delivery job whose delivery window is just wide enough for the direct leg pickup -> delivery, and singles placed
    so that the distance-optimal cycle puts a single between pickup and delivery: after LKH re-orders the tour the first part
    of the multi job re-inserts fine and the second one is late.  Geometry is mirrored / transposed / scaled at random
    because the orientation LKH returns (and so which part comes first) depends on it."""
    a, b, cc = rng.range(8, 12), 2 * rng.range(6, 10), rng.range(3, 5)
    pts = {'depot': (0, 0), 'P': (a, 0), 'D': (a, b), 'S1': (a + cc, b // 2), 'S2': (0, b)}
    extra = rng.below(3)
    if extra >= 1:
        pts['S3'] = (-cc, b // 2)
    if extra >= 2:
        pts['S4'] = (a // 2, b + cc)
    if rng.chance(1, 2):
        pts = {k: (-x, y) for k, (x, y) in pts.items()}
    if rng.chance(1, 2):
        pts = {k: (x, -y) for k, (x, y) in pts.items()}
    if rng.chance(1, 2):
        pts = {k: (y, x) for k, (x, y) in pts.items()}
    names = ['depot'] + rng.shuffle([k for k in pts if k != 'depot'])
    loc = {k: i for i, k in enumerate(names)}
    xy = [pts[k] for k in names]
    n = len(xy)
    dur = [abs(xy[i][0] - xy[j][0]) + abs(xy[i][1] - xy[j][1]) for i in range(n) for j in range(n)]
    dist = [2 * x for x in dur]
    slack = rng.range(0, 2 * cc - 1)
    jobs = [{'id': 1, 'multi': [{'places': [{'loc': loc['P'], 'svc': 0, 'tws': [[0, 'inf']]}], 'dem': [0, 1, 0, 0]},
                                {'places': [{'loc': loc['D'], 'svc': 0, 'tws': [[0, a + b + slack]]}], 'dem': [0, 0, 0, 1]}]}]
    for k in names:
        if k.startswith('S'):
            jobs.append({'id': len(jobs) + 1, 'places': [{'loc': loc[k], 'svc': 0, 'tws': [[0, 'inf']]}], 'dem': [0, 0, 1, 0]})
    veh = {'start': 0, 'end': 0, 'shift_start': 0, 'shift_latest': None, 'shift_end': 'inf', 'cap': 10,
           'costs': [10, 1, rng.range(0, 1), 0, 0]}
    hist = []
    for k in range(rng.range(3, 5)):
        op = gen_op(rng, False)
        op['op'] = 'search:' + (['lkh_improve', 'lkh_diverse'][k % 2] if k < 2 or rng.chance(2, 3) else 'infeasible')
        if k == 0 and rng.chance(1, 2):
            op['op'] = 'search:lkh_diverse'
        op.setdefault('ruin', rng.choice(RUINS))
        op.setdefault('recreate', rng.choice(RECREATES))
        op.setdefault('recovery', rng.choice(RECREATES))
        op.setdefault('local', rng.choice(LOCALS))
        op.setdefault('repeat', 1)
        hist.append(op)
    return {'n': n, 'dur': dur, 'dist': dist, 'vehicles': [veh], 'jobs': jobs, 'features': {}, 'locks': [], 'ignored': [],
            'seed': rng.next() % (2 ** 53), 'history': hist, 'observe': False, 'stream': 'repair'}



def gen_long_tour_case(rng, tier='quick'):
    """one vehicle, 28-40 pickup-delivery jobs on a line, every delivery closer to the depot than its pickup: ONE tour of
    56-80 activities, so the insertion evaluator takes its SAMPLED leg search (LegSelection::Stochastic samples the legs once
    16-32 (multi jobs) / 32-48 (singles) legs are left to visit; shorter tours are searched exhaustively) and the cheapest
    place of a delivery is in front of its pickup - only the `skip` of the later parts of a multi job keeps the order.
    A few singles in between; history = ruins with larger limits + recreates / RuinAndRecreate."""
    pairs = rng.range(28, 40)
    singles = rng.range(0, 4)
    size = 2 * pairs + singles + 1
    scale = rng.choice([1, 1, 2, 3])
    dur = [scale * abs(i - j) for i in range(size) for j in range(size)]
    dist = [2 * x for x in dur]
    svc = rng.choice([0, 1, 1, 2])
    jobs = []
    for i in range(pairs):
        q = rng.range(1, 2)
        jobs.append({'id': i + 1, 'multi': [
            {'places': [{'loc': pairs + i + 1, 'svc': svc, 'tws': [[0, 'inf']]}], 'dem': [0, q, 0, 0]},
            {'places': [{'loc': i + 1, 'svc': svc, 'tws': [[0, 'inf']]}], 'dem': [0, 0, 0, q]}]})
    for k in range(singles):
        jobs.append({'id': pairs + k + 1, 'places': [{'loc': 2 * pairs + k + 1, 'svc': svc, 'tws': [[0, 'inf']]}],
                     'dem': [0, 0, 1, 0]})
    veh = {'start': 0, 'end': rng.choice([0, 0, None]), 'shift_start': 0, 'shift_latest': None, 'shift_end': 'inf',
           'cap': 4 * pairs, 'costs': [10, 1, rng.range(0, 1), 0, 0]}
    hist = []
    for k in range(rng.range(3, 5) if tier == 'quick' else rng.range(5, 9)):
        op = gen_op(rng, False)
        a = rng.range(3, 6)
        op['acts'] = [a, a + rng.range(2, 8)]
        op['routes'] = [1, 2]
        if k % 2 == 0:
            op['op'] = 'ruin:' + rng.choice(['neigh', 'rjob', 'asr', 'cluster', 'wjob'])
        else:
            op['op'] = 'recreate:' + rng.choice(RECREATES)
        if rng.chance(1, 4):
            op['op'] = 'search:rr'
        op.setdefault('ruin', rng.choice(['neigh', 'rjob', 'asr']))
        op.setdefault('recreate', rng.choice(RECREATES))
        op.setdefault('recovery', rng.choice(RECREATES))
        op.setdefault('local', rng.choice(LOCALS))
        op.setdefault('repeat', 1)
        hist.append(op)
    return {'n': size, 'dur': dur, 'dist': dist, 'vehicles': [veh], 'jobs': jobs, 'features': {}, 'locks': [], 'ignored': [],
            'seed': rng.next() % (2 ** 53), 'history': hist, 'observe': False, 'stream': 'long_tour'}


def gen_case(rng, tier='quick', metric=None, observe=False):
    if metric is None and rng.chance(1, 4):
        return gen_fleet_case(rng, tier, observe)
    n = rng.range(4, 7)
    if metric is None:
        metric = not rng.chance(1, 12)
    dur, dist = gen_matrix(rng, n, metric)
    feats = {'compat': rng.chance(1, 2), 'groups': rng.chance(1, 3), 'order': rng.chance(1, 3)}
    vehicles = [gen_vehicle(rng, n) for _ in range(rng.range(2, 4))]
    jobs = gen_jobs(rng, n, rng.range(4, 10), feats)
    locks = []
    if rng.chance(1, 4):
        cands = [j for j in jobs if 'multi' not in j and 'group' not in j and 'compat' not in j]
        if cands:
            picked = rng.shuffle(cands)[:rng.range(1, 2)]
            for j in picked:      # the factory places pinned jobs without any feasibility check: make them harmless
                j['places'] = [{'loc': j['places'][0]['loc'], 'svc': j['places'][0]['svc'], 'tws': [[0, 'inf']]}]
                j['dem'] = [0, 0, 1, 0]
            locks.append({'vehicle': rng.below(len(vehicles)), 'jobs': [j['id'] for j in picked],
                          'order': rng.choice(['strict', 'sequence'])})
    ignored = []
    if rng.chance(1, 4):      # a few jobs start pending in `ignored` (a legal home, as conditional jobs have)
        pinned = set(i for l in locks for i in l['jobs'])
        free = [j['id'] for j in jobs if j['id'] not in pinned]
        ignored = sorted(rng.shuffle(free)[:rng.range(1, 2)])
    hist = []
    prev_ruin = False
    for _ in range(rng.range(6, 18) if tier == 'quick' else rng.range(10, 30)):
        op = arm_quota(rng, gen_op(rng, prev_ruin))
        prev_ruin = op['op'].startswith('ruin')
        hist.append(op)
    return {'n': n, 'dur': dur, 'dist': dist, 'vehicles': vehicles, 'jobs': jobs, 'features': feats, 'locks': locks,
            'ignored': ignored, 'seed': rng.next() % (2 ** 53), 'history': hist, 'observe': observe}


# ---------------------------------------------------------------- Gallina rendering
CODES = {'A': 1, 'B': 2, 'C': 3, 'g1': 1, 'g2': 2, 'g3': 3}


def g_pworld(c):
    vs = []
    for i, v in enumerate(c['vehicles']):
        veh = '(mkVeh %s %s %s %s %s %s %s)' % (z(tz(v['shift_end'])), z(v['cap']), *[z(x) for x in v['costs']])
        end = 'None' if v['end'] is None else '(Some %s)' % z(v['end'])
        latest = v['shift_start'] if v.get('shift_latest') is None else v['shift_latest']
        vs.append('(mkVs %s %s %s %s %s %s)' % (z(i), veh, z(v['start']), end, z(v['shift_start']), z(latest)))
    js = []
    for j in c['jobs']:
        parts = len(j['multi']) if 'multi' in j else 1
        js.append('(mkJob %s %s %s %s)' % (z(j['id']), nat(parts), z(CODES.get(j.get('compat'), 0)), z(CODES.get(j.get('group'), 0))))
    ls = ['(mkLock %s %s)' % (z(l['vehicle']), zlist(l['jobs'])) for l in c.get('locks', [])]
    return '(mkPW %s %s %s %s %s %s)' % (z(c['n']), zlist(c['dur']), zlist(c['dist']), lst(vs), lst(js), lst(ls))


def g_ract(a):
    return '(mkAct %s %s %s %s %s %s %s %s, %s)' % (z(a['job']), z(a['loc']), z(tz(a['svc'])), z(tz(a['tws'])), z(tz(a['twe'])),
                                                  g_demand(a['dem']), z(tz(a['arr'])), z(tz(a['dep'])), z(a['sub']))


def g_dump(d):
    rs = ['(mkRoute %s %s)' % (z(r['v']), lst(r['acts'], g_ract)) for r in d['routes']]
    return '(mkDump %s %s %s %s %s %s)' % (lst(rs), zlist(d['req']), zlist(d['ign']), zlist([u[0] for u in d['una']]),
                                          zlist(d['locked']), zlist(d['avail']))


def states(impl):
    """the dumped states of a run: start state + the state after every step"""
    return [impl['init']] + [s['after'] for s in impl['steps']]


# ---------------------------------------------------------------- independent Python reading of the invariant
def route_jobs(r):
    out = []
    for a in r['acts']:
        if a['job'] >= 0 and a['job'] not in out:
            out.append(a['job'])
    return out


def sim_route(c, v, acts):
    """step-by-step: (time_ok, load_ok)"""
    n = c['n']
    loc, dep = acts[0]['loc'], tz(acts[0]['dep'])
    time_ok = True
    for a in acts[1:]:
        arr = dep + c['dur'][loc * n + a['loc']]
        if arr > tz(a['twe']):
            time_ok = False
        dep = max(arr, tz(a['tws'])) + tz(a['svc'])
        loc = a['loc']
    load = sum(a['dem'][2] for a in acts)
    load_ok = load <= v['cap']
    for a in acts:
        load += a['dem'][0] + a['dem'][1] - a['dem'][2] - a['dem'][3]
        if load > v['cap']:
            load_ok = False
    return time_ok, load_ok


def py_violations(c, d):
    """list of violation tuples in the vocabulary of Spec/Inv.v"""
    out = []
    jobs = {j['id']: j for j in c['jobs']}
    una = [u[0] for u in d['una']]
    for jid in jobs:
        h = sum(1 for r in d['routes'] if jid in route_jobs(r)) + (jid in una) + (jid in d['req']) + (jid in d['ign'])
        if h != 1:
            out.append(('VHomes', jid, h))
    mentioned = [j for r in d['routes'] for j in route_jobs(r)] + d['req'] + d['ign'] + una + d['locked']
    for j in dict.fromkeys(mentioned):
        if j not in jobs:
            out.append(('VUnknownJob', j))
    if any(len(set(l)) != len(l) for l in (d['req'], d['ign'], una)):
        out.append('VDupPending')
    used = [r['v'] for r in d['routes']]
    nv = len(c['vehicles'])
    if len(set(used)) != len(used) or any(not (0 <= a < nv) for a in used + d['avail']):
        out.append('VRegistryDup')
    for a in range(nv):
        if (a in d['avail']) != (a not in used):
            out.append(('VRegistryAvail', a))
    for r in d['routes']:
        if not (0 <= r['v'] < nv):
            out.append('VRegistryDup')
            continue
        v = c['vehicles'][r['v']]
        acts = r['acts']
        latest = v['shift_start'] if v.get('shift_latest') is None else v['shift_latest']
        s = acts[0]
        ok = s['job'] == -1 and s['loc'] == v['start'] and v['shift_start'] <= tz(s['dep']) <= latest
        inner = acts[1:]
        if v['end'] is not None:
            if not inner:
                ok = False
            else:
                e = inner[-1]
                ok = ok and e['job'] == -1 and e['loc'] == v['end'] and tz(e['twe']) == tz(v['shift_end'])
                inner = inner[:-1]
        ok = ok and all(a['job'] >= 0 for a in inner) and all(0 <= a['loc'] < c['n'] for a in acts)
        if not ok:
            out.append(('VShape', r['v']))
        t_ok, l_ok = sim_route(c, v, acts)
        if not t_ok:
            out.append(('VTime', r['v']))
        if not l_ok:
            out.append(('VLoad', r['v']))
        for j in route_jobs(r):
            parts = len(jobs[j]['multi']) if j in jobs and 'multi' in jobs[j] else 1
            if j not in jobs or [a['sub'] for a in acts if a['job'] == j] != list(range(parts)):
                out.append(('VMulti', r['v'], j))
        dem_ok = all(tz(a['svc']) >= 0 for a in acts)
        for j in route_jobs(r):
            o = 0
            for a in acts:
                if a['job'] == j:
                    o += a['dem'][0] + a['dem'][1] - a['dem'][3]
                    if a['dem'][2] < 0 or o < 0:
                        dem_ok = False
        if not dem_ok:
            out.append(('VDemand', r['v']))
        cs = [jobs[j]['compat'] for j in route_jobs(r) if j in jobs and jobs[j].get('compat')]
        if len(set(cs)) > 1:
            out.append(('VCompat', r['v']))
        if not route_jobs(r):
            out.append(('VEmptyRoute', r['v']))
    groups = list(dict.fromkeys(j['group'] for j in c['jobs'] if j.get('group')))
    for g in groups:
        k = sum(1 for r in d['routes'] if any(jobs.get(j, {}).get('group') == g for j in route_jobs(r)))
        if k > 1:
            out.append(('VGroup', CODES[g]))
    for l in c.get('locks', []):
        if not all(j in d['locked'] for j in l['jobs']) or \
                not any(r['v'] == l['vehicle'] and [j for j in route_jobs(r) if j in l['jobs']] == l['jobs'] for r in d['routes']):
            out.append(('VLock', l['vehicle']))
    return out


def canon_viol(v):
    if isinstance(v, (tuple, list)):
        return tuple(v)
    return v


# ---------------------------------------------------------------- C05: cached vs recomputed
def cache_diffs(d):
    """[(vehicle, kind)] where the live route state / schedule differs from the recomputation; plus solution level"""
    out = []
    rb = {r['v']: r for r in d['rebuilt']['routes']}
    for r in d['routes']:
        if not route_jobs(r):
            continue                      # empty tours are dropped by the rebuild (C04 reports them)
        f = rb.get(r['v'])
        if f is None:
            out.append((r['v'], 'route-missing-in-rebuilt'))
            continue
        sched = [[a['arr'], a['dep']] for a in r['acts']]
        if sched != f['sched']:
            out.append((r['v'], 'schedule'))
        live, fresh = sorted(r['dig']), sorted(f['dig'])
        if live != fresh:
            kinds = set()
            for x in set(live) ^ set(fresh):
                kinds.add(x.split(':', 1)[0])
            out.append((r['v'], 'state:' + '+'.join(sorted(kinds))))
    return out


def solution_diffs(c, names, d):
    out = []
    live = sorted(x for x in d['sdig'] if x != 'opaque')
    fresh = sorted(x for x in d['rebuilt']['sdig'] if x != 'opaque')
    if live != fresh:
        out.append('solution-state')
    empty = any(not route_jobs(r) for r in d['routes'])
    for k, name in enumerate(names):
        if name == 'unassigned' and (d['req'] or d['ign']):
            continue                      # pending jobs are counted differently by design
        if name in ('tours', 'cost') and empty:
            continue                      # a tour without jobs (C04 reports it) is dropped by the rebuild together with its fixed cost
        if d['fit'][k] != d['rebuilt']['fit'][k]:
            out.append('fitness:' + name)
    return out


def op_kinds(c):
    return [o['op'] for o in c['history']]
