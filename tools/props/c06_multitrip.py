"""C06 sub-stream `c06_multitrip`: multi-trip (reload intervals) and multi-dimensional capacity, step level.

Model: coq/theories/Model/CapacityMT.v (route_intervals.rs, multi_trip.rs, reloads.rs, capacity.rs, load.rs); theorems:
Proofs/CapacityMTP.v, exposed in Properties/C06.v / Properties/C01.v.  Harness: harness/src/bin/c06_multitrip.rs.
Plugin interface as tools/props/c06.py (sub-stream of C06: the driver sets ID / STREAM)."""
import ast
from coqterm import z, zlist, lst, nat
from props import corelib as K
from props.corelib import tz, INF

ID = 'C06'
HARNESS = 'c06_multitrip'
COQ_IMPORTS = 'From VRP Require Import Base.Tac Model.Core Spec.Feasible Spec.Intervals Model.Eval Model.CapacityMT.'
MODEL_TARGETS = ['theories/Model/CapacityMT.vo']
MODEL_NEEDS_IMPL = True
SHARD = 25
SIZES = {'quick': 400, 'thorough': 6000, 'search': 3000}
DIM = 8
RULE = ('cases: random worlds (corelib: 3-6 locations, metric / non-metric matrices, open / closed tours), tours of 0-8 activities '
        'with 0-3 reload marker activities (also right after the start, two in a row, last activity of an open tour), 1-3 capacity '
        'dimensions as SingleDimLoad or MultiDimLoad (amount vectors shorter / longer than the capacity vector, explicit zero '
        'vectors vs absent components), static deliveries / pickups / exchange stops, shipments picked up and delivered in '
        'different reload intervals (also still on board at the tour end), the vehicle capacity put at / one above / one below the '
        'largest load of some interval; candidates per tour: static delivery, static pickup, exchange, shipment (Multi job with '
        'dynamic demand), the reload marker job (assignable / of another vehicle), occasionally a stand-alone job with dynamic '
        'pickup demand; amounts at / one above / one below the room of a random interval; positions Any and Concrete i. '
        'non-trivial = distinct cases with >= 1 tour activity and at least one accepted and one rejected activity-level probe.')
TRUSTED = ['sub-stream c06_multitrip: the Python per-interval load simulation in tools/props/c06_multitrip.py (cross-checked against '
           'the Coq checker Spec.Intervals.ivl_load_feasible / ivl_loads_of in every dimension of every tour it judges)',
           'sub-stream c06_multitrip: the load-schedule threshold and the is_reload / belongs_to_route hooks are the ones of '
           'vrp-pragmatic goal_reader.rs, rebuilt in the harness (capacity * 0.9; job type "reload"; same vehicle id and shift)']


# ---------------------------------------------------------------- loads / demands
def comp(v):
    """one component of a demand as a DIM-vector (None = the load type's default)"""
    v = [] if v is None else list(v)
    return v + [0] * (DIM - len(v))


def dem4(dem):
    """[ps, pd, ds, dd] as DIM-vectors; None (no demand dimension) = zeros"""
    if dem is None:
        return [[0] * DIM for _ in range(4)]
    return [comp(x) for x in dem]


def single_view(c, dem):
    """SingleDimLoad reads the first number of every component only"""
    if dem is None:
        return None
    return [None if x is None else [(list(x) + [0])[0]] for x in dem]


def eff_dem(c, dem):
    return single_view(c, dem) if c['load'] == 'single' else dem


def cap_vec(c):
    cap = c['veh']['cap']
    if cap is None:
        return None
    if c['load'] == 'single':
        return comp([(list(cap) + [0])[0]])
    return comp(cap)


def is_marker(c, a):
    return bool(c.get('reloads', True)) and a.get('kind') == 'reload'


# ---------------------------------------------------------------- independent simulation (oracle)
def simulate(c, acts):
    """per-interval loads in every dimension.  acts: [{'marker': bool, 'dem': [ps,pd,ds,dd] DIM-vectors}] for the whole tour
    (start and end included).  Returns (ok per dimension, loads per dimension, index of the first overloaded interval per dim).
    Written from the documentation: a reload starts a new interval; static deliveries of an interval are on board from its start,
    static pickups until its end, shipments are carried across."""
    cap = cap_vec(c)
    segs = [[]]
    for a in acts:
        if a['marker']:
            segs.append([a])
        else:
            segs[-1].append(a)
    oks, loads, bad = [], [], []
    for d in range(DIM):
        carry, ok, ls, first_bad = 0, True, [], None
        for k, seg in enumerate(segs):
            cur = carry + sum(a['dem'][2][d] for a in seg)
            if cur > cap[d]:
                ok = False
                first_bad = k if first_bad is None else first_bad
            for a in seg:
                cur += a['dem'][0][d] + a['dem'][1][d] - a['dem'][2][d] - a['dem'][3][d]
                ls.append(cur)
                if cur > cap[d]:
                    ok = False
                    first_bad = k if first_bad is None else first_bad
            carry = cur - sum(a['dem'][0][d] for a in seg)
        oks.append(ok)
        loads.append(ls)
        bad.append(first_bad)
    return oks, loads, bad


def act_table(c):
    """job id -> (marker, effective demand, multi?) for everything that can appear in a tour of this case"""
    t = {-1: (False, None, False)}
    for a in c['tour']:
        t[a['job']] = (is_marker(c, a), eff_dem(c, a['dem']), False)
    for cd in c['cands']:
        if 'multi' in cd:
            for s in cd['multi']:
                t[s['id']] = (False, eff_dem(c, s['dem']), True)
        else:
            t[cd['id']] = (is_marker(c, cd), eff_dem(c, cd['dem']), False)
    return t


def sim_acts(c, ids):
    tab = act_table(c)
    return [{'marker': tab[i][0], 'dem': dem4(tab[i][1])} for i in ids]


def before_ids(c):
    return [-1] + [a['job'] for a in c['tour']] + ([-1] if c['veh']['end'] is not None else [])


def threshold(c):
    """capacity * 0.9 with MultiDimLoad / SingleDimLoad Mul<Float>: (x as f64 * 0.9).round() as i32, half away from zero"""
    cap = c['veh']['cap']
    if cap is None:
        return None

    def r(x):
        y = x * 0.9
        import math
        return int(math.floor(abs(y) + 0.5)) * (1 if y >= 0 else -1)
    if c['load'] == 'single':
        return [r((list(cap) + [0])[0])]
    return [r(x) for x in comp(cap)], len(cap)


# ---------------------------------------------------------------- generation
def gen_amount(rng, k, room=None):
    """amount vector for k dimensions; sometimes aimed at the room (capacity - largest load) of an interval"""
    v = []
    for d in range(k):
        if room is not None and rng.chance(2, 3):
            v.append(max(0, room[d] + rng.choice([-1, 0, 0, 1])))
        else:
            v.append(rng.below(5))
    if not any(v):
        v[rng.below(k)] = 1 + rng.below(3)
    r = rng.below(12)
    if r == 0 and k > 1:
        v = v[:k - 1]                      # shorter than the capacity vector
        if not any(v):
            v[0] = 1
    elif r == 1 and k < 4:
        v = v + [rng.below(2)]             # longer than the capacity vector
    return v


def gen_case(rng):
    w = K.gen_world(rng)
    k = rng.choice([1, 1, 2, 2, 3])
    load = 'single' if (k == 1 and rng.chance(1, 2)) else 'multi'
    reloads = not rng.chance(1, 8)
    base = K.gen_tour(rng, w, maxlen=8, tight=False)
    n_rel = rng.choice([0, 1, 1, 2, 2, 3]) if base else 0
    rel_pos = set()
    for _ in range(n_rel):
        rel_pos.add(rng.below(len(base)))
    tour, pend = [], []
    for i, a in enumerate(base):
        b = {'job': a['job'], 'loc': a['loc'], 'svc': a['svc'], 'tws': a['tws'], 'twe': a['twe'], 'kind': 'job', 'dem': None}
        if i in rel_pos:
            b['kind'] = 'reload'
            b['job'] = 50 + i
        else:
            r = rng.below(20)
            reload_ahead = any(j > i for j in rel_pos)
            reload_behind = any(j < i for j in rel_pos)
            if pend and (rng.chance(1, 6) if reload_ahead and not reload_behind else rng.chance(3, 5)):
                b['dem'] = [None, None, None, pend.pop(rng.below(len(pend)))]
            elif r < 6:
                b['dem'] = [None, None, gen_amount(rng, k), None]
            elif r < 10:
                b['dem'] = [gen_amount(rng, k), None, None, None]
            elif r < 12:
                b['dem'] = [gen_amount(rng, k), None, gen_amount(rng, k), None]
            elif r < 17:
                q = gen_amount(rng, k)
                b['dem'] = [None, q, None, None]
                pend.append(q)
            elif r < 18:
                b['dem'] = [None, None, [0] * k, None]          # explicit zero vector
            elif r < 19:
                b['dem'] = [None, None, None, None]              # a demand whose components are all absent
            # else: no demand dimension at all
        tour.append(b)
    c = dict(w)
    c.update({'load': load, 'reloads': reloads, 'dims': k, 'tour': tour, 'cands': [], 'merge': []})
    c['veh'] = dict(w['veh'])
    # capacity around the largest load
    c['veh']['cap'] = [0] * k
    free = dict(c)
    free['veh'] = dict(c['veh'], cap=[10 ** 6] * DIM)
    _, loads, _ = simulate(free, sim_acts(c, before_ids(c)))
    mode = rng.below(10)
    cap = []
    for d in range(k):
        m = max([0] + loads[d])
        # the start loads of the intervals count too
        delta = rng.choice([0, 0, 1, 2, 5]) if mode < 7 else rng.choice([-1, 0, 1])
        cap.append(max(0, m + delta))
    if mode < 7:
        # make it exactly feasible: raise until the simulation accepts
        for _ in range(40):
            c['veh']['cap'] = cap
            oks, _, _ = simulate(c, sim_acts(c, before_ids(c)))
            if all(oks[:k]):
                break
            cap = [x + (0 if oks[d] else 1) for d, x in enumerate(cap)]
    r = rng.below(16)
    if r == 0 and k > 1:
        cap = cap[:k - 1]
    elif r == 1:
        cap = cap + [rng.below(3)]
    c['veh']['cap'] = None if rng.chance(1, 40) else cap
    # rooms per interval (for boundary amounts)
    rooms = []
    if c['veh']['cap'] is not None:
        acts = sim_acts(c, before_ids(c))
        cv = cap_vec(c)
        seg_max = []
        cur_seg = None
        _, loads, _ = simulate(c, acts)
        idx = 0
        for a in acts:
            if a['marker'] or cur_seg is None:
                seg_max.append([0] * DIM)
                cur_seg = seg_max[-1]
            for d in range(DIM):
                cur_seg[d] = max(cur_seg[d], loads[d][idx])
            idx += 1
        rooms = [[cv[d] - m[d] for d in range(DIM)] for m in seg_max]
    room = (lambda: rng.choice(rooms) if rooms and rng.chance(3, 4) else None)
    nloc = w['n']

    def place():
        return {'loc': rng.below(nloc), 'svc': rng.choice([0, 0, 3]), 'tws': [[0, 'inf']]}
    ntour = len(tour)

    def positions(multi=False):
        ps = ['any']
        if rng.chance(2, 3):
            ps.append(['concrete', rng.below(ntour + 3)])
        if not multi and rng.chance(1, 3):
            ps.append(['concrete', rng.below(ntour + 2)])
        return ps
    cands = []
    cands.append({'id': 90, 'kind': 'job', 'places': [place()], 'dem': [None, None, gen_amount(rng, k, room()), None], 'pos': positions()})
    cands.append({'id': 91, 'kind': 'job', 'places': [place()], 'dem': [gen_amount(rng, k, room()), None, None, None], 'pos': positions()})
    if rng.chance(1, 2):
        cands.append({'id': 92, 'kind': 'job', 'places': [place()],
                      'dem': [gen_amount(rng, k, room()), None, gen_amount(rng, k, room()), None], 'pos': positions()})
    q = gen_amount(rng, k, room())
    cands.append({'id': 93, 'multi': [{'id': 931, 'kind': 'job', 'places': [place()], 'dem': [None, q, None, None]},
                                      {'id': 932, 'kind': 'job', 'places': [place()], 'dem': [None, None, None, q]}],
                  'pos': positions(True)})
    if rng.chance(3, 4):
        cands.append({'id': 94, 'kind': 'reload', 'vehicle': 'v0', 'places': [place()], 'dem': None, 'pos': positions()})
    if rng.chance(1, 4):
        cands.append({'id': 95, 'kind': 'reload', 'vehicle': 'v1', 'places': [place()], 'dem': None, 'pos': ['any']})
    if rng.chance(1, 8):
        # a stand-alone job with dynamic pickup demand (the pragmatic format never builds one)
        cands.append({'id': 96, 'kind': 'job', 'places': [place()], 'dem': [None, gen_amount(rng, k, room()), None, None],
                      'pos': positions()})
    if rng.chance(1, 6):
        cands.append({'id': 97, 'kind': 'job', 'places': [place()], 'dem': None, 'pos': ['any']})
    c['cands'] = cands
    ncs = len(cands)
    c['merge'] = [[0, 1], [1, 0]] + [[rng.below(ncs), rng.below(ncs)] for _ in range(2)]
    return c


def generate(rng, tier, n):
    return [gen_case(rng) for _ in range(n)]


def corpus():
    n = 3
    dur = [0, 10, 10, 10, 0, 10, 10, 10, 0]

    def act(job, loc, dem, kind='job'):
        return {'job': job, 'loc': loc, 'svc': 0, 'tws': 0, 'twe': 'inf', 'dem': dem, 'kind': kind}

    def pl(loc):
        return [{'loc': loc, 'svc': 0, 'tws': [[0, 'inf']]}]
    base = {'n': n, 'dur': dur, 'dist': dur, 'load': 'multi', 'reloads': True, 'dims': 2,
            'veh': {'start': 0, 'end': 0, 'shift_start': 0, 'shift_end': 'inf', 'cap': [10, 5], 'costs': [0, 1, 1, 0, 0]},
            'tour': [act(1, 1, [None, None, [4, 1], None]), act(2, 2, [None, [3, 1], None, None]), act(50, 0, None, 'reload'),
                     act(3, 1, [None, None, [5, 2], None]), act(4, 2, [None, None, None, [3, 1]])],
            'cands': [
                {'id': 90, 'places': pl(1), 'dem': [None, None, [3, 1], None], 'kind': 'job', 'pos': ['any', ['concrete', 0], ['concrete', 3]]},
                {'id': 91, 'places': pl(2), 'dem': [[3, 1], None, None, None], 'kind': 'job', 'pos': ['any']},
                {'id': 92, 'multi': [{'id': 921, 'kind': 'job', 'places': pl(1), 'dem': [None, [2, 1], None, None]},
                                     {'id': 922, 'kind': 'job', 'places': pl(2), 'dem': [None, None, None, [2, 1]]}], 'pos': ['any']},
                {'id': 98, 'multi': [{'id': 981, 'kind': 'job', 'places': pl(1), 'dem': [None, [3, 1], None, None]},
                                     {'id': 982, 'kind': 'job', 'places': pl(2), 'dem': [None, None, None, [3, 1]]}], 'pos': ['any', ['concrete', 0]]},
                {'id': 93, 'kind': 'reload', 'vehicle': 'v0', 'places': pl(0), 'dem': None, 'pos': ['any', ['concrete', 2]]},
                {'id': 94, 'kind': 'reload', 'vehicle': 'v1', 'places': pl(0), 'dem': None, 'pos': ['any']}],
            'merge': [[0, 1], [0, 4], [0, 2], [1, 0]]}
    import json
    c2 = json.loads(json.dumps(base))
    c2['load'] = 'single'
    c3 = json.loads(json.dumps(base))
    c3['reloads'] = False
    return [base, c2, c3]


# ---------------------------------------------------------------- Gallina rendering
def ops(c):
    return 'SingleOps' if c['load'] == 'single' else 'MultiOps'


def show(c):
    return 'show_single' if c['load'] == 'single' else 'show_multi'


def g_load(c, v):
    if c['load'] == 'single':
        return z(0 if v is None else (list(v) + [0])[0])
    return 'ml_default' if v is None else '(ml_of %s)' % zlist(v)


def g_dem(c, dem):
    if dem is None:
        return 'None'
    return '(Some (mkGD %s %s %s %s))' % tuple(g_load(c, x) for x in dem)


def g_cap(c):
    cap = c['veh']['cap']
    return 'None' if cap is None else '(Some %s)' % g_load(c, cap)


def g_world(c):
    d = dict(c)
    d['veh'] = dict(c['veh'], cap=0)
    return K.g_world(d)


def g_gtact(c, a):
    core = '(%s, %s, %s, %s, %s, dzero)' % (z(a['job']), z(a['loc']), z(tz(a['svc'])), z(tz(a['tws'])), z(tz(a['twe'])))
    return '(%s, %s, %s)' % (core, 'true' if is_marker(c, a) else 'false', g_dem(c, a['dem']))


def g_acts(c):
    return '(%s : list (gtact %s))' % (lst(c['tour'], lambda a: g_gtact(c, a)), ops(c))


def g_gsingle(c, s):
    single = '(mkSingle %s %s dzero)' % (z(s['id']), lst(s['places'], K.g_place))
    marker = is_marker(c, s)
    assignable = marker and s.get('vehicle', 'v0') == 'v0'
    return '(@mkGSi %s %s %s %s %s)' % (ops(c), single, 'true' if marker else 'false', 'true' if assignable else 'false',
                                         g_dem(c, s.get('dem')))


def g_job(c, cd):
    if 'multi' in cd:
        return '(@GMulti %s %s)' % (ops(c), lst(cd['multi'], lambda s: g_gsingle(c, s)))
    return '(@GSingle %s %s)' % (ops(c), g_gsingle(c, cd))


def g_gact_plain(c, jid):
    """activity of a visiting order (only what the capacity statement reads)"""
    marker, dem, multi = act_table(c)[jid]
    return '(@mkGA %s (mkAct %s 0 0 0 0 dzero 0 0) %s %s %s)' % (ops(c), z(jid), 'true' if marker else 'false',
                                                                'true' if multi else 'false', g_dem(c, dem))


def g_spec(c, ids):
    t = lst(ids, lambda i: g_gact_plain(c, i))
    if c['load'] == 'single':
        cap = c['veh']['cap']
        return '(spec_check_single %s %s)' % (z((list(cap) + [0])[0]), t)
    return '(spec_check_multi %s %s)' % (zlist(comp(c['veh']['cap'])), t)


def g_thr(c):
    cap = c['veh']['cap']
    if cap is None:
        return g_load(c, None)
    t = threshold(c)
    if c['load'] == 'single':
        return z(t[0])
    return '(mkML %s %s)' % (zlist(t[0]), nat(t[1]))


def after_tours(c, impl):
    """visiting orders produced by really applying the accepted insertions (harness), in candidate / position order"""
    out = []
    if 'panic' in impl:
        return out
    for ci, cd in enumerate(c['cands']):
        for ei, e in enumerate(impl['cands'][ci]['evals']):
            if e['ok']:
                out.append((ci, ei, e['after']['tour']))
    return out


def model_term(c, impl):
    O, w = ops(c), g_world(c)
    has_ri = 'true' if c.get('reloads', True) else 'false'
    cap = g_cap(c)
    acts = g_acts(c)
    parts = ['run_tour %s %s %s %s %s %s' % (O, show(c), w, has_ri, cap, acts)]
    cands = []
    for ci, cd in enumerate(c['cands']):
        if 'multi' in cd:
            certs = []
            if 'panic' not in impl:
                subs = {s['id']: s for s in cd['multi']}
                for e in impl['cands'][ci]['evals']:
                    if e['ok']:
                        steps = []
                        for a in e['acts']:
                            s = subs[a['job']]
                            core = '(mkAct %s %s %s %s %s dzero 0 0)' % (z(s['id']), z(a['loc']), z(tz(a['svc'])), z(tz(a['tws'])), z(tz(a['twe'])))
                            steps.append('(%s, @mkGA %s %s false true %s)' % (nat(a['index']), O, core, g_dem(c, s['dem'])))
                        certs.append('[' + '; '.join(steps) + ']')
            cands.append('cand_multi %s %s %s %s PolicyLast %s %s %s' % (O, w, has_ri, cap, acts, lst(cd['multi'], lambda s: g_gsingle(c, s)),
                                                                       '[' + '; '.join(certs) + ']'))
        else:
            cands.append('cand_single %s %s %s %s PolicyLast %s %s %s' % (O, w, has_ri, cap, acts, g_gsingle(c, cd), lst(cd['pos'], K.g_pos)))
    parts.append('[' + '; '.join(cands) + ']')
    markers = [cd for cd in c['cands'] if 'multi' not in cd and cd.get('kind') == 'reload']
    n_as = len([m for m in markers if is_marker(c, m) and m.get('vehicle', 'v0') == 'v0'])
    n_ot = len(markers) - n_as
    parts.append('run_sol %s %s %s %s %s %s %s %s' % (O, w, has_ri, cap, g_thr(c), acts, nat(n_as), nat(n_ot)))
    parts.append('[' + '; '.join('run_merge %s %s %s %s' % (O, show(c), g_job(c, c['cands'][a]), g_job(c, c['cands'][b]))
                                 for a, b in c['merge']) + ']')
    if c['veh']['cap'] is not None:
        specs = [g_spec(c, before_ids(c))] + [g_spec(c, ids) for _, _, ids in after_tours(c, impl)]
    else:
        specs = []
    parts.append('[' + '; '.join(specs) + ']')
    return '(' + ', '.join(parts) + ')'


# ---------------------------------------------------------------- comparison
def canon_t(x):
    return 'inf' if x == 'inf' or (isinstance(x, int) and x >= INF // 2) else x


def parse_digest(digest):
    d = {'vuu': None, 'vl': []}
    for s in digest or []:
        if s.startswith('vuu:'):
            d['vuu'] = [list(p) for p in ast.literal_eval(s[4:])]
        elif s.startswith('vl1:'):
            d['vl'].append([[x] for x in ast.literal_eval(s[4:])])
        elif s.startswith('vlm:'):
            d['vl'].append([list(x) for x in ast.literal_eval(s[4:])])
    return d


def shown(v):
    """model rendering (load list, size) -> what the digest hook prints: load[..size]"""
    load, size = v
    return list(load)[:size]


def verdict_impl(v):
    return [] if v is None else [v[0], 1 if v[1] else 0]


def compare(c, impl, model):
    if 'panic' in impl:
        return 'implementation panicked: %s' % impl['panic']
    # (Coq prints left-nested pairs flat: the 4-tuple of run_tour is not a separate group)
    sched, ivs, states, _maxload, mcands, msol, mmerge, mspecs = model
    isched = [[canon_t(a), canon_t(b)] for a, b in impl['before']['sched']]
    msched = [[canon_t(a), canon_t(b)] for a, b in sched]
    if msched != isched:
        return 'schedule: impl %s model %s' % (isched, msched)
    dg = parse_digest(impl['digest'])
    if c.get('reloads', True):
        if dg['vuu'] != [list(p) for p in ivs]:
            return 'route intervals: impl %s model %s' % (dg['vuu'], ivs)
    elif dg['vuu'] is not None:
        return 'route intervals stored although the feature has none: %s' % dg['vuu']
    mst = [[shown(v) for v in vec] for vec in states]
    if sorted(map(str, dg['vl'])) != sorted(map(str, mst)):
        return 'cached load states (current / max-past / max-future): impl %s model %s' % (dg['vl'], mst)
    # threshold computed by the harness with the real Mul<Float>
    thr = threshold(c)
    if thr is not None:
        it = impl['threshold']
        got = [list(it), 1] if c['load'] == 'single' else [list(it['load']), it['size']]
        exp = [list(thr), 1] if c['load'] == 'single' else [list(thr[0]), thr[1]]
        if got != exp:
            return 'load schedule threshold: impl %s expected %s' % (got, exp)
    for ci, cd in enumerate(c['cands']):
        ic = impl['cands'][ci]
        mroute, mprobes, mevals = mcands[ci]
        if verdict_impl(ic['route']) != list(mroute):
            return 'candidate %s route-level verdict: impl %s model %s' % (cd['id'], ic['route'], mroute)
        ip = [[p[0], p[1]] + verdict_impl(p[2]) for p in ic['probes']]
        if ip != [list(p) for p in mprobes]:
            return 'candidate %s activity-level verdicts per leg: impl %s model %s' % (cd['id'], ip, mprobes)
        if 'multi' in cd:
            k = 0
            for e in ic['evals']:
                if e['ok']:
                    ok, cost = mevals[k]
                    k += 1
                    if ok != 1:
                        return 'candidate %s: multi insertion %s is not a certificate for the model' % (cd['id'], e['acts'])
                    if e['cost'][0] != cost:
                        return 'candidate %s multi insertion cost: impl %s model %s' % (cd['id'], e['cost'][0], cost)
                elif list(mroute):
                    if [e['code'], 1 if e['stopped'] else 0] != [mroute[0], 1]:
                        return 'candidate %s: route-level failure expected %s, impl %s' % (cd['id'], mroute, e)
        else:
            for ei, e in enumerate(ic['evals']):
                res = mevals[ei]
                if e['ok']:
                    a = e['acts'][0]
                    got = [1, a['index'], a['place'], a['loc'], canon_t(a['svc']), canon_t(a['tws']), canon_t(a['twe']), e['cost'][0]]
                    exp = [canon_t(x) for x in res]
                else:
                    got = [0, e['code'], 1 if e['stopped'] else 0]
                    exp = list(res)
                if got != exp:
                    return 'candidate %s position %s: impl %s model %s' % (cd['id'], e['pos'], got, exp)
    # solution level
    ok, tour_after, counts = msol
    if ok != 1:
        return 'model: accept_solution_state does not settle within 100 passes'
    if impl['sol']['tour'] != list(tour_after):
        return 'accept_solution_state, tour: impl %s model %s' % (impl['sol']['tour'], tour_after)
    markers = [cd for cd in c['cands'] if 'multi' not in cd and cd.get('kind') == 'reload']
    as_ids = sorted(m['id'] for m in markers if is_marker(c, m) and m.get('vehicle', 'v0') == 'v0')
    ot_ids = sorted(m['id'] for m in markers if not (is_marker(c, m) and m.get('vehicle', 'v0') == 'v0'))
    req, ign, oreq, oign = counts
    exp_req = (as_ids if (req > 0) else []) + (ot_ids if oreq > 0 else [])
    exp_ign = (as_ids if (req == 0) else []) + (ot_ids if oreq == 0 else [])
    if as_ids or ot_ids:
        if sorted(impl['sol']['required']) != sorted(exp_req) or sorted(impl['sol']['ignored']) != sorted(exp_ign):
            return 'accept_solution_state, marker jobs: impl required %s ignored %s, model required %s ignored %s (counts %s)' % (
                impl['sol']['required'], impl['sol']['ignored'], exp_req, exp_ign, counts)
    # merge
    for (a, b, r), m in zip(impl['merge'], mmerge):
        ok, jid, dem = m
        if r['ok'] != (ok == 1):
            return 'merge %s %s: impl %s model %s' % (a, b, r, m)
        if r['ok'] and 'multi' not in c['cands'][a]:
            if r['id'] != jid:
                return 'merge %s %s: job id impl %s model %s' % (a, b, r['id'], jid)
            idem = r['dem']
            if idem is None:
                if dem:
                    return 'merge %s %s: demand impl None model %s' % (a, b, dem)
            else:
                gi = [x if c['load'] == 'single' else x['load'][:x['size']] for x in idem]
                gm = [shown(v) for v in dem]
                if [list(x) for x in gi] != gm:
                    return 'merge %s %s: demand impl %s model %s' % (a, b, gi, gm)
    # the Python simulation vs the Coq checker, every tour judged by the oracle
    if c['veh']['cap'] is not None:
        tours = [before_ids(c)] + [ids for _, _, ids in after_tours(c, impl)]
        for ids, spec in zip(tours, mspecs):
            oks, loads, _ = simulate(c, sim_acts(c, ids))
            dims = 1 if c['load'] == 'single' else DIM
            for d in range(dims):
                cok, cloads = spec[d]
                if (cok == 'true') != oks[d] or list(cloads) != loads[d]:
                    return 'python interval simulation disagrees with Spec.Intervals on tour %s, dimension %d: python %s %s, Coq %s %s' % (
                        ids, d, oks[d], loads[d], cok, cloads)
    return None


# ---------------------------------------------------------------- oracle
def cand_kind(c, cd):
    if 'multi' in cd:
        return 'shipment'
    if cd.get('kind') == 'reload':
        return 'reload-marker'
    d = eff_dem(c, cd['dem'])
    if d is None:
        return 'no-demand'
    ps, pd, ds, dd = dem4(d)
    if any(pd) or any(dd):
        return 'standalone-dynamic'
    if any(ps) and any(ds):
        return 'exchange'
    if any(ps):
        return 'static-pickup'
    if any(ds):
        return 'static-delivery'
    return 'no-demand'


def expected_after(c, e):
    ids = before_ids(c)
    for a in e['acts']:
        ids = ids[:a['index'] + 1] + [a['job']] + ids[a['index'] + 1:]
    return ids


def judge(c, impl, check):
    """`check(ids) -> (oks, first overloaded interval per dim)`; returns violations"""
    v = []
    if 'panic' in impl:
        return [{'class': 'panic', 'what': 'harness / evaluator panicked: ' + impl['panic']}]
    if c['veh']['cap'] is None:
        return v
    ids0 = before_ids(c)
    if impl['tour'] != ids0:
        v.append({'class': 'tour-not-as-built', 'what': 'tour %s, built from %s' % (impl['tour'], ids0)})
        return v
    dims = 1 if c['load'] == 'single' else DIM
    ok0, _ = check(ids0)
    if not all(ok0[:dims]):
        return v               # the property speaks about tours that satisfy the capacity statement
    for ci, cd in enumerate(c['cands']):
        for e in impl['cands'][ci]['evals']:
            if not e['ok']:
                continue
            ids = e['after']['tour']
            if ids != expected_after(c, e):
                v.append({'class': 'applied-tour-differs-from-reported-indices',
                          'what': 'candidate %s: after %s, reported insertions give %s' % (cd['id'], ids, expected_after(c, e))})
                continue
            oks, bad = check(ids)
            if not all(oks[:dims]):
                d = [i for i in range(dims) if not oks[i]][0]
                # which interval is overloaded relative to the one that received the (first) activity
                pos = e['acts'][0]['index'] + 1
                marks = [i for i, j in enumerate(ids) if act_table(c)[j][0]]
                recv = len([m for m in marks if m <= pos])
                if cand_kind(c, cd) == 'reload-marker':
                    recv = len([m for m in marks if m < pos])
                where = 'receiving-interval' if bad[d] == recv else ('later-interval' if bad[d] > recv else 'earlier-interval')
                v.append({'class': 'unsound-capacity-%s-%s' % (cand_kind(c, cd), where),
                          'what': 'candidate %s (%s) accepted at %s: dimension %d of interval %s of the resulting tour %s exceeds the capacity %s'
                                  % (cd['id'], cand_kind(c, cd), [a['index'] for a in e['acts']], d, bad[d], ids, c['veh']['cap'])})
    return v


def oracle(c, impl):
    def check(ids):
        oks, _, bad = simulate(c, sim_acts(c, ids))
        return oks, bad
    return judge(c, impl, check)


def oracle_model(c, impl, model):
    """the same property judged by the verified Coq checker (Spec.Intervals) on the same visiting orders; reported only where the
    Python simulation did not already report (the two are compared with each other in `compare`)"""
    if 'panic' in impl or c['veh']['cap'] is None:
        return []
    mspecs = model[7]
    tours = [before_ids(c)] + [ids for _, _, ids in after_tours(c, impl)]
    table = {}
    for ids, spec in zip(tours, mspecs):
        oks = [s[0] == 'true' for s in spec] + [True] * DIM
        table[tuple(ids)] = oks[:DIM]

    def check(ids):
        oks = table.get(tuple(ids))
        if oks is None:
            return [True] * DIM, [None] * DIM
        # interval index from the Python simulation (only used for the class name)
        _, _, bad = simulate(c, sim_acts(c, ids))
        return oks, [b if b is not None else 0 for b in bad]
    mine = judge(c, impl, check)
    py = {x['what'] for x in oracle(c, impl)}
    return [x for x in mine if x['what'] not in py]


def nontrivial_key(c, impl):
    if 'panic' in impl or not c['tour']:
        return None
    vs = [p[2] is None for ic in impl['cands'] for p in ic['probes']]
    if not (any(vs) and not all(vs)):
        return None
    return (str(c['tour']), str(c['cands']), str(c['veh']), c['load'], c.get('reloads', True))


def classify(c, impl):
    nrel = len([a for a in c['tour'] if a.get('kind') == 'reload'])
    labs = ['load=%s' % c['load'], 'dims=%d' % c['dims'], 'reloads_in_tour=%d' % nrel, 'feature_reloads=%s' % c.get('reloads', True),
            'closed' if c['veh']['end'] is not None else 'open']
    if 'panic' not in impl and c['veh']['cap'] is not None:
        oks, _, _ = simulate(c, sim_acts(c, before_ids(c)))
        labs.append('tour_capacity_ok=%s' % all(oks))
        for ci, cd in enumerate(c['cands']):
            for e in impl['cands'][ci]['evals']:
                labs.append('%s:%s' % (cand_kind(c, cd), 'success' if e['ok'] else 'fail(code=%s,stopped=%s)' % (e['code'], e['stopped'])))
        # shipments of the tour that cross a reload
        open_, crossing = {}, 0
        for a in c['tour']:
            if is_marker(c, a):
                for q in open_:
                    open_[q] = True
            d = a['dem']
            if d and d[1]:
                open_[str(d[1])] = False
            if d and d[3] and open_.pop(str(d[3]), False):
                crossing += 1
        labs.append('shipments_crossing_a_reload=%d' % min(crossing, 2))
        labs.append('shipments_on_board_at_a_reload=%d' % min(2, len([q for q in open_ if open_[q]]) + crossing))
        for ci, cd in enumerate(c['cands']):
            if 'multi' in cd:
                for e in impl['cands'][ci]['evals']:
                    if e['ok']:
                        ids = e['after']['tour']
                        i0, i1 = ids.index(cd['multi'][0]['id']), ids.index(cd['multi'][1]['id'])
                        if any(act_table(c)[j][0] for j in ids[i0:i1]):
                            labs.append('accepted_shipment_crosses_a_reload')
    return labs


def shrink_candidates(c):
    for i in range(len(c['tour'])):
        d = dict(c)
        d['tour'] = c['tour'][:i] + c['tour'][i + 1:]
        yield d
    for i in range(len(c['cands'])):
        if len(c['cands']) > 1:
            d = dict(c)
            d['cands'] = c['cands'][:i] + c['cands'][i + 1:]
            d['merge'] = []
            yield d
    for i, cd in enumerate(c['cands']):
        if len(cd.get('pos', [])) > 1:
            for k in range(len(cd['pos'])):
                d = dict(c)
                d['cands'] = [dict(x) for x in c['cands']]
                d['cands'][i]['pos'] = cd['pos'][:k] + cd['pos'][k + 1:]
                yield d
