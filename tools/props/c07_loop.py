"""C07 sub-stream `c07_loop` — the two loops of the evolution (EvolutionSimulator::run initial phase, Iterative::run) driven through
the REAL EvolutionConfigBuilder / VrpConfigBuilder with USER-SUPPLIED pluggable pieces (public traits): a scripted HyperHeuristic
whose search_many / diversify_many hand over 0, 1 or many solutions per generation, a scripted HeuristicPopulation (parents
selected, selection phase), a scripted Termination wrapper (observes every evaluation, optional criterion on the statistics),
logging InitialOperator wrappers; max-generations / max-time / quota polls.  Registered by SUBSTREAMS in tools/props/c07.py;
theorems are in Properties/C07.v (C07_loop_calls_are_counted, C07_every_iteration_is_counted, C07_evolve_returns_valid, ...).

compare : Evolution.run_loop (the SAME evolve the theorems are about; what the scripted pieces did in THIS run - parents selected,
          offspring handed over, polls inside a generation, operator drawn by random.weighted, clock answers - is fed in as the
          oracles) predicts: outcome (solution / "cannot find any solution" / no initial operator / panic), the number of loop
          iterations (= the implementation's own count of search_many calls, independent of the telemetry), generations counted by
          the telemetry, metrics.generations, metrics.evolution numbers, quota polls, individuals handed to the population, and the
          COMPLETE sequence of calls on the pluggable pieces with their arguments (is_termination with the statistics seen and the
          answer, estimate, create(operator), add, select, diversify_many, search_many(statistics, parents, returned), add_all(size),
          population.on_generation(statistics)); Evolution.run_greedy = which individual the real Greedy population ranks first.
oracle  : (independent of the model) a solution is returned; loop iterations <= max_generations (N + 1 = known finding C07-F1);
          the loop ends by itself (watchdog); no iteration starts after the quota answered true; the returned best is as good as
          everything ever handed to the population (scalar domain); vrp domain: the verified checker valid_b accepts the document.
"""
import json
import os

from props import e2e, c01, c02, c03, c07

ID = 'C07'            # set by the driver to the parent's id
HARNESS = 'c07_loop'
COQ_IMPORTS = 'From VRP Require Import Base.Tac Model.Core Spec.Valid Model.Homes Model.Evolution.'
MODEL_TARGETS = ['theories/Spec/Valid.vo', 'theories/Model/Evolution.vo']
MODEL_NEEDS_IMPL = True
SHARD = 40
SIZES = {'quick': 260, 'thorough': 2400, 'search': 600}
RULE = ('cases: ~88% scalar domain (rosomaxa::example VectorContext, 1-3 initial operators with weights 0-3, 0-2 supplied individuals, '
        'initial.max_size 0-5), ~12% vrp domain (generated pragmatic problems of 2-4 jobs, the default initial operators wrapped, '
        'VrpConfigBuilder + Solver::solve); max_generations 1-8 (sometimes 0 or absent), in a quarter of the cases a user-supplied '
        'termination `statistics().generation >= L`, in 15% a max-time of an hour; a scripted hyper-heuristic around DynamicSelective / StaticSelective / a copying '
        'one that per generation does not search at all, drops everything, hands the offspring over once or 2-3 times, with scripts '
        'that are all-empty, all-full, alternating, empty only in the first / last generation; scripted diversify_many (0-2 '
        'solutions) with a scripted selection phase; a scripted population (Greedy / Elitism, selection size 1-3) that selects no / '
        'fewer parents in scripted generations; track_population 1-5; quota never / true from poll k on for k around every loop poll. '
        'Corpus: regression cases of C07-F2 (max_time = 1 s, run started 80 ms after the configuration was built) and, operator level, of '
        'C07-F3 (domain breakop: the last customer job of a tour with an optional break is taken out and re-inserted elsewhere by the real '
        'RecreateWithCheapest; no model trace, the oracle looks for a tour that serves only a break). '
        'non-trivial = distinct cases with at least one generation in which the heuristic handed over nothing.')
TRUSTED = ['c07_loop: harness/src/bin/c07_loop.rs - the scripted HyperHeuristic / HeuristicPopulation / Termination / InitialOperator '
           'wrappers (public traits) append every call to one event log; CountingQuota; poll sites from std::backtrace symbol names',
           'c07_loop: what the scripted pieces did in a run (parents, hand-over sizes, polls inside a generation, operator drawn by '
           'random.weighted, clock answers) is read from the run\'s own log and fed to the model as its oracles',
           'c07_loop: scalar fitness values are integers (sum of squares of integer coordinates moved by integer steps)']
ASSUMPTIONS = ['the built-in hyper-heuristics return one offspring per selected parent (checked on every run: `inner` = `parents`)',
               'populations keep the best individual they ever received (modelled: everything ever added; the real Greedy is modelled '
               'exactly: greedy_best)']

_ROOT = os.path.dirname(os.path.dirname(os.path.dirname(os.path.abspath(__file__))))
_COV = {'empty_generations': 0, 'cases_with_empty_generation': 0, 'iterations': 0}


# ------------------------------------------------------------------------------------------------ generation
def _script(rng, n, values, kind=None):
    kind = kind or rng.choice(['random', 'random', 'random', 'all0', 'alt', 'first0', 'last0', 'full'])
    lo = [v for v in values if v <= 0] or [0]
    hi = [v for v in values if v > 0] or [1]
    if kind == 'all0':
        return [rng.choice(lo) for _ in range(n)]
    if kind == 'alt':
        return [rng.choice(lo) if i % 2 == 0 else rng.choice(hi) for i in range(n)]
    if kind == 'first0':
        return [rng.choice(lo)] + [rng.choice(hi) for _ in range(n - 1)]
    if kind == 'last0':
        return [rng.choice(hi) for _ in range(n - 1)] + [rng.choice(lo)]
    if kind == 'full':
        return [rng.choice(hi) for _ in range(n)]
    return [rng.choice(values) for _ in range(n)]


def gen_config(rng, domain):
    r = rng.below(20)
    N = None if r == 0 else (0 if r == 1 else rng.choice([1, 1, 2, 2, 3, 3, 4, 5, 8]))
    L = None
    if N is None or rng.chance(1, 4):
        L = rng.range(1, (N or 3) + 2)
    lim = min(x for x in (N, L) if x is not None)
    n = lim + 3
    cfg = {'max_generations': N, 'user_termination': L, 'seed': rng.below(1000),
           'hyper': {'inner': rng.choice(['dynamic', 'dynamic', 'static', 'copy']),
                     'script': _script(rng, n, [-1, 0, 0, 1, 1, 2, 3]), 'default': rng.choice([1, 1, 1, 0, -1])},
           'diverse': {'script': _script(rng, n, [-1, 0, 0, 0, 1, 2], 'random'), 'default': rng.choice([0, 0, -1])},
           'population': {'kind': rng.choice(['greedy', 'greedy', 'elitism']), 'selection_size': rng.choice([1, 1, 2, 3]),
                          'script': _script(rng, n, [-1, -1, -1, 0, 1, 2], 'random'), 'default': -1,
                          'phase': {'script': _script(rng, n, [0, 0, 1, 2], 'random'), 'default': 0}},
           'init_size': rng.choice([0, 1, 1, 2, 3, 4, 5]), 'track_population': rng.choice([1, 1, 1, 2, 3, 5]),
           'weights': [rng.below(4) for _ in range(4)]}
    if rng.chance(3, 20):
        cfg['max_time'] = 3600          # a time limit that is never hit: MaxTime stands in the composite, its estimate stays below initial.quota
    if domain == 'vrp':
        cfg['init_size'] = rng.choice([1, 2, 4])
        cfg['init_ops'] = rng.choice([None, None, 1, 2])
        cfg['hyper']['inner'] = rng.choice(['dynamic', 'static', 'copy'])
        cfg['quota_after_polls'] = rng.choice([None, None, rng.below(12), rng.below(60), rng.below(200)])
    else:
        cfg['quota_after_polls'] = None if rng.chance(1, 2) else rng.below(lim + 4)
    return cfg


def gen_case(rng, tier):
    if rng.chance(12, 100):
        p = e2e.gen_checked_problem(rng, njobs=rng.choice([2, 3, 3, 4]), features=())
        c = {'op': 'loop', 'domain': 'vrp', 'problem': p['problem'], 'matrices': p['matrices'], 'config': gen_config(rng, 'vrp')}
        c['meta'] = p.get('meta')
        return c
    nops = rng.choice([0, 1, 1, 2, 2, 3]) if rng.chance(1, 10) else rng.choice([1, 1, 2, 3])
    pt = lambda: [rng.range(-6, 6), rng.range(-6, 6)]
    sc = {'init': [pt() for _ in range(nops)]}
    if rng.chance(3, 10):
        sc['individuals'] = [pt() for _ in range(rng.range(1, 2))]
    return {'op': 'loop', 'domain': 'scalar', 'scalar': sc, 'config': gen_config(rng, 'scalar')}


def generate(rng, tier, n):
    return [gen_case(rng, tier) for _ in range(n)]


def corpus():
    base = {'quota_after_polls': None, 'seed': 1, 'diverse': {'script': [], 'default': 0}, 'user_termination': None,
            'population': {'kind': 'greedy', 'selection_size': 1, 'script': [], 'default': -1}, 'init_size': 1}
    sc = {'init': [[3, 4]]}
    out = []
    # a heuristic that keeps offspring only in every second generation (seeded change C07-6): max_generations 1, 3, 10
    for N in (1, 3, 10):
        out.append({'op': 'loop', 'domain': 'scalar', 'scalar': sc,
                    'config': dict(base, max_generations=N, hyper={'inner': 'dynamic', 'script': [i % 2 for i in range(2 * N + 6)], 'default': 1})})
    # a heuristic that never hands anything over: the run still ends at the limit with the initial solution
    out.append({'op': 'loop', 'domain': 'scalar', 'scalar': sc,
                'config': dict(base, max_generations=4, hyper={'inner': 'dynamic', 'script': [], 'default': 0})})
    # ... and one that does not even search, with a population that selects no parent
    out.append({'op': 'loop', 'domain': 'scalar', 'scalar': sc,
                'config': dict(base, max_generations=3, hyper={'inner': 'copy', 'script': [], 'default': -1},
                               population={'kind': 'elitism', 'selection_size': 2, 'script': [0, 0, 0, 0, 0], 'default': 0})})
    # track_population = 3 with a supplied individual; diversify_many in the exploration phase
    out.append({'op': 'loop', 'domain': 'scalar', 'scalar': {'init': [[3, 4], [1, 1]], 'individuals': [[5, 5]]},
                'config': dict(base, max_generations=4, init_size=5, weights=[1, 3], track_population=3,
                               hyper={'inner': 'dynamic', 'script': [0, 3, 0, 1], 'default': 1},
                               diverse={'script': [2, 0, 1], 'default': 0},
                               population={'kind': 'greedy', 'selection_size': 1, 'script': [], 'default': -1,
                                           'phase': {'script': [1, 0, 1, 1], 'default': 0}})})
    # the real Greedy population receives three different offspring per generation (selection size 3): the best of them is kept
    for seed in (3, 11, 29, 47, 101, 233, 377, 610):
        for N in (2, 5):
            out.append({'op': 'loop', 'domain': 'scalar', 'scalar': {'init': [[40, -35]]},
                        'config': dict(base, seed=seed, max_generations=N, hyper={'inner': 'dynamic', 'script': [], 'default': 1},
                                       population={'kind': 'greedy', 'selection_size': 3, 'script': [], 'default': -1})})
    # C07-F3 (repaired by /repo 1ddcae7), operator level and deterministic: the last customer job of a tour whose optional break stands
    # at the departure location is taken out and re-inserted by the real RecreateWithCheapest into the other (cheaper) vehicle;
    # the lone break must not stay behind as a tour of its own
    out.append(breakop_case())
    # track_population = 0: `generation % track_population` panics (modelled: EPanic; not judged: invalid telemetry configuration)
    out.append({'op': 'loop', 'domain': 'scalar', 'scalar': sc,
                'config': dict(base, max_generations=2, track_population=0, hyper={'inner': 'dynamic', 'script': [], 'default': 1})})
    return out


def breakop_case():
    def veh(tid, fixed, time, breaks):
        sh = {'start': {'earliest': '1970-01-01T00:00:00Z', 'location': {'index': 0}},
              'end': {'latest': '1970-01-01T01:00:00Z', 'location': {'index': 0}}}
        if breaks:
            sh['breaks'] = [{'time': ['1970-01-01T00:00:00Z', '1970-01-01T00:10:00Z'], 'places': [{'duration': 5}]}]
        return {'typeId': tid, 'vehicleIds': [tid + '_1'], 'profile': {'matrix': 'car'},
                'costs': {'fixed': fixed, 'distance': 1, 'time': time}, 'shifts': [sh], 'capacity': [10]}
    jobs = [{'id': 'A', 'services': [{'places': [{'location': {'index': 0}, 'duration': 10}]}]}]
    obj = [{'type': 'minimize-unassigned'}, {'type': 'minimize-cost'}]
    p1 = {'plan': {'jobs': jobs}, 'fleet': {'vehicles': [veh('v1', 10, 100, True)], 'profiles': [{'name': 'car'}]}, 'objectives': obj}
    p2 = {'plan': {'jobs': jobs}, 'fleet': {'vehicles': [veh('v1', 10, 100, True), veh('v2', 1, 0, False)], 'profiles': [{'name': 'car'}]},
          'objectives': obj}
    return {'op': 'loop', 'domain': 'breakop', 'problem1': p1, 'problem2': p2, 'job': 'A',
            'matrices': [{'profile': 'car', 'travelTimes': [0], 'distances': [0]}], 'config': {}}


def only_breaks(jobs):
    return bool(jobs) and all('_break_' in j for j in jobs)


def breakop_holds(impl):
    """the case is not vacuous: the job shared a tour with a break, and taking it out left the break alone"""
    return isinstance(impl, dict) and any(len(r[1]) > 1 and any('_break_' in j for j in r[1]) for r in impl.get('before') or []) \
        and any(only_breaks(r[1]) for r in impl.get('removed') or [])


# ------------------------------------------------------------------------------------------------ reading a run
def _at(script, g, default=None):
    items = (script or {}).get('script') or []
    d = (script or {}).get('default')
    d = default if d is None else d
    return items[g] if g < len(items) and items[g] is not None else d


def split_events(events, taken):
    """event string -> (checks of the initial phase [(created?)], [iteration strings]); the supplied individuals come first ('a' x
    taken), every initial slot is 't' 'e' followed by 'c' 'a' when a solution was built; a 't' that is not followed by 'e' starts
    an iteration of Iterative::run"""
    i = taken
    checks = []
    while i + 1 < len(events) and events[i] in 'tT' and events[i + 1] == 'e':
        created = events[i + 2:i + 4] == 'ca' or events[i + 2:i + 3] == 'a'      # vrp without operator wrappers: no 'c'
        checks.append(created)
        i += 2 + (len('ca') if events[i + 2:i + 4] == 'ca' else (1 if created else 0))
    its = []
    cur = ''
    for ch in events[i:]:
        if ch in 'tT' and cur:
            its.append(cur)
            cur = ''
        cur += ch
    if cur:
        its.append(cur)
    return checks, its


def n_individuals(c):
    return len((c.get('scalar') or {}).get('individuals') or []) if c.get('domain') == 'scalar' else 0


def n_ops(c, impl=None):
    if c.get('domain') == 'scalar':
        n = len((c.get('scalar') or {}).get('init') or [])
    else:
        n = 4
        # the number of default operators depends on the goal (alternative objectives): take what the run shows
        if isinstance(impl, dict) and isinstance(impl.get('n_ops'), int) and 'events' in impl:
            return impl['n_ops']
    k = c['config'].get('init_ops')
    return n if k is None else min(n, k)


def read_run(c, impl):
    """the oracles of the model, from the run's own log (None when the run left no usable log)"""
    if not isinstance(impl, dict) or not isinstance(impl.get('events'), str) or not isinstance(impl.get('gens'), list):
        return None
    cfg = c['config']
    ev = impl['events']
    gens = impl['gens']
    taken = min(n_individuals(c), cfg.get('init_size', 4))
    checks, its = split_events(ev, taken)
    creates = impl.get('creates') or []
    term = impl.get('term') or []
    N = cfg.get('max_generations')
    # clock answers, in the order MaxTime::is_termination was evaluated (MaxGeneration stands before it: `any` short-circuits)
    time = []
    if cfg.get('max_time') is not None:
        for stat, answer in term:
            if N is not None and stat >= N:
                continue
            time.append(bool(answer))
    # per initial slot: estimate > initial.quota stopped the phase although is_termination was false
    iq = [False] * taken
    for i, created in enumerate(checks):
        answer = bool(term[i][1]) if i < len(term) else False
        iq.append((not created) and (not answer))
    sites = impl.get('poll_sites') or []
    pos = [i + 1 for i, s in enumerate(sites) if s == 'iterative']
    init_polls = (pos[0] - 1) if pos else len(sites)
    gen_polls = [pos[i + 1] - pos[i] - 1 for i in range(len(pos) - 1)]
    exploit = []
    for s in its:
        if 's' in s:
            exploit.append('d' not in s)
    return {'taken': taken, 'weighted': [0] * taken + list(creates), 'time': time, 'iq': iq, 'init_polls': init_polls,
            'gen_polls': gen_polls, 'parents': [g['parents'] for g in gens],
            'inner': [_at(cfg.get('hyper'), i, 1) >= 0 for i in range(len(gens))],
            'mult': [max(0, _at(cfg.get('hyper'), i, 1)) for i in range(len(gens))],
            'exploit': exploit, 'diverse': [g['diverse'] for g in gens], 'last_poll_iterative': (not sites) or sites[-1] == 'iterative'}


# ------------------------------------------------------------------------------------------------ model
def _nat(n):
    return '%d%%nat' % n


def _nats(xs):
    return '[' + '; '.join(_nat(x) for x in xs) + ']'


def _bools(xs):
    return '[' + '; '.join('true' if x else 'false' for x in xs) + ']'


def _onat(x):
    return 'None' if x is None else '(Some %s)' % _nat(x)


def _sol(impl):
    return impl.get('solution') if isinstance(impl, dict) and impl.get('outcome') == 'solution' and isinstance(impl.get('solution'), dict) else None


def _fits(impl):
    fs = (impl or {}).get('fits') if isinstance(impl, dict) else None
    if not fs or any((f is None) or f != int(f) or f < 0 or f > 10 ** 12 for f in fs):
        return None
    return [int(f) for f in fs]


def model_term(c, impl):
    if c.get('domain') == 'breakop':
        return None                  # operator-level regression case: no model trace, the oracle judges the tours
    cfg = c['config']
    s = _sol(impl)
    if c.get('domain') == 'vrp' and s is not None and not e2e.unsupported(c, s):
        ids = e2e.Ids(c)
        valid = '(valid_b %s %s)' % (e2e.g_problem(c, ids), e2e.g_solution(c, s, ids))
    else:
        valid = '(@nil violation)'
    r = read_run(c, impl) or {'taken': 0, 'weighted': [], 'time': [], 'iq': [], 'init_polls': 0, 'gen_polls': [], 'parents': [],
                              'inner': [], 'mult': [], 'exploit': [], 'diverse': []}
    fuel = len(r['parents']) + 3
    if len(r['parents']) > MAX_MODEL_ITERATIONS:
        # far more iterations than any generated limit allows (a loop that does not end by itself): not evaluated, compare reports it
        return '(%s, (9%%nat, (0%%nat, 0%%nat, 0%%nat, @nil nat, 0%%nat, 0%%nat, @nil (nat * nat * nat * nat))), 0%%nat)' % valid
    loop = '(run_loop %s %s %s %s %s %s %s %s %s %s %s %s %s %s %s %s %s %s %s)' % (
        _onat(cfg.get('max_generations')), _onat(cfg.get('user_termination')), 'true' if cfg.get('max_time') is not None else 'false',
        _nat(n_ops(c, impl)), _nat(cfg.get('init_size', 4)), _nat(n_individuals(c)), _nat(cfg.get('track_population', 1)), _nat(fuel),
        _nat(r['init_polls']), _bools(r['time']), _bools(r['iq']), _nats(r['weighted']), _nats(r['gen_polls']), _nats(r['parents']),
        _bools(r['inner']), _nats(r['mult']), _bools(r['exploit']), _nats(r['diverse']), _onat(cfg.get('quota_after_polls')))
    fs = _fits(impl) if c.get('domain') == 'scalar' else None
    greedy = '(run_greedy %s)' % _nats(fs) if fs else '0%nat'
    return '(%s, %s, %s)' % (valid, loop, greedy)


MAX_MODEL_ITERATIONS = 400
EV = {0: None, 1: 'e', 2: 'c', 3: 'a', 4: 'p', 5: 'd', 6: 's', 7: 'A', 8: 'g'}


def render_log(log):
    return ''.join(('T' if a else 't') if k == 0 else EV[k] for k, s, a, b in log)


def _panic_expected(c):
    return c['config'].get('track_population', 1) == 0 and n_ops(c) >= 1


def compare(c, impl, model):
    if c.get('domain') == 'breakop':
        return None
    _, (code, (gens, iters, metric, evo, polls, poplen, log)), gidx = model
    cfg = c['config']
    if isinstance(impl, dict) and 'panic' in impl:
        if code == 4 and 'divisor of zero' in str(impl['panic']):
            return None
        return 'implementation panicked (%s); model outcome code %d' % (str(impl['panic'])[:200], code)
    if input_rejected(impl):
        return None
    if code == 9:
        return 'the run made %s loop iterations: too many to evaluate the model on (limit %d)' % (impl.get('search_calls'), MAX_MODEL_ITERATIONS)
    if code == 4:
        return 'model: panic (track_population = 0); implementation returned %s' % impl.get('outcome')
    if code == 3:
        return 'model: the loop needs more iterations than the implementation made (%d search_many calls)' % impl.get('search_calls', -1)
    err = str(impl.get('error'))
    if code == 2:
        return None if (impl.get('outcome') == 'error' and 'at least one initial method' in err) else \
            'model: no initial operator error; implementation: %s %s' % (impl.get('outcome'), err[:200])
    if impl.get('watchdog'):
        return ('the loop did not end by itself: the watchdog of the scripted heuristic stopped it after %s search_many calls '
                '(model: %d iterations)' % (impl.get('search_calls'), iters))
    if code == 0 and impl.get('outcome') != 'solution':
        return 'model: a solution is returned; implementation: %s' % err[:300]
    if code == 1 and not (impl.get('outcome') == 'error' and 'cannot find any solution' in err):
        return 'model: error "cannot find any solution"; implementation: %s %s' % (impl.get('outcome'), err[:200])
    r = read_run(c, impl)
    if r is None:
        return 'the run left no log'
    if not r['last_poll_iterative']:
        return 'the last quota poll of the run was not made by Iterative::run: %s' % json.dumps((impl.get('poll_sites') or [])[-6:])
    if impl.get('search_calls') != iters:
        return 'loop iterations: implementation made %s search_many calls, model %d' % (impl.get('search_calls'), iters)
    if len(impl.get('pop_on_generation') or []) != gens:
        return 'generations counted: implementation called population.on_generation %d times, model counted %d generations' % (
            len(impl.get('pop_on_generation') or []), gens)
    ev = render_log(log)
    if c.get('domain') == 'vrp' and 'c' not in impl['events']:
        ev = ev.replace('c', '')
    if impl['events'] != ev:
        k = next((i for i, (a, b) in enumerate(zip(impl['events'], ev)) if a != b), min(len(ev), len(impl['events'])))
        return 'calls on the pluggable pieces differ at position %d: implementation ...%s, model ...%s' % (
            k, impl['events'][max(0, k - 12):k + 12], ev[max(0, k - 12):k + 12])
    # arguments of the calls
    mterm = [[s, bool(a)] for k, s, a, b in log if k == 0]
    if [[s, bool(a)] for s, a in impl.get('term') or []] != mterm:
        return 'is_termination (statistics.generation seen, answer): implementation %s, model %s' % (impl.get('term'), mterm)
    if [s for k, s, a, b in log if k == 2] != list(impl.get('creates') or []):
        return 'initial operators used: implementation %s, model %s' % (impl.get('creates'), [s for k, s, a, b in log if k == 2])
    if [s for k, s, a, b in log if k == 4] != list(impl.get('selects') or []):
        return 'parents selected: implementation %s, model %s' % (impl.get('selects'), [s for k, s, a, b in log if k == 4])
    msearch = [[s, a, b] for k, s, a, b in log if k == 6]
    isearch = [[g['stat'], g['parents'], g['returned']] for g in impl['gens']]
    if msearch != isearch:
        return 'search_many (statistics.generation, parents, returned): implementation %s, model %s' % (isearch, msearch)
    madds = [1 if k == 3 else s for k, s, a, b in log if k in (3, 7)]
    if madds != list(impl.get('adds') or []):
        return 'add / add_all sizes: implementation %s, model %s' % (impl.get('adds'), madds)
    if [s for k, s, a, b in log if k == 8] != list(impl.get('pop_on_generation') or []):
        return 'statistics.generation seen by population.on_generation: implementation %s, model %s' % (
            impl.get('pop_on_generation'), [s for k, s, a, b in log if k == 8])
    if poplen != sum(impl.get('adds') or []):
        return 'individuals handed to the population: implementation %d, model %d' % (sum(impl.get('adds') or []), poplen)
    if impl.get('polls') != polls:
        return 'polls: implementation %s, model %d' % (impl.get('polls'), polls)
    if impl.get('outcome') == 'solution' or impl.get('generations') is not None:
        if impl.get('generations') != metric:
            return 'metrics.generations: implementation %s, model %d' % (impl.get('generations'), metric)
        if list(impl.get('evolution') or []) != list(evo):
            return 'metrics.evolution numbers: implementation %s, model %s' % (impl.get('evolution'), evo)
    # the built-in heuristics hand over one offspring per selected parent
    for i, g in enumerate(impl['gens']):
        if _at(cfg.get('hyper'), i, 1) >= 0 and g['inner'] != g['parents']:
            return 'generation %d: the wrapped heuristic returned %d offspring for %d parents' % (i, g['inner'], g['parents'])
    # the real Greedy population
    fs = _fits(impl) if c.get('domain') == 'scalar' else None
    if fs and impl.get('outcome') == 'solution' and (cfg.get('population') or {}).get('kind', 'greedy') == 'greedy':
        best = impl.get('best')
        if not (isinstance(gidx, int) and gidx < len(fs)) or best is None or best[1] != fs[gidx]:
            return 'Greedy::ranked().next(): implementation fitness %s, model individual #%s of %s' % (best and best[1], gidx, fs)
    return None


# ------------------------------------------------------------------------------------------------ oracle
def input_rejected(impl):
    return isinstance(impl, dict) and 'error' in impl and str(impl['error']).startswith(('read:', 'config:'))


def judged(c):
    """inside the statement: positive limits (generations / user criterion / time) and at least one of them, an initial operator,
    room for a first solution (initial.max_size >= 1), a valid telemetry configuration"""
    cfg = c['config']
    N, L, mt = cfg.get('max_generations'), cfg.get('user_termination'), cfg.get('max_time')
    if any(x is not None and x < 1 for x in (N, L, mt)):
        return False
    if N is None and L is None and mt is None:
        return False
    if n_ops(c) < 1 or cfg.get('track_population', 1) < 1:
        return False
    return cfg.get('init_size', 4) >= 1


def oracle(c, impl):
    if c.get('domain') == 'breakop':
        if isinstance(impl, dict) and 'panic' in impl:
            return [{'class': 'loop-panic', 'what': 'the operator-level case panicked: %s' % str(impl['panic'])[:300]}]
        if input_rejected(impl) or not isinstance(impl, dict) or impl.get('outcome') != 'ok':
            return []
        bad = [r for r in impl.get('after') or [] if only_breaks(r[1])]
        if bad:
            return [{'class': 'tour-serves-only-an-optional-break',
                     'what': 'after the job was taken out of its tour and re-inserted by RecreateWithCheapest the solution keeps a tour that '
                             'serves nothing but a break: before %s, after the removal %s, after the recreate %s' % (
                                 json.dumps(impl.get('before')), json.dumps(impl.get('removed')), json.dumps(impl.get('after')))}]
        return []
    cfg = c['config']
    N, k = cfg.get('max_generations'), cfg.get('quota_after_polls')
    where = 'max_generations %s, user termination %s, quota %s, heuristic script %s' % (
        N, cfg.get('user_termination'), 'never fires' if k is None else 'true from poll %d on' % k, json.dumps((cfg.get('hyper') or {}).get('script'))[:80])
    if isinstance(impl, dict) and 'panic' in impl:
        if cfg.get('track_population', 1) == 0:
            return []                          # invalid telemetry configuration: outside the statement (see notes/C07.md)
        return c07._filter([{'class': 'loop-panic', 'what': 'the run panicked (%s): %s' % (where, str(impl['panic'])[:300])}])
    if input_rejected(impl) or not judged(c):
        return []
    v = []
    if impl.get('watchdog'):
        v.append({'class': 'loop-does-not-end-at-generation-limit',
                  'what': 'Iterative::run was still running after %s search_many calls (%s)' % (impl.get('search_calls'), where)})
        return v
    if impl.get('outcome') != 'solution':
        err = str(impl.get('error'))
        ev = impl.get('events') or ''
        term = impl.get('term') or []
        if 'cannot find any solution' in err and cfg.get('max_time') is not None and ev.startswith('te') and not ev.startswith('tec') \
                and term and not term[0][1]:
            return [{'class': 'initial-quota-reached-before-first-solution',
                     'what': 'max_time %s: at the first check of the initial phase the limit was not reached but estimate > initial.quota, '
                             'no initial solution was built and the run ended with: %s' % (cfg.get('max_time'), err[:200])}]
        return [{'class': 'loop-returns-error', 'what': 'no solution (%s): %s' % (where, err[:300])}]
    # entries into the loop body of Iterative::run, counted by the pieces it calls first (select) and always (search_many)
    calls = max(impl.get('search_calls') or 0, len(impl.get('selects') or []))
    if N is not None and isinstance(calls, int) and calls > N:
        d = calls - N
        v.append({'class': 'generations-exceed-max-by-one' if d == 1 else 'generations-exceed-max-by-%d' % d,
                  'what': 'the loop body of Iterative::run ran %d times (select / search_many calls) with max_generations = %d; offspring '
                          'handed over per generation: %s (%s)' % (calls, N, [g['returned'] + g['diverse'] for g in impl.get('gens') or []][:40], where)})
    sites = impl.get('poll_sites')
    if k is not None and isinstance(calls, int) and isinstance(sites, list):
        ok = sum(1 for i, x in enumerate(sites) if x == 'iterative' and i + 1 < k)
        if calls > ok:
            v.append({'class': 'generation-started-after-quota-reached',
                      'what': '%d loop iterations but Iterative::run saw the quota unreached only %d times (%s)' % (calls, ok, where)})
    if c.get('domain') == 'scalar':
        fs = [f for f in (impl.get('fits') or []) if f is not None]
        best = impl.get('best')
        if fs and best is not None and best[1] > min(fs):
            v.append({'class': 'best-known-solution-lost',
                      'what': 'the returned solution has fitness %s, an individual with fitness %s was handed to the population (%s)' % (
                          best[1], min(fs), where)})
    s = _sol(impl)
    if c.get('domain') == 'vrp' and s is not None and e2e.unsupported(c, s):
        v += c07.account_violations(c, s, e2e.py_accounting(c, s))
    return c07._filter(v)


def oracle_model(c, impl, model):
    if c.get('domain') == 'breakop':
        return []
    s = _sol(impl)
    if c.get('domain') != 'vrp' or s is None or e2e.unsupported(c, s) or not judged(c):
        return []
    viols = model[0]
    v = c07.account_violations(c, s, e2e.coq_viols(viols, 'A'))
    v += c01.oracle_model(c, impl, viols)
    v += c03.oracle_model(c, impl, (viols,))
    for t in e2e.coq_viols(viols, 'P'):
        v.append({'class': 'checker-precondition-' + t[0], 'what': str(t)})
    for x in v:
        x['what'] = '%s  [c07_loop, max_generations %s, quota_after_polls %s]' % (x['what'], c['config'].get('max_generations'),
                                                                                  c['config'].get('quota_after_polls'))
    return c07._filter(v)


def _empty_gens(impl):
    return [g for g in (impl.get('gens') or []) if g['returned'] + g['diverse'] == 0] if isinstance(impl, dict) else []


def nontrivial_key(c, impl):
    if c.get('domain') == 'breakop':
        return 'breakop' if breakop_holds(impl) else None
    if not isinstance(impl, dict) or 'panic' in impl or not _empty_gens(impl):
        return None
    return json.dumps({k: v for k, v in c.items() if k not in ('id', 'meta')}, sort_keys=True)


def classify(c, impl):
    if c.get('domain') == 'breakop':
        return ['domain=breakop', 'breakop=%s' % ('break-left-alone-after-removal' if breakop_holds(impl) else 'VACUOUS')]
    cfg = c['config']
    labs = ['domain=' + str(c.get('domain')), 'max_generations=%s' % cfg.get('max_generations'),
            'user_termination=%s' % ('none' if cfg.get('user_termination') is None else 'some'),
            'hyper=' + str((cfg.get('hyper') or {}).get('inner')), 'population=' + str((cfg.get('population') or {}).get('kind')),
            'track_population=%s' % cfg.get('track_population', 1), 'max_time=%s' % ('none' if cfg.get('max_time') is None else 'set'), 'quota=%s' % ('never' if cfg.get('quota_after_polls') is None else 'fires')]
    if not isinstance(impl, dict) or 'panic' in impl:
        return labs + ['result=panic']
    labs.append('result=' + str(impl.get('outcome')))
    gens = impl.get('gens') or []
    e = len(_empty_gens(impl))
    _COV['iterations'] += len(gens)
    _COV['empty_generations'] += e
    _COV['cases_with_empty_generation'] += 1 if e else 0
    labs.append('empty_generations=%s' % ('0' if e == 0 else 'all' if e == len(gens) else 'some'))
    labs.append('iterations=%s' % (len(gens) if len(gens) < 6 else '6+'))
    if any(g['diverse'] for g in gens):
        labs.append('diversify_many=handed-over')
    if any(g['parents'] == 0 for g in gens):
        labs.append('no-parent-selected')
    if n_individuals(c):
        labs.append('supplied-individuals')
    return labs


def shrink_candidates(c):
    if c.get('domain') == 'breakop':
        return
    cfg = c['config']
    for key in ('hyper', 'diverse', 'population'):
        sc = (cfg.get(key) or {}).get('script') or []
        if len(sc) > 1:
            d = json.loads(json.dumps(c))
            d['config'][key]['script'] = sc[:-1]
            yield d
    if cfg.get('user_termination') is not None and cfg.get('max_generations') is not None:
        d = json.loads(json.dumps(c))
        d['config']['user_termination'] = None
        yield d
    if cfg.get('quota_after_polls') is not None:
        d = json.loads(json.dumps(c))
        d['config']['quota_after_polls'] = None
        yield d
    if (cfg.get('max_generations') or 0) > 1:
        d = json.loads(json.dumps(c))
        d['config']['max_generations'] -= 1
        yield d
    if cfg.get('track_population', 1) > 1:
        d = json.loads(json.dumps(c))
        d['config']['track_population'] = 1
        yield d
