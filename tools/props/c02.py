"""C02 — every job is accounted for exactly once (plugin for tools/verif.py; built on the shared end-to-end oracle e2e.py).

cases      : generated pragmatic problems x configurations (generations, thread layout, quota firing point), solved by the
             REAL solver through the public API (harness op "solve").
oracle     : the verified Coq checker Valid.accounted_b evaluated (vm_compute) on (problem, returned solution document);
             every group-A violation is an oracle violation (oracle_model).  Documents outside the rendered fragment fall back
             to the plain Python re-implementation (oracle).
compare    : (a) Python twin of the checker == Coq checker; (b) the document names exactly the jobs of the core Solution
             (routes / unassigned as the writer received them), tour by tour in order; (c) every dumped SolutionContext
             (after each applied insertion, hook in insertions.rs) satisfies the proved invariant Homes.inv_b.
"""
import hashlib
import json
from props import e2e

ID = 'C02'
HARNESS = 'solve'
COQ_IMPORTS = 'From VRP Require Model.Routing. From VRP Require Import Base.Tac Model.Core Spec.Valid Spec.ValidX Spec.ValidY Model.Homes.'
MODEL_TARGETS = ['theories/Spec/Valid.vo', 'theories/Spec/ValidX.vo', 'theories/Spec/ValidY.vo', 'theories/Model/Homes.vo']
MODEL_NEEDS_IMPL = True
SHARD = 24
SIZES = {'quick': 900, 'thorough': 6000, 'search': 1500}
TRACE = 24
_R4 = "; round-four features, each in about 1/3 of the problems and from its own forked random stream: 2-4 extra jobs with REPLACEMENT tasks (also mixed with pickups / services / shipments), REQUIRED breaks (exact time or offset interval, 1-2 per shift, on shifts without optional breaks and reloads; documents show them as break activities inside a stop or as stops without location), VICINITY CLUSTERING (plan.clustering with the vehicles' profile, visiting continue / return, serving original with parking 0-10, thresholds taken from the matrix, 3-5 extra single-task jobs at a pair of near locations; not together with breaks, reloads, errorCodes or general routing data)"
_R5 = '; round-five features, each from its own forked random stream: RECHARGE STATIONS in about 1/3 of the problems without required breaks / clustering (recharges.maxDistance = the length of a random 2-4 leg walk from the shift start, so that tours exactly at the limit occur; 1-3 stations per shift with location, duration 0-15, sometimes a time window / tag; combined with reloads, optional breaks, capacity dimensions, errorCodes, general routing data), SHARED RELOAD RESOURCES in about 2/3 of the problems with reloads (fleet.resources with 1-2 small capacity vectors, resourceId on about 3/4 of the reloads of all shifts), REQUIRED breaks on shifts that also have reloads in about half of the remaining problems with reloads (start.latest = start.earliest)'
RULE = ('cases: generated pragmatic problems (3-10 jobs: deliveries, pickups, services, shipments, 2-pickup and 2-delivery '
        'multi jobs; 1-2 places / windows, tags; 1-3 vehicle types x 1-2 ids x 1-2 shifts, open and closed ends; capacity, '
        'skills, limits; metric and non-metric integer matrices) x 3 configurations each (max_generations 0-20, thread pools '
        'none/(1,1)/(2,2), outer threads 1-2, quota firing after 0-89 polls or never)' + _R4 + _R5 + '. non-trivial = distinct (problem, '
        'returned document) where the document has a tour and either an unassigned job, two tours or an assigned multi job.')
TRUSTED = ['rendering of the JSON documents into the reduced Coq types (tools/props/e2e.py g_problem / g_solution); cross-checked '
           'on every case by the independent Python twin of the checker working on the raw JSON',
           'the harness reports the core Solution (routes, unassigned) through public fields of vrp_core::models::Solution',
           'bookkeeping dumps come from the verification hook in insertions.rs (observer after apply_insertion_success, '
           'thread-local: only insertions executed on the solving thread are seen)']
ASSUMPTIONS = ['recharge stations are in (ValidY.accounted5: the recharge stops of a tour are DISTINCT stations of its vehicle shift; they are masked for every other clause); required breaks are in (ValidX.accounted4: the break activities and stops without '
               'location of a tour whose shift defines required breaks are DISTINCT required breaks of that shift - duration, start '
               'inside [earliest, latest]; Valid.accounted_b judges the document without them), replacement tasks and mixed jobs are in '
               '(AJobMixedOrder), vicinity clustering is in (clustered activities are ordinary activities with their own location for the '
               'per-job clause; AClusterMember; the Coq checker judges the clustered documents, the Python twin is cross-checked on them); '
               'relations only in the small clustering + relation family (reload and optional-break marker jobs are filtered out of the '
               'trace; for clustering problems the solver works on the CLUSTERED problem, so the bookkeeping dumps are judged with respect to '
               'the job set they name themselves, like the sub-contexts of the decomposition search); '
               'tasks of the same kind inside one job use different locations (checked: precond_viol)',
               'operator choice (which job, which route) is an oracle argument of the bookkeeping model; ruin/removal steps '
               'are validated only through the end-to-end document, not step by step']


def generate(rng, tier, n):
    # plus a few cases of the RING family (a job with 3 pickups and 2 deliveries alternating around a hexagon, 200-400 generations:
    # "pickups before deliveries" after the LKH operator re-sequenced the tour); own forked stream, the other cases are unchanged
    return e2e.gen_cases(rng, n, per_problem=3, trace=TRACE, allow=e2e.ALLOW_E2E) \
        + e2e.gen_ring_cases(rng.fork('ring-multi'), max(6, n // 100), trace=TRACE) \
        + e2e.gen_cluster_relation_cases(rng.fork('cluster-relation'), max(8, n // 60))     # no bookkeeping trace: the core
    # solution works on the CLUSTERED problem (cluster jobs stand for their members), the trace model is about plan jobs


def _sol(impl):
    return impl.get('solution') if e2e.outcome(impl) == 'solution' else None


def model_term(c, impl):
    s = _sol(impl)
    ids = e2e.Ids(c)
    trace = (impl or {}).get('trace') or [] if isinstance(impl, dict) else []
    tr = e2e.g_trace(c, trace[:TRACE], ids)
    if s is None or e2e.unsupported(c, s):
        return '(@nil violation, @nil (Z * Z * list Z), @nil Z, %s)' % tr
    P, S = e2e.g_problem(c, ids), e2e.g_solution(c, s, ids)
    # ValidX.accounted4 = Valid.accounted_b on the document without its required-break activities / transit stops ++ the
    # round-four rules (ARequiredBreak, AJobMixedOrder); the tours handed to `compare` are the stripped ones as well
    return ('(let X := ' + e2e.g_xproblem(c, ids) + ' in let XS := ' + e2e.g_xsolution(c, s, ids) + ' in let P := %s in let S := %s in (precond_viol P ++ %s, '
            'map (fun t => (to_vehicle t, Z.of_nat (to_shift t), map fa_job (job_acts t))) (sl_tours (strip_sol X S)), '
            'map fst (sl_unassigned (strip_sol X S)), %s))' % (P, S, e2e.term_A(c, s, ids, X='X', XS='XS'), tr))


def compare(c, impl, model):
    if e2e.outcome(impl) == 'panic':
        return None                      # reported by the oracle
    viols, doc_routes, doc_un, (inv_flags, pairs) = model
    # (c) bookkeeping invariant on the real contexts
    # flag 3: invariant w.r.t. the whole plan; 2: a sub-context of the decomposition search (invariant w.r.t. its own job
    # set, no id outside the plan); anything else: a job with two homes / a foreign id inside the real solver state
    for k, f in enumerate(inv_flags):
        if f < 2:
            return 'SolutionContext dump #%d violates the Homes invariant: %s' % (k, json.dumps(impl['trace'][k]))
    s = _sol(impl)
    if s is None or e2e.unsupported(c, s):
        return None
    # (a) twin
    twin = [tuple(x) for x in e2e.py_accounting(c, s)]
    coq = [t for t in e2e.coq_viols(viols, 'A')]
    if sorted(twin) != sorted(coq):
        return 'checker twin mismatch: python %s coq %s' % (twin, coq)
    # (b) the writer names exactly what the core solution holds
    ids = e2e.Ids(c)
    core = impl.get('core') or {}
    core_routes = [(ids.vehicle(r['vehicle']), r['shift'], [ids.job(j) for j in r['jobs'] if not e2e.is_conditional_id(c, j)])
                   for r in core.get('routes', [])]
    # reload markers: as many reload activities in the document tour as marker jobs in the core route
    # (REQUIRED breaks are reserved times, not marker jobs: only the breaks of shifts without required breaks count)
    doc_reloads = [sum(1 for st in t['stops'] for a in st['activities']
                       if a.get('type') in ('reload', 'recharge') or (a.get('type') == 'break' and not e2e.tour_required_breaks(c, t)))
                   for t in s['tours']]
    core_reloads = [sum(1 for j in r['jobs'] if e2e.is_conditional_id(c, j)) for r in core.get('routes', [])]
    if doc_reloads != core_reloads:
        return 'reload / break activities per document tour %s differ from marker jobs per core route %s' % (doc_reloads, core_reloads)
    got = [(v, sh, list(js)) for (v, sh, js) in doc_routes]
    if core_routes != got:
        return 'document tours %s differ from core routes %s' % (got, core_routes)
    core_un = [ids.job(j) for j in core.get('unassigned', []) if not e2e.is_conditional_id(c, j)]
    if list(doc_un) != core_un:
        return 'document unassigned %s differ from core unassigned %s' % (doc_un, core_un)
    return None


CLASS = {'AJobLost': 'job-lost', 'AJobDuplicated': 'job-duplicated', 'AJobIncomplete': 'job-incomplete',
         'AJobOrder': 'delivery-before-pickup', 'AJobNoReason': 'unassigned-without-reason', 'AForeignJob': 'foreign-job-id',
         'ATourVehicle': 'tour-unknown-vehicle-shift', 'ATourEmpty': 'empty-tour', 'AShiftTwice': 'shift-drives-two-tours',
         'AExtraActivity': 'undefined-break-reload-activity', 'AReload': 'reload-not-a-distinct-defined-reload-of-the-shift',
         'ABreak': 'break-not-a-distinct-defined-break-of-the-shift',
         'AJobMixedOrder': 'pickup-after-delivery-replacement-or-service-of-the-same-job',
         'ARequiredBreak': 'break-not-a-distinct-required-break-of-the-shift',
         'AClusterMember': 'clustered-activity-of-a-job-that-cannot-be-clustered',
         'ARecharge': 'recharge-stop-not-a-distinct-defined-station-of-the-shift'}


def _violations(c, s, items):
    """[(ctor, arg)] -> oracle violations with a class derived from the structure of the failing input"""
    out = []
    ids = e2e.Ids(c)
    for t in items:
        name, arg = t[0], (t[1] if len(t) > 1 else None)
        cls = CLASS.get(name, name)
        what = '%s %s' % (name, arg)
        if name == 'ATourEmpty':
            tour = s['tours'][arg]
            vt = e2e.vehicle_type_of(c, tour)
            if job_less_on_recharge_shift(c, tour):
                # finding C02-F5: RechargeableMultiTrip::try_recover makes every recharge station of a shift a required, locked job
                # when nothing can be inserted; the stations are put into an EMPTY tour, an optional break is accepted behind them,
                # the stations are removed again as trivial markers, and the tour that holds only the break (or only stations) is
                # not an empty route for remove_empty_routes
                cls = 'job-less-tour-of-break-or-recharge-stops-on-shift-with-recharge-stations'
            elif vt is not None and (vt.get('limits') or {}).get('maxDuration') is not None:
                cls = 'empty-tour-max-duration-vehicle'
            what = 'tour #%d (%s shift %s) serves no job; its statistic is %s' % (
                arg, tour.get('vehicleId'), tour.get('shiftIndex'), json.dumps(tour.get('statistic')))
        elif name == 'ARequiredBreak' and e2e.rb_reported_twice(s['tours'][arg]):
            # finding C02-F3: one required break written as a transit stop AND as an activity of the next stop
            cls = 'required-break-reported-twice-as-transit-stop-and-stop-activity'
            what = 'ARequiredBreak %s: the same break interval %s is reported by a stop without location and by an activity of another stop' % (
                arg, e2e.rb_reported_twice(s['tours'][arg]))
        elif name == 'AReload' and e2e.tour_required_breaks(c, s['tours'][arg]) and e2e.rb_unreported_time(c, s['tours'][arg]) > 0:
            # finding C02-F7 (root cause of C01-F6 / C03-F5): a required break that the writer counts in times.break without writing
            # it stretches the reload stop: the reload activity is longer than any reload defined for the shift
            cls = 'reload-stop-stretched-by-required-break-counted-in-statistic-but-not-reported'
            what = 'AReload %s: the tour statistic counts %d s of break that no reported break activity covers' % (arg, e2e.rb_unreported_time(c, s['tours'][arg]))
        elif name == 'AReload' and e2e.tour_required_breaks(c, s['tours'][arg]) and e2e.rb_two_on_one_span(c, s['tours'][arg]):
            # finding C02-F7, second class (root cause of C01-F9 / C03-F6): two reserved times inside one stop, only the first is
            # applied: the activities behind it (here the reload) are reported one behind the other with unexplained gaps
            cls = 'reload-stop-with-two-required-breaks-inside-one-leg-or-stop'
            what = 'AReload %s: two required breaks fall into the span %s of the tour' % (arg, e2e.rb_two_on_one_span(c, s['tours'][arg]),)
        elif name == 'AJobDuplicated' and pinned_job_served_and_unassigned(c, s, ids.job_name(arg)):
            # finding C02-F9 (= C01-F19, seen once, not reproducible run by run): a job pinned by a relation is served by its tour
            # AND listed as unassigned in the same core solution
            cls = 'job-duplicated:pinned-job-of-a-relation-served-and-listed-unassigned'
            what = 'AJobDuplicated: job %s is pinned by a relation, served in a tour and listed as unassigned' % ids.job_name(arg)
        elif name.startswith('AJob') or name == 'AForeignJob':
            what = '%s: job %s' % (name, ids.job_name(arg))
        out.append({'class': cls, 'what': what})
    return out


def pinned_job_served_and_unassigned(c, s, job):
    pinned = {j for r in (c['problem']['plan'].get('relations') or []) for j in r.get('jobs', [])}
    served = [a.get('jobId') for t in s.get('tours', []) for st in t['stops'] for a in st['activities']]
    un = [u.get('jobId') for u in (s.get('unassigned') or [])]
    return job in pinned and job in served and job in un


def job_less_on_recharge_shift(c, tour):
    """structure of finding C02-F5: the tour serves no job, consists of break / recharge stops besides departure and arrival, and its
    vehicle shift defines recharge stations"""
    vt = e2e.vehicle_type_of(c, tour)
    if vt is None or tour.get('shiftIndex', 0) >= len(vt['shifts']) or not e2e.shift_recharges(vt['shifts'][tour.get('shiftIndex', 0)]):
        return False
    kinds = [a.get('type') for st in tour['stops'] for a in st['activities'] if a.get('type') not in ('departure', 'arrival')]
    return bool(kinds) and all(k in ('break', 'recharge') for k in kinds)


def oracle(c, impl):
    if e2e.outcome(impl) == 'panic':
        msg = str((impl or {}).get('panic'))
        return [{'class': e2e.panic_class(c, msg), 'what': 'solving a valid problem panicked: %s' % msg[:300]}]
    s = _sol(impl)
    if s is not None and e2e.unsupported(c, s):
        # not renderable for Coq: the Python re-implementation decides
        return _violations(c, s, e2e.py_accounting(c, s))
    return []


def oracle_model(c, impl, model):
    s = _sol(impl)
    if s is None or e2e.unsupported(c, s):
        return []
    return _violations(c, s, e2e.coq_viols(model[0], 'A'))


def nontrivial_key(c, impl):
    s = _sol(impl)
    if s is None or not s['tours']:
        return None
    tours, un = e2e.doc_summary(s)
    multi = any(len(e2e.tasks_of(j)) > 1 and any(j['id'] in t for t in tours) for j in c['problem']['plan']['jobs'])
    if not (un or len(tours) > 1 or multi):
        return None
    h = hashlib.sha256(json.dumps(c['problem'], sort_keys=True).encode()).hexdigest()[:12]
    return (h, json.dumps(tours), json.dumps(sorted(un)))


def classify(c, impl):
    cfg = c['config']
    labs = ['result=' + e2e.outcome(impl), 'generations=%s' % ('0' if cfg['max_generations'] == 0 else '1-3' if cfg['max_generations'] <= 3 else '4-20' if cfg['max_generations'] <= 20 else '21+'),
            'parallelism=%s' % ('default' if cfg['parallelism'] is None else 'x'.join(map(str, cfg['parallelism']))),
            'quota=%s' % ('never' if cfg['quota_after_polls'] is None else 'fires')]
    s = _sol(impl)
    if s is not None:
        tours, un = e2e.doc_summary(s)
        labs.append('tours=%d' % len(tours))
        labs.append('unassigned=%s' % ('0' if not un else '1-2' if len(un) <= 2 else '3+'))
        if any(len(e2e.tasks_of(j)) > 1 and any(j['id'] in t for t in tours) for j in c['problem']['plan']['jobs']):
            labs.append('multi-job-assigned')
        labs.append('trace-states=%s' % ('0' if not impl.get('trace') else '1+'))
        # documents the Coq rendering cannot express (commute / parking of a vicinity cluster ...): judged by the accounting
        # twin on the raw JSON only, and counted here
        why = e2e.unsupported(c, s)
        labs.append('rendered=%s' % ('yes' if not why else 'no:' + str(why)[:40]))
    labs += e2e.feature4_labels(c, s)
    for fam in ('ring', 'clustering'):
        if fam in ((c.get('meta') or {}).get('features') or []):
            labs.append('family=' + fam)
    if e2e.outcome(impl) == 'panic':
        labs.append('panic=' + e2e.panic_class(c, str((impl or {}).get('panic'))))
    elif isinstance(impl, dict) and 'error' in impl:
        labs.append('error=' + str(impl['error'])[:40])
    return labs


def shrink_candidates(c):
    """drop one job / one vehicle type at a time (the matrix is kept: validation only needs every index to stay used)"""
    jobs = c['problem']['plan']['jobs']
    for k in range(len(jobs)):
        if len(jobs) <= 1:
            break
        d = json.loads(json.dumps(c))
        del d['problem']['plan']['jobs'][k]
        if sorted(set(e2e.used_locations(d['problem']))) == list(range(e2e.matrix_size(d['matrices'][0]))):
            yield d
    vts = c['problem']['fleet']['vehicles']
    for k in range(len(vts)):
        if len(vts) <= 1:
            break
        d = json.loads(json.dumps(c))
        del d['problem']['fleet']['vehicles'][k]
        if sorted(set(e2e.used_locations(d['problem']))) == list(range(e2e.matrix_size(d['matrices'][0]))):
            yield d


MANIFEST_TEXT = ('Machine-checked proof (Coq, no axioms) plus a verified end-to-end checker: (1) the declarative statement Accounted '
                 '(each plan job completely in exactly one tour - every task once, pickups before deliveries - or exactly once unassigned '
                 'with a reason; no foreign id; every tour names an existing vehicle shift, serves a job, no shift drives two tours; no '
                 'undefined break/recharge; every reload activity a distinct reload defined for that very vehicle shift) is proved equivalent to the executable checker accounted_b; (2) over a model of the '
                 'solver bookkeeping primitives (apply_insertion_success/failure, finalize, prepare, try_remove_job, remove_whole_route, '
                 'remove_empty_routes, Solution::from) every job has exactly one home after ANY history, so what reaches the writer is an '
                 'exact partition. The checker is run inside Coq on every document the real solver returns for generated problems under a '
                 'matrix of configurations; the bookkeeping invariant is evaluated on real SolutionContext dumps taken after every insertion.')
MANIFEST_NOTE = ('Trusted: Coq kernel + vm_compute; JSON->Gallina rendering (cross-checked by a Python twin); harness. Reloads, optional and required breaks, '
                 'recharge stations and vicinity clustering are in (every reload / break / recharge stop a distinct one defined for the tour\'s shift); relations only in a small family. Operator choice is an oracle; ruin steps are validated end-to-end only. '
                 'Findings made with it (empty tour for a maxDuration vehicle; writer panic on its f64::MAX departure) are fixed '
                 'in /repo and kept as regression cases / reverse-patch mutants.')
MANIFEST_TECHNIQUE = 'Coq proof (checker soundness/completeness + bookkeeping invariant) + verified checker run on real solver output'
