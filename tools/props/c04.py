"""C04 — every search step maps a consistent solution to a consistent one (plugin for tools/verif.py).
Shares the operator-level harness `ops` and tools/props/opslib.py with C05."""
from coqterm import z, zlist, lst, nat
from props import opslib as O
from props.corelib import tz, tout, g_demand

ID = 'C04'
HARNESS = 'ops'
COQ_IMPORTS = 'From VRP Require Import Base.Tac Model.Core Spec.Feasible Model.Eval Spec.Inv Model.Context.'
MODEL_TARGETS = ['theories/Model/Context.vo']
MODEL_NEEDS_IMPL = True
SHARD = 6
SUBSTREAMS = ['c04_ops']      # direct correspondence: real operators vs the operator programs of Model/Operators.v
SIZES = {'quick': 150, 'thorough': 2500, 'search': 500}
RULE = ('cases: a problem built through the core API (4-7 locations, metric integer matrix in 11 of 12 cases, 2-4 vehicles with own '
        'costs/capacity/shift/open or closed end, 4-10 jobs: singles with 1-2 places x 1-2 windows, pickup-delivery multi jobs, '
        'optional compatibility / group / tour-order tags, optional pinned jobs, in 1 case of 4 one or two jobs pending in '
        '`ignored`; 1 case in 4 is a "fleet" case: 8-12 unit jobs on vehicles of capacity 2-3, i.e. 3+ tours, nothing unassigned, '
        'ignored jobs, half of the steps DecomposeSearch; max(3, n/50) "long tour" cases: one vehicle, 28-40 pickup-delivery jobs on a '
        'line with every delivery closer to the depot than its pickup, i.e. one tour of 56-80 activities built and re-built '
        'through the sampled leg search of the evaluator) + a history of 6-18 (thorough: 10-30) calls (1 in 5 under a counting '
        'quota that interrupts the step after its k-th poll) of the '
        'real operators - every public Ruin (through CompositeRuin = + restore), Recreate, LocalOperator and '
        'HeuristicSearchOperator - driven by a scripted Random (splitmix64). Start state: RecreateWithCheapest on everything. '
        'non-trivial = distinct histories with at least one step that changed the tours.')
TRUSTED = ['the dump of the solution context printed by harness/src/bin/ops.rs (public fields of SolutionContext, Tour, Registry)',
           'tools/props/opslib.py: generators, the explanation of a dumped transition as a word of model primitives, and the '
           'independent Python reading of the invariant (cross-checked against the Coq checker inv_b on every state)',
           'that every shipped operator is a composition of the model primitives is validated on the dumps (run_word); the '
           'operator PROGRAMS of Model/Operators.v are tied to the code by the direct correspondence of sub-stream c04_ops']
ASSUMPTIONS = ['integer-valued data: every f64 operation on schedules/loads is exact',
               'triangle inequality on durations for the feasibility of removals (explicit hypothesis of the theorems; the '
               'generator produces Manhattan matrices, 1 in 12 cases is non-metric on purpose)',
               'features in the goal: minimize-unassigned, minimize-tours, optional tour order, transport cost with time windows, '
               'capacity (SingleDimLoad), optional compatibility, groups, locked jobs; no breaks/reloads/recharge/skills']


def generate(rng, tier, n):
    cases = [O.gen_case(rng, tier) for _ in range(n)]
    # targeted stream: tours that LKH re-orders so that a later part of a pickup-delivery job cannot be put back (repair)
    cases += [O.gen_repair_case(rng) for _ in range(max(10, n // 12))]
    # long single tours of pickup-delivery jobs: the evaluator's SAMPLED leg search (tours of 56-80 activities) must keep the
    # parts of a multi job in order (own forked stream: the cases above do not depend on it)
    lrng = rng.fork('long_tour')
    cases += [O.gen_long_tour_case(lrng, tier) for _ in range(max(3, n // 50))]
    return cases


# ---------------------------------------------------------------- explanation of a transition by model primitives
def act_key(a):
    return (a['job'], a['sub'], a['loc'], a['svc'], a['tws'], a['twe'])


def lcs(xs, ys, weight=lambda x: 1):
    """heaviest common subsequence (pinned jobs weigh more: an operator never moves them, so they are the fixed points)"""
    n, m = len(xs), len(ys)
    L = [[0] * (m + 1) for _ in range(n + 1)]
    for i in range(n - 1, -1, -1):
        for j in range(m - 1, -1, -1):
            L[i][j] = max(L[i + 1][j], L[i][j + 1], (L[i + 1][j + 1] + weight(xs[i])) if xs[i] == ys[j] else 0)
    i = j = 0
    pi, pj = [], []
    while i < n and j < m:
        if xs[i] == ys[j] and L[i][j] == L[i + 1][j + 1] + weight(xs[i]):
            pi.append(i)
            pj.append(j)
            i += 1
            j += 1
        elif L[i + 1][j] >= L[i][j + 1]:
            i += 1
        else:
            j += 1
    return pi, pj


def g_step(idx, a):
    act = dict(a, arr=0, dep=0)
    return '(%s, %s)' % (nat(idx), O.g_ract(act))


VARIANTS = [(False, True), (False, False), (True, True), (True, False)]


def explain(c, before, after, dep_first, drop_early=True):
    """word of primitives (Gallina) turning `before` into `after`.
       drop_early: the emptied tours are given back to the registry before the insertions (ruin + restore, then recreate)
       or at the end (operators that only call restore / nothing after their insertions);
       dep_first: a changed start departure is applied before or after the insertions."""
    ba = {r['v']: r for r in before['routes']}
    aa = {r['v']: r for r in after['routes']}
    removes, inserts, deps = [], [], []
    moved_in = {}
    locked = set(before['locked'])
    for v, rb in ba.items():
        B = [a for a in rb['acts'] if a['job'] >= 0]
        A = [a for a in aa[v]['acts'] if a['job'] >= 0] if v in aa else []
        pi, pj = lcs([act_key(a) for a in B], [act_key(a) for a in A], lambda k: 1000 if k[0] in locked else 1)
        unstable = set(a['job'] for k, a in enumerate(B) if k not in pi) | set(a['job'] for k, a in enumerate(A) if k not in pj)
        gone = [j for j in O.route_jobs(rb) if j in unstable]
        for j in gone:
            # (RedistributeSearch puts removed jobs straight into `unassigned`; indistinguishable at the end of the step)
            removes.append('PRemove %s %s false' % (z(v), z(j)))
        moved_in[v] = unstable
    for v, ra in aa.items():
        A = ra['acts']
        unstable = moved_in.get(v)
        jobs_here = O.route_jobs(ra)
        newjobs = [j for j in jobs_here if unstable is None or j in unstable]
        cur = [k for k, a in enumerate(A) if a['job'] < 0 or a['job'] not in newjobs]      # final positions present
        emptied = v in ba and all(j in moved_in[v] for j in O.route_jobs(ba[v]))
        start_dep_before = ba[v]['acts'][0]['dep'] if v in ba and not (drop_early and emptied) else c['vehicles'][v]['shift_start']
        if A[0]['dep'] != start_dep_before:
            deps.append('PDeparture %s %s' % (z(v), z(tz(A[0]['dep']))))
        for j in newjobs:
            steps = []
            for k, a in enumerate(A):
                if a['job'] == j:
                    idx = sum(1 for p in cur if p < k) - 1
                    steps.append(g_step(idx, a))
                    cur.append(k)
            inserts.append('PInsert %s %s %s' % (z(v), z(j), lst(steps)))
    body = deps + inserts if dep_first else inserts + deps
    word = removes + (['PDropEmpty'] + body if drop_early else body + ['PDropEmpty'])
    if not after['req']:
        word.append('PFinalize')
    return lst(word)


def consistent_py(c, d):
    return not O.py_violations(c, d)


def model_term(c, impl):
    if 'panic' in impl:
        return None
    sts = O.states(impl)
    dumps = lst(sts, O.g_dump)
    words = []
    # sub-tours of a feasible tour are feasible only under the triangle inequality: replay metric cases only
    metric = O.is_metric(c)
    for k in range(1, len(sts)):
        # a repair (LKH / infeasible search) rebuilds from InsertionContext::new, where a job that was pending in `ignored`
        # is an ordinary required job and ends `unassigned`: still one home (checked by inv_b), but no primitive of the
        # model moves a job out of `ignored`, so such transitions are not replayed
        same_ignored = sorted(sts[k - 1]['ign']) == sorted(sts[k]['ign'])
        if metric and same_ignored and consistent_py(c, sts[k - 1]) and consistent_py(c, sts[k]):
            ws = []
            for de, df in VARIANTS:
                w = explain(c, sts[k - 1], sts[k], df, de)
                if w not in ws:
                    ws.append(w)
            words.append('(let b := %s in %s)' % (O.g_dump(sts[k - 1]), lst(['run_word P b %s' % w for w in ws])))
        else:
            words.append('[]')
    return 'let P := %s in (run_inv P %s, %s)' % (O.g_pworld(c), dumps, lst(words))


# ---------------------------------------------------------------- comparison
def canon_model_viol(v):
    return tuple(v) if isinstance(v, (tuple, list)) else v


def canon_state(d):
    routes = sorted((r['v'], tuple((a['job'], a['sub'], a['loc'], tout(tz(a['tws'])), tout(tz(a['twe'])), tout(tz(a['arr'])), tout(tz(a['dep'])))
                                   for a in r['acts'])) for r in d['routes'])
    return (tuple(routes), tuple(sorted(d['req'])), tuple(sorted(d['ign'])), tuple(sorted(u[0] for u in d['una'])),
            tuple(sorted(d['avail'])))


def canon_model_state(m):
    routes, req, ign, una, avail = m
    rs = sorted((v, tuple((j, s, l, tout(a), tout(b), tout(x), tout(y)) for (j, s, l, a, b, x, y) in acts)) for v, acts in routes)
    return (tuple(rs), tuple(sorted(req)), tuple(sorted(ign)), tuple(sorted(una)), tuple(sorted(avail)))


def compare(c, impl, model):
    if 'panic' in impl:
        return None
    invs, words = model
    sts = O.states(impl)
    if len(invs) != len(sts):
        return 'model evaluated %d states, implementation dumped %d' % (len(invs), len(sts))
    for k, d in enumerate(sts):
        py = sorted(set(map(str, (O.canon_viol(v) for v in O.py_violations(c, d)))))
        cq = sorted(set(map(str, (canon_model_viol(v) for v in invs[k]))))
        if py != cq:
            return 'state %d: Coq checker inv_b says %s, the Python reading of the invariant says %s' % (k, cq, py)
    for k, w in enumerate(words):
        if not w:
            continue
        want = canon_state(sts[k + 1])
        got = [canon_model_state(x[1][0]) if x[0] == 1 else None for x in w]
        if want not in got:
            first = got[0]
            what = ('guards fail at primitives #%s of the explanation variants' % ([x[2] for x in w],) if all(g is None for g in got)
                    else 'the replayed state differs: model %s impl %s' % (first, want))
            return 'step %d (%s): the dumped transition is not reproduced by the model primitives: %s' % (k, c['history'][k]['op'], what)
    return None


# ---------------------------------------------------------------- oracle
def viol_class(c, impl, k, vs):
    sts = O.states(impl)
    op = 'construction' if k == 0 else c['history'][k - 1]['op']
    kinds = sorted(set(v[0] if isinstance(v, (tuple, list)) else v for v in vs))
    prev = sts[k - 1] if k > 0 else None
    if op == 'search:lkh_improve' and prev is not None and kinds == ['VHomes'] and \
            all(v[2] == 0 and v[1] in prev['req'] for v in vs):
        return 'lkh-improve-drops-pending-jobs'
    if op == 'search:lkh_improve' and prev is not None and kinds == ['VHomes'] and \
            all(v[2] == 0 and v[1] in prev['ign'] for v in vs):
        # repair rebuilt the solution from InsertionContext::new (the ignored jobs became unassigned), then the
        # original `unassigned` / `required` were restored over it - but not the original `ignored`
        return 'lkh-improve-drops-ignored-jobs'
    o = c['history'][k - 1] if k > 0 else {}
    runs_sequence = op in ('local:sequence', 'local:composite') or \
        (op == 'search:local_search' and o.get('local') in ('sequence', 'composite'))
    if kinds == ['VEmptyRoute'] and runs_sequence and prev is not None:
        # ExchangeSequence: every job of the tour was extracted and none could be put back
        una = set(u[0] for u in sts[k]['una'])
        pj = {r['v']: set(O.route_jobs(r)) for r in prev['routes']}
        if all(v[1] in pj and pj[v[1]] <= una for v in vs):
            return 'empty-route-after-exchange-sequence'
    uses_repair = op in ('search:lkh_diverse', 'search:lkh_improve', 'search:infeasible')
    if kinds == ['VLoad'] and uses_repair and prev is not None:
        # repair_solution_from_unknown: a multi job of that tour was unassigned after the other jobs had been put back
        jobs = {j['id']: j for j in c['jobs']}
        una = set(u[0] for u in sts[k]['una'])
        pj = {r['v']: set(O.route_jobs(r)) for r in prev['routes']}
        if all(any('multi' in jobs[j] and j in una for j in pj.get(v[1], ())) for v in vs):
            return 'load-infeasible-after-repair-unassigns-multi-job'
    if kinds == ['VTime'] and not O.is_metric(c) and prev is not None:
        # the removal alone (the before-tour restricted to the activities that stay in place) is already late:
        # nothing re-checks a tour after tour.remove(job), and sub-tours of a feasible tour are feasible only on metric matrices
        pr = {r['v']: r for r in prev['routes']}
        cr = {r['v']: r for r in sts[k]['routes']}

        def removal_breaks(a):
            if a not in pr or a not in cr:
                return False
            B, A = pr[a]['acts'], cr[a]['acts']
            pi, _ = lcs([act_key(x) for x in B], [act_key(x) for x in A])
            kept = [B[i] for i in pi]
            return len(kept) < len(B) and not O.sim_route(c, c['vehicles'][a], kept)[0]
        if all(removal_breaks(v[1]) for v in vs):
            return 'time-infeasible-after-removal-nonmetric-matrix'
    return '%s-after-%s' % ('+'.join(kinds), op)


def oracle(c, impl):
    if 'panic' in impl:
        return [{'class': 'panic', 'what': 'an operator panicked: ' + impl['panic'][:300]}]
    out = []
    for k, s in enumerate(impl['steps']):
        if 'parent_changed' in s:
            out.append({'class': 'parent-mutated-by-' + s['op'],
                        'what': 'step %d (%s): the dump of the parent solution differs before/after the call' % (k, s['op'])})
    return out


def oracle_model(c, impl, model):
    """the verified checker inv_b on every after-state whose before-state is consistent"""
    if 'panic' in impl:
        return []
    invs, _ = model
    out = []
    prev_ok = True
    for k, vs in enumerate(invs):
        if prev_ok and vs:
            out.append({'class': viol_class(c, impl, k, vs),
                        'what': 'state %d (after %s) violates the invariant although its parent satisfies it: %s' % (
                            k, 'construction' if k == 0 else c['history'][k - 1]['op'], vs[:4])})
        prev_ok = not vs
    return out


def nontrivial_key(c, impl):
    if 'panic' in impl:
        return None
    sts = O.states(impl)
    changed = sum(1 for k in range(1, len(sts)) if canon_state(sts[k]) != canon_state(sts[k - 1]))
    if changed == 0:
        return None
    return (c['seed'], tuple(o['op'] for o in c['history']))


def classify(c, impl):
    labs = ['metric=%s' % O.is_metric(c), 'locks=%d' % len(c.get('locks', []))]
    labs += ['feature:' + k for k, v in c['features'].items() if v]
    labs.append('stream=%s' % c.get('stream', 'random'))
    labs.append('ignored_jobs=%d' % len(c.get('ignored', [])))
    labs.append('steps_with_quota=%d' % sum(1 for o in c['history'] if o.get('quota') is not None))
    if 'panic' in impl:
        return labs + ['panic']
    sts = O.states(impl)
    for k, o in enumerate(c['history']):
        ch = canon_state(sts[k + 1]) != canon_state(sts[k])
        labs.append('%s:%s' % (o['op'], 'changed' if ch else 'same'))
    return labs


def shrink_candidates(c):
    h = c['history']
    for k in range(len(h) - 1, -1, -1):
        d = dict(c)
        d['history'] = h[:k] + h[k + 1:]
        yield d
    if len(h) > 1:
        d = dict(c)
        d['history'] = h[:len(h) // 2]
        yield d


MANIFEST_TEXT = ('Machine-checked proof (Coq) over an executable model of the solution context (homes of a job, registry, tours), of '
                 'the primitives all search operators are built from, and of the shipped operators as PROGRAMS over them with every '
                 'random draw / selection / evaluator answer an oracle argument: JobRemovalTracker (limits, locked-job tests, '
                 'try_remove_job, try_remove_route), the eight ruins and CompositeRuin, the recreate family (InsertionHeuristic::'
                 'process), RuinAndRecreate, ExchangeSequence / InterRoute / IntraRoute / SwapStar, RescheduleDeparture, '
                 'RedistributeSearch and DecomposeSearch (split into groups, refine, merge back). Proved for ALL oracles: the '
                 'consistency invariant - every job exactly one home, registry matches the tours, multi jobs whole and ordered, '
                 'pinned jobs in place, every tour feasible by step-by-step simulation, compatibility and group rules - is kept by '
                 'every primitive under its guard, by every modelled operator and by every finite history over their sum type; '
                 'ruins never touch a pinned job (the locked part of every tour is literally unchanged), remove jobs whole and '
                 'respect the limits of the tracker; the merge of decomposed parts is exactly the union of any refinements that '
                 'respect the contract of their part. Feasibility of removal carries the triangle inequality as hypothesis, with a '
                 'machine-checked counterexample without it. The invariant has a verified executable checker which is run inside '
                 'Coq on the state dumped after EVERY call of the real operators in random histories; each dumped transition is '
                 'replayed through the model primitives; the ruins and the exchange operators are additionally re-run as model '
                 'PROGRAMS on the random draws and selections recorded from the real run and must give the same solution; the '
                 'parent solution is dumped before and after each call.')
MANIFEST_NOTE = ('Trusted: Coq kernel+vm_compute; harness dumps and Random call log; generators; decoding of a real run into the '
                 'oracle of the model program. Not modelled as programs: InfeasibleSearch, LKHSearch, repair_solution_from_unknown '
                 '(checked by the verified checker on every dumped state and by the primitive replay); the insertion guard is the '
                 'evaluator contract proved in C06; the refinement contract of DecomposeSearch is a hypothesis (an executable '
                 'check in the model). Hypotheses: triangle inequality for removals; integer data.')
MANIFEST_TECHNIQUE = 'Coq proof (invariant preservation by the operator programs for all oracles, induction over histories) + verified checker evaluated by vm_compute on dumps of the real operators + model programs re-run on the recorded choices of the real operators'
