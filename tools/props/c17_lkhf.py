"""C17 sub-stream `c17_lkhf` — lkh_optimize on f64 costs that are NOT integer valued (Euclidean distances of integer points:
sqrt of an integer; decimal fractions k/10), i.e. where the additions and subtractions of kopt.rs round.  The parent stream uses
integer-valued costs (exact in f64, model over Z); here the model is Model/LkhG.v instantiated with Coq's primitive floats (IEEE-754
binary64, the arithmetic of Rust's f64), compared path for path.

Termination is decided without a clock: the harness' AdjacencySpec counts the calls of `cost` and panics past a budget
(`budget`, 300 000 calls; the largest terminating run seen needs < 10 000), the panic is caught and reported as
{"budget_exceeded": true}.  The model keeps every tour the search went through and reports code 4 as soon as one comes back
(from then on KOpt::optimize repeats for ever, `improve` being a function of the current tour).

Which model is compared: the code as it is (`run_lkhf`: KOpt::solutions holds only the current tour) or the proposed repair
notes/patches/C17-lkh-termination.diff (`run_lkhf_repaired`: `self.solutions.clear()` removed from KOpt::optimize, every discovered
tour is remembered, a tour that was already visited is rejected by is_known_path, all of them are returned) — decided by reading
kopt.rs of the tree under test (`lkh_repaired()`), so the same check is exact before and after the repair.
Second op `lkhsearch`: the solver's LKH operator (vrp-core/src/solver/search/lkh_search.rs: optimize_route, CostMatrix, route_to_path,
rearrange_route, get_activity_range) through the public LKHSearch::search on a real Problem; model Model/LkhRoute.v.
Registered by `SUBSTREAMS = ['c17_lkhf']` in tools/props/c17.py; theorems C17_lkh_float_*, C17_lkh_repaired_*, C17_lkh_route_*,
C17_lkh_rearrange_route* in Properties/C17.v."""
import os, json, math, struct
from fractions import Fraction
from decimal import Decimal, getcontext

ID = 'C17'
HARNESS = 'c17'
COQ_IMPORTS = ('From Coq Require Import Floats.\nFrom VRP Require Import Base.Tac Model.Lkh Model.LkhG Model.LkhRoute.\n'
               'Local Open Scope Z_scope.')
MODEL_TARGETS = ['theories/Model/Lkh.vo', 'theories/Model/LkhG.vo', 'theories/Model/LkhRoute.vo']
SIZES = {'quick': 420, 'thorough': 5000, 'search': 2500}
BUDGET = 300000
RULE = ('cases: (lkhf, 3/4) lkh_optimize with f64 costs that are not integers: Euclidean distances sqrt(dx^2+dy^2) of 4-11 integer points (small '
        'grids with many equal-length tours: distinct points, point sets symmetric under a reflection, coinciding points, collinear points; '
        'coordinates up to 1000 = hardly any tie) and decimal fractions k/10 (random symmetric, line metric |ki-kj|/10); start path = '
        'random permutation / starting at node 0 / a subset of the nodes; neighbour lists complete and sorted by (cost, index) as '
        'lkh_search.rs builds them, truncated to 5, shuffled. (lkhsearch, 1/4) the solver operator LKHSearch::search (Diverse mode, 1-thread '
        'pool) on a real Problem whose TransportCost returns such distances (also a one-way matrix whose two directions differ): 1-2 '
        'routes of 3-10 jobs in random order, several jobs at one location, vehicle end at the depot / none / elsewhere; compared: the '
        'job order of every returned route with Model/LkhRoute.v (CostMatrix, neighbour lists, identity path, rearrange_route). '
        'Termination by a budget of 300 000 AdjacencySpec::cost / distance_approx calls (terminating runs need < 30 000). '
        'non-trivial = the tour changed or the budget was exceeded.')
TRUSTED = ['c17_lkhf: Coq primitive floats (add, sub, sqrt, comparisons; hexadecimal literals) are IEEE-754 binary64 round-to-nearest-even like '
           "Rust's f64 and Python's float / math.sqrt (validated path for path on every run)",
           'c17_lkhf: the exact cost comparison of the oracle writes a tour cost as an integer combination of square roots of square-free '
           'integers (equal iff the combinations are equal, otherwise compared with 120 decimal digits)',
           'c17_lkhf: which of the two models (code as it is / proposed repair) is compared is decided by reading kopt.rs of the tree under test']


def bits(x):
    return str(struct.unpack('<Q', struct.pack('<d', x))[0])


def of_bits(b):
    return struct.unpack('<d', struct.pack('<Q', int(b)))[0]


def fhex(x):
    """Coq literal of a finite non-negative double"""
    if x == 0.0:
        return '0%float'
    return '%s%%float' % float(x).hex()


_REPAIRED = {}


def lkh_repaired():
    """does KOpt::optimize of the tree under test keep every discovered solution (notes/patches/C17-lkh-termination.diff
    applied: no `self.solutions.clear()` any more)?"""
    repo = os.environ.get('VERIF_REPO', '/repo')
    if repo not in _REPAIRED:
        try:
            with open(os.path.join(repo, 'vrp-core/src/algorithms/lkh/kopt.rs')) as fh:
                src = fh.read()
        except OSError:
            src = ''
        _REPAIRED[repo] = 'fn optimize' in src and 'self.solutions.clear()' not in src
    return _REPAIRED[repo]


# ------------------------------------------------------------------ generators
def _points(rng, kind):
    n = rng.range(4, 11)
    if kind == 'grid':
        g = rng.range(2, 5)
        n = min(n, (g + 1) * (g + 1))
        cells = rng.shuffle([(x, y) for x in range(g + 1) for y in range(g + 1)])
        return cells[:n]
    if kind == 'mirror':
        # a point set closed under the reflection (x, y) -> (y, x), plus up to two more points: many pairs of distinct tours of
        # exactly equal length
        g = rng.range(2, 4)
        pts = []
        cells = rng.shuffle([(x, y) for x in range(g + 1) for y in range(x, g + 1)])
        for x, y in cells:
            if len(pts) + 2 > n:
                break
            pts.append((x, y))
            if x != y:
                pts.append((y, x))
        extra = [c for c in rng.shuffle([(x, y) for x in range(g + 1) for y in range(g + 1)]) if c not in pts]
        pts += extra[:rng.below(3)]
        return rng.shuffle(pts)
    if kind == 'dup':
        g = rng.range(1, 3)
        return [(rng.below(g + 1), rng.below(g + 1)) for _ in range(n)]
    if kind == 'line':
        g = rng.range(3, 8)
        pts = [(rng.below(g + 1), 0) for _ in range(n - 2)] + [(rng.below(g + 1), rng.range(1, 3)) for _ in range(2)]
        return rng.shuffle(pts)
    # 'large'
    return [(rng.below(1001), rng.below(1001)) for _ in range(n)]


def _nbr(rng, cost):
    n = len(cost)
    nk = rng.below(100)
    nbr = []
    for i in range(n):
        row = sorted([j for j in range(n) if j != i], key=lambda j: (cost[i][j], j))   # stable sort by cost = lkh_search.rs
        if nk < 60:
            pass
        elif nk < 85:
            row = row[:5]
        else:
            row = rng.shuffle(row)
        nbr.append(row)
    return nbr


def _path(rng, n):
    r = rng.below(100)
    nodes = list(range(n))
    if r < 55:
        return rng.shuffle(nodes), 'permutation'
    if r < 90:
        return nodes[:1] + rng.shuffle(nodes[1:]), 'start0'
    k = rng.range(3, n)
    return rng.shuffle(nodes)[:k], 'subtour'


def make_case(exact, nbr, path, kind, shape):
    return {'op': 'lkhf', 'exact': exact, 'fcost': [[bits(x) for x in row] for row in float_matrix(exact)], 'nbr': nbr, 'path': path,
            'kind': kind, 'shape': shape, 'budget': BUDGET}


def float_matrix(exact):
    """the f64 costs: the correctly rounded values of the exact ones"""
    if exact['kind'] == 'sqrt':
        return [[math.sqrt(v) for v in row] for row in exact['sq']]
    return [[v / exact['den'] for v in row] for row in exact['num']]


def euclid_case(pts, path, nbr=None, kind='grid', shape='permutation'):
    sq = [[(a[0] - b[0]) ** 2 + (a[1] - b[1]) ** 2 for b in pts] for a in pts]
    exact = {'kind': 'sqrt', 'sq': sq, 'pts': [list(p) for p in pts]}
    if nbr is None:
        n = len(pts)
        nbr = [sorted([j for j in range(n) if j != i], key=lambda j: (sq[i][j], j)) for i in range(n)]
    return make_case(exact, nbr, path, kind, shape)


def gen_lkhf(rng):
    kind = rng.choice(['grid', 'grid', 'grid', 'mirror', 'mirror', 'mirror', 'dup', 'line', 'large', 'decimal', 'decimal-line'])
    if kind == 'decimal':
        n = rng.range(4, 10)
        hi = rng.choice([3, 7, 30])
        num = [[0] * n for _ in range(n)]
        for i in range(n):
            for j in range(i + 1, n):
                num[i][j] = num[j][i] = rng.range(1, hi)
        exact = {'kind': 'ratio', 'num': num, 'den': 10}
    elif kind == 'decimal-line':
        n = rng.range(4, 10)
        xs = [rng.below(25) for _ in range(n)]
        exact = {'kind': 'ratio', 'num': [[abs(a - b) for b in xs] for a in xs], 'den': 10}
    else:
        pts = _points(rng, kind)
        n = len(pts)
        exact = {'kind': 'sqrt', 'sq': [[(a[0] - b[0]) ** 2 + (a[1] - b[1]) ** 2 for b in pts] for a in pts], 'pts': [list(p) for p in pts]}
    cost = float_matrix(exact)
    path, shape = _path(rng, n)
    return make_case(exact, _nbr(rng, cost), path, kind, shape)


def search_case(exact, routes, kind):
    """op lkhsearch: LKHSearch::search on a real Problem; exact = the location-to-location distances; routes = [{'start', 'jobs':
    [location of every job in tour order], 'end': location | None}]"""
    return {'op': 'lkhsearch', 'exact': exact, 'size': len(float_matrix(exact)), 'fdist': [[bits(x) for x in row] for row in float_matrix(exact)],
            'routes': routes, 'kind': kind, 'mode': 'diverse', 'budget': BUDGET}


def gen_lkhsearch(rng):
    """the solver's LKH operator on one or two routes over a location matrix with non-integer f64 distances"""
    kind = rng.choice(['grid', 'grid', 'mirror', 'dup', 'line', 'large', 'decimal-line', 'decimal-line', 'decimal-oneway'])
    if kind == 'decimal-line':
        n = rng.range(4, 10)
        xs = [rng.below(25) for _ in range(n)]
        exact = {'kind': 'ratio', 'num': [[abs(a - b) for b in xs] for a in xs], 'den': 10}
    elif kind == 'decimal-oneway':
        # a routing matrix whose two directions differ (one-way detours): lkh_search.rs symmetrises by the ORDER OF THE ACTIVITY
        # INDICES (cost((i, j)) = distance(loc[min i j], loc[max i j])), the neighbour lists use the direction i -> j
        n = rng.range(5, 9)
        xs = [rng.below(40) for _ in range(n)]
        num = [[abs(a - b) * 3 for b in xs] for a in xs]
        for i in range(n):
            for j in range(n):
                if i != j and rng.chance(1, 2):
                    num[i][j] += rng.range(1, 9)
        exact = {'kind': 'ratio', 'num': num, 'den': 10}
    else:
        pts = _points(rng, kind)
        n = len(pts)
        exact = {'kind': 'sqrt', 'sq': [[(a[0] - b[0]) ** 2 + (a[1] - b[1]) ** 2 for b in pts] for a in pts], 'pts': [list(p) for p in pts]}
    locs = list(range(n))
    nroutes = 2 if n >= 8 and rng.chance(1, 4) else 1
    routes = []
    rest = rng.shuffle(locs[nroutes:])
    cut = len(rest) // nroutes
    for r in range(nroutes):
        jobs = rest[r * cut:(r + 1) * cut] if r + 1 < nroutes else rest[r * cut:]
        if rng.chance(1, 5) and jobs:
            jobs = jobs + [rng.choice(jobs) for _ in range(rng.range(1, 2))]        # several jobs at one location
            jobs = rng.shuffle(jobs)
        e = rng.below(10)
        end = r if e < 6 else (None if e < 8 else rng.choice(locs))                 # back to the depot / open / elsewhere
        routes.append({'start': r, 'jobs': jobs, 'end': end})
    return search_case(exact, routes, kind)


def generate(rng, tier, n):
    return [gen_lkhsearch(rng) if rng.chance(1, 4) else gen_lkhf(rng) for _ in range(n)]


def corpus():
    return []


# ------------------------------------------------------------------ model
def nl(xs):
    return '[' + '; '.join('%d' % x for x in xs) + ']%nat'


def nll(xss):
    return '[' + '; '.join('[' + '; '.join('%d' % x for x in xs) + ']' for xs in xss) + ']%nat'


def fmatrix_term(c):
    ex = c['exact']
    if ex['kind'] == 'sqrt' and 'pts' in ex:
        # Euclidean costs are computed by the model itself (PrimFloat.sqrt of the exact squared distance)
        return '(euclid [%s])' % '; '.join('(%d, %d)' % (p[0], p[1]) for p in ex['pts'])
    return '[' + '; '.join('[' + '; '.join(fhex(of_bits(b)) for b in row) + ']' for row in c['fcost']) + ']'


def route_locs(r):
    """the locations of the tour's activities: start, jobs, end (if the vehicle has one)"""
    return [r['start']] + list(r['jobs']) + ([] if r['end'] is None else [r['end']])


def model_term(c, impl=None):
    if c['op'] == 'lkhf':
        fn = 'run_lkhf_repaired' if lkh_repaired() else 'run_lkhf'
        return '%s %s %s %s' % (fn, fmatrix_term(c), nll(c['nbr']), nl(c['path']))
    if c['op'] == 'lkhsearch':
        m = fmatrix_term({'exact': c['exact'], 'fcost': c['fdist']})
        return '(let dm := %s in [%s])' % (m, '; '.join('run_lkh_route %s dm %s' % ('true' if lkh_repaired() else 'false', nl(route_locs(r)))
                                                         for r in c['routes']))
    return None


_EXTRA = {}


def extra_coverage():
    return dict(_EXTRA)


def _bump(k):
    _EXTRA[k] = _EXTRA.get(k, 0) + 1


def expected_jobs(c, ri, order):
    """the job ids of route ri in the order of the re-sequenced tour `order` (indices into the old tour: 0 = start, then the jobs)"""
    base = sum(len(r['jobs']) for r in c['routes'][:ri])
    k = len(c['routes'][ri]['jobs'])
    return [base + i - 1 for i in order if 1 <= i <= k]


def compare_search(c, impl, model):
    if 'panic' in impl:
        return 'implementation panicked: %s' % impl['panic']
    codes = [code for code, _ in model]
    if any(code == 2 for code in codes):
        _bump('lkhsearch_runs_with_hash_order_tie_not_compared')
        return None
    if impl.get('budget_exceeded'):
        if any(code == 4 for code in codes):
            _bump('lkhsearch_runs_where_model_and_code_both_cycle')
            return None
        return 'LKHSearch exceeded the budget of distance evaluations; model: %r' % (model,)
    if any(code == 4 for code in codes):
        return 'model: the search of a route cycles for ever (%r); implementation returned %s' % (model, impl['routes'])
    if any(code == 1 for code in codes):
        return 'model ran out of fuel: %r' % (model,)
    got = {r['vehicle']: r['jobs'] for r in impl['routes']}
    for ri, (code, order) in enumerate(model):
        want = expected_jobs(c, ri, order)
        have = got.get('v%d' % ri, [])
        if want != have:
            return 'route v%d: jobs in tour order: impl %s model %s' % (ri, have, want)
    return None


def compare(c, impl, model):
    if c['op'] == 'lkhsearch':
        return compare_search(c, impl, model)
    if 'panic' in impl:
        return 'implementation panicked: %s' % impl['panic']
    if lkh_repaired():
        code, paths = model
        if code == 2:
            _bump('lkhf_runs_with_hash_order_tie_not_compared')
            return None
        if impl.get('budget_exceeded'):
            return 'implementation exceeded the budget of cost calls; model: %r' % (model,)
        if code != 0:
            return 'model ran out of fuel (code %d)' % code
        if impl['paths'] != paths:
            return 'paths: impl %s model %s' % (impl['paths'], paths)
        return None
    code, path, steps = model
    if code == 2:
        _bump('lkhf_runs_with_hash_order_tie_not_compared')
        return None
    if impl.get('budget_exceeded'):
        if code == 4:
            _bump('lkhf_runs_where_model_and_code_both_cycle')
            return None
        return 'implementation exceeded the budget of cost calls; model: %r' % (model,)
    if code == 4:
        return 'model returns to tour %s after %d improvements (cycles for ever); implementation returned %s' % (path, steps, impl['paths'])
    if code != 0:
        return 'model ran out of fuel (code %d)' % code
    if impl['paths'] != [path]:
        return 'paths: impl %s model %s' % (impl['paths'], [path])
    return None


# ------------------------------------------------------------------ oracle: the contract over the EXACT costs
def _squarefree(n):
    """n = k*k*s with s square-free: (k, s)"""
    k, s, d = 1, n, 2
    while d * d <= s:
        while s % (d * d) == 0:
            s //= d * d
            k *= d
        d += 1
    return k, s


def exact_cost(c, p):
    """closed-tour cost over the exact costs: Fraction for ratios, {square-free s: coefficient} for square roots"""
    ex = c['exact']
    edges = [(p[i], p[(i + 1) % len(p)]) for i in range(len(p))] if p else []
    if ex['kind'] == 'ratio':
        return Fraction(sum(ex['num'][a][b] for a, b in edges), ex['den'])
    comb = {}
    for a, b in edges:
        v = ex['sq'][a][b]
        if v == 0:
            continue
        k, s = _squarefree(v)
        comb[s] = comb.get(s, 0) + k
    return {s: k for s, k in comb.items() if k}


def exact_cmp(x, y):
    """-1 / 0 / 1, None if undecided"""
    if isinstance(x, Fraction):
        return (x > y) - (x < y)
    d = dict(x)
    for s, k in y.items():
        d[s] = d.get(s, 0) - k
    d = {s: k for s, k in d.items() if k}
    if not d:
        return 0
    getcontext().prec = 120
    tot = sum(Decimal(k) * Decimal(s).sqrt() for s, k in d.items())
    if abs(tot) < Decimal(10) ** -80:
        return None
    return 1 if tot > 0 else -1


def nonint(c):
    return any(of_bits(b) != math.floor(of_bits(b)) for row in c['fcost'] for b in row)


def node_cost(c, ri, nodes):
    """what lkh_search.rs optimises for route ri: the CLOSED tour over the LKH nodes (node k = k-th activity of the tour handed in,
    restricted to get_activity_range) in the order `nodes`, with cost((u, v)) = distance(loc[min u v], loc[max u v])"""
    locs = route_locs(c['routes'][ri])
    ex = c['exact']
    edges = [(nodes[i], nodes[(i + 1) % len(nodes)]) for i in range(len(nodes))] if nodes else []
    pairs = [(locs[min(u, v)], locs[max(u, v)]) for u, v in edges]
    if ex['kind'] == 'ratio':
        return Fraction(sum(ex['num'][a][b] for a, b in pairs), ex['den'])
    comb = {}
    for a, b in pairs:
        v = ex['sq'][a][b]
        if v == 0:
            continue
        k, s_ = _squarefree(v)
        comb[s_] = comb.get(s_, 0) + k
    return {s_: k for s_, k in comb.items() if k}


def oracle_search(c, impl):
    """LKHSearch::search: returns (termination), every job stays in its route exactly once (the path handed to lkh_optimize and the
    tour rebuilt from the result are permutations of each other, the start stays), and the closed tour over the re-sequenced
    activities is not longer than before"""
    if 'panic' in impl:
        return [{'class': 'lkh-search-panic', 'what': 'LKHSearch::search panicked: ' + impl['panic']}]
    if impl.get('budget_exceeded'):
        if nonint({'fcost': c['fdist']}):
            return [{'class': 'lkh-does-not-terminate-float-tied-costs',
                     'what': 'LKHSearch::search (solver/search/lkh_search.rs -> lkh_optimize) did not return within %d distance '
                             'evaluations on f64 distances that are not integers (%s)' % (c['budget'], c['kind'])}]
        return [{'class': 'lkh-search-no-termination', 'what': 'LKHSearch::search did not return within %d distance evaluations' % c['budget']}]
    v = []
    got = {r['vehicle']: r['jobs'] for r in impl['routes']}
    for ri, r in enumerate(c['routes']):
        base = sum(len(x['jobs']) for x in c['routes'][:ri])
        ids = list(range(base, base + len(r['jobs'])))
        have = got.get('v%d' % ri, [])
        if sorted(have) != ids:
            v.append({'class': 'lkh-search-route-jobs-changed', 'what': 'route v%d held jobs %s, after LKHSearch %s' % (ri, ids, have)})
            continue
        if len(route_locs(r)) <= 3 and have != ids:
            v.append({'class': 'lkh-search-small-route-changed', 'what': 'route v%d has <= 3 activities but was re-sequenced: %s' % (ri, have)})
        if r['end'] is not None and r['end'] != r['start']:
            # a vehicle end elsewhere is part of the LKH path and may be moved into the tour by rearrange_route (the TODO of
            # get_activity_range); the repair step puts it last again, so the tour LKH evaluated cannot be observed: no cost clause
            continue
        # the LKH nodes in the new order: start (node 0), the jobs (node = 1 + position in the old tour), the depot end is outside the range
        rcmp = exact_cmp(node_cost(c, ri, [0] + [1 + j - base for j in have]), node_cost(c, ri, [0] + [1 + j - base for j in ids]))
        if rcmp is None:
            _bump('lkhf_cost_comparisons_undecided')
        elif rcmp > 0:
            v.append({'class': 'lkh-search-closed-tour-longer', 'what': 'route v%d: the closed tour over %s is longer than over %s' % (ri, have, ids)})
    if impl.get('unassigned') or impl.get('required'):
        v.append({'class': 'lkh-search-job-lost', 'what': '%s unassigned, %s required jobs after LKHSearch on an unconstrained problem' % (impl.get('unassigned'), impl.get('required'))})
    return v


def oracle(c, impl):
    if c['op'] == 'lkhsearch':
        return oracle_search(c, impl)
    if 'panic' in impl:
        return [{'class': 'lkh-panic', 'what': 'lkh_optimize panicked: ' + impl['panic']}]
    if impl.get('budget_exceeded'):
        if nonint(c):
            return [{'class': 'lkh-does-not-terminate-float-tied-costs',
                     'what': 'lkh_optimize did not return within %d cost evaluations on f64 costs that are not integers (%s); '
                             'terminating runs of this stream need < 10 000' % (c['budget'], c['kind'])}]
        return [{'class': 'lkh-no-termination', 'what': 'lkh_optimize did not return within %d cost evaluations' % c['budget']}]
    inp = c['path']
    v = []
    if not impl['paths']:
        v.append({'class': 'lkh-no-path-returned', 'what': 'empty result vector'})
    for out in impl['paths']:
        if sorted(out) != sorted(inp):
            v.append({'class': 'lkh-not-permutation', 'what': 'output %s is not a permutation of %s' % (out, inp)})
            continue
        if inp and out[0] != inp[0]:
            cls = 'lkh-start-moved-to-node-0:input-path-not-starting-at-node-0' if inp[0] != 0 and out[0] == 0 else 'lkh-start-changed'
            v.append({'class': cls, 'what': 'input starts at node %d, output %s starts at node %d' % (inp[0], out, out[0])})
        r = exact_cmp(exact_cost(c, out), exact_cost(c, inp))
        if r is None:
            _bump('lkhf_cost_comparisons_undecided')
        elif r > 0:
            v.append({'class': 'lkh-cost-increased:float-costs', 'what': 'exact closed-tour cost of %s is above the cost of the input %s' % (out, inp)})
    return v


def nontrivial_key(c, impl):
    if 'panic' in impl:
        return None
    if c['op'] == 'lkhsearch':
        if impl.get('budget_exceeded'):
            return ('lkhsearch', json.dumps([c['routes'], c['fdist']]))
        base, changed = 0, False
        got = {r['vehicle']: r['jobs'] for r in impl['routes']}
        for ri, r in enumerate(c['routes']):
            changed = changed or got.get('v%d' % ri) != list(range(base, base + len(r['jobs'])))
            base += len(r['jobs'])
        return ('lkhsearch', json.dumps([c['routes'], c['fdist']])) if changed else None
    if impl.get('budget_exceeded') or impl.get('paths') != [c['path']]:
        return ('lkhf', json.dumps([c['path'], c['fcost'], c['nbr']]))
    return None


def classify(c, impl):
    if c['op'] == 'lkhsearch':
        labs = ['op=lkhsearch', 'lkhsearch-dist:' + c['kind'], 'lkhsearch-routes=%d' % len(c['routes'])]
        for r in c['routes']:
            labs.append('lkhsearch-end:%s' % ('depot' if r['end'] == r['start'] else 'open' if r['end'] is None else 'elsewhere'))
        if 'panic' not in impl:
            labs.append('lkhsearch-budget-exceeded' if impl.get('budget_exceeded') else 'lkhsearch-returned')
        labs.append('lkhf-model:%s' % ('repaired' if lkh_repaired() else 'as-is'))
        return sorted(set(labs))
    labs = ['op=' + c['op'], 'lkhf-cost:' + c['kind'], 'lkhf-path:' + c['shape']]
    if 'panic' not in impl:
        if impl.get('budget_exceeded'):
            labs.append('lkhf-budget-exceeded')
        else:
            labs.append('lkhf-improved=%s' % (impl['paths'] != [c['path']]))
            calls = impl.get('calls', 0)
            labs.append('lkhf-cost-calls:%s' % ('<1e3' if calls < 1000 else '<1e4' if calls < 10000 else '<1e5' if calls < 100000 else '>=1e5'))
    labs.append('lkhf-model:%s' % ('repaired' if lkh_repaired() else 'as-is'))
    return labs
