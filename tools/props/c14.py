"""C14 — tours and the vehicle registry stay well-formed under any operation sequence (plugin for tools/verif.py).

A case is a history (list of operations) over several slots; `copy`/`slice` push a new slot.  The harness runs it on the real
Tour/Route/RouteContext, Registry/RegistryContext or (kind "ho") InsertionContext/Solution and dumps the observable state after
every step; the Coq model (Model/TourReg.v, run_tour / run_reg / run_ho) is evaluated on the same history.  compare = step-by-step
equality of the dumps; oracle = the well-formedness clauses of the property evaluated on the implementation's dumps alone."""

ID = 'C14'
HARNESS = 'c14'
COQ_IMPORTS = 'From VRP Require Import Base.Tac Model.TourReg.\nOpen Scope nat_scope.'
MODEL_TARGETS = ['theories/Model/TourReg.vo']
SIZES = {'quick': 1400, 'thorough': 12000, 'search': 6000}
RULE = ('cases: histories of 4-45 operations. tour histories (50%): insert_at at every legal position (biased to the first/last '
        'legal index), insert_last, remove of present/absent jobs, remove_activity_at, on open and closed tours with single and '
        'multi jobs (several activities per job), interleaved with Tour/Route/RouteContext deep copies (up to 4 live slots, later '
        'operations hit copies and originals) and tour-state writes; 14% of them end with one out-of-guard operation '
        '(index > len, depot activity, remove_activity_at on a depot/out of range: both sides must panic; index 0 / index = len '
        'on a closed tour: accepted by the code). registry histories (30%): use/free/get_route/use_route/free_route on fleet and '
        'foreign actors, next/next_route with scripted draws (min/max/mid), deep_copy and deep_slice with later operations on '
        'both, on raw Registry and RegistryContext, 1-7 actors in 1-4 groups. hand-over histories (20%, kind "ho"): slots are real '
        'InsertionContexts and Solutions of a real Problem (fleet of 2-6 actors, single jobs, stateless goal, zero matrix, locks that '
        'select one actor). Start: a Solution with Registry::new and no routes (43%), InsertionContext::new_empty/new without locks, '
        'or InsertionContext::new with 1-3 locks (lazy, repeated actor, foreign actor, empty job list). Solution slots: routes are '
        'pushed with and without jobs, the registry is edited directly (use_actor/free_actor), so the solution reaches ANY registry '
        'state: vehicles of job-less tours marked used (what read_init_solution produces, 70% of the pushed routes), route vehicles '
        'not marked, route-less vehicles marked, duplicate and foreign route actors; InsertionContext::new_from_solution pushes a '
        'context slot. Context slots: get_route+push, insert_last/remove on routes (routes become empty), restore, keep_routes, '
        'next_route, use_route/free_route/get_route alone, deep_copy, Solution::from(ctx.deep_copy()) pushing a solution slot, mostly '
        'followed by new_from_solution again (round trip). Every dump of a context also reports for which actors get_route (on a '
        'copy of the registry) hands out a route and what next_route returns. non-trivial = distinct history with >= 3 '
        'state-changing steps (hand-over histories: at least one completed hand-over). Job arguments of remove and of the index/index_last/job_activities/contains queries are jobs of the tour, '
        'sub-jobs of a multi job wrapped as a standalone Job::Single (NOT a job of the tour: retrieve_job of its activity is the multi) or '
        'absent jobs; fleets contain vehicles with several shifts including IDENTICAL ones (distinct actors that look equal).')
TRUSTED = ['identity of jobs/actors (Arc pointer equality and hash) is modelled as equality of small numbers; the harness maps pointers to numbers',
           'HashSet/HashMap iteration order is not modelled: jobs()/available() are compared as sorted sets, next() as "one member of every non-empty group"',
           'deep-copy independence at the level of Rust memory is checked by the harness (mutate one slot, re-dump all others), not proved: in the functional model it holds by construction (frame theorem)',
           'hand-over stream: new_from_solution / Solution::from consume their argument, so the harness passes a copy made of Registry::deep_copy + Route::deep_copy (solutions) or InsertionContext::deep_copy (contexts) and keeps the original slot alive']
ASSUMPTIONS = ['Multi jobs stay alive while their sub-jobs are in a tour (Multi::roots upgrades a Weak)',
               'Fleet groups partition the actors (guaranteed by Fleet::new, modelled by fleet_groups)',
               'the depot ends stay in place only for insert_at indices within 1..=total-(1 if closed) (every in-repo caller passes leg index + 1); the code does not check this — see finding',
               'hand-over: GoalContext::accept_solution_state / accept_route_state leave routes and registry alone (true for the stateless goal of the harness; a feature may do otherwise); '
               'the "offered iff no route holds it" statement after new_from_solution needs pairwise distinct route actors that belong to the fleet and a solution registry that marks only route actors as used '
               '(for other inputs the three-case theorem C14_handover_offers says what happens); lock conditions select one actor, locked jobs are Single jobs']

START = [0, 0]
END = [0, 1]


# ------------------------------------------------------------------ generators
def _pick_index(rng, lo, hi):
    """index in [lo, hi], biased to the boundaries"""
    r = rng.below(10)
    if r < 3:
        return lo
    if r < 6:
        return hi
    return rng.range(lo, hi)


def gen_tour(rng, tier):
    closed = rng.chance(3, 5)
    nj = rng.range(1, 5)
    jobs = [0 if rng.chance(1, 2) else rng.range(2, 3) for _ in range(nj)]
    c = 1 if closed else 0
    slots = [[START] + ([END] if closed else [])]   # generator-side bookkeeping of lengths only
    ops = []
    tag = 1                                         # 0 and 1 are the depot tags
    n = rng.range(4, 45 if tier != 'quick' else 32)
    malformed = rng.chance(14, 100)

    subs = [(j, sb) for j in range(nj) for sb in range(jobs[j])]      # sub-jobs of multi jobs wrapped as Job::Single

    def sub_id(j, sb):
        return nj + subs.index((j, sb))

    def any_job(acts):
        """a job argument: (a) job of the tour, (b) sub-job of a multi of the tour as standalone Single, (c) anything"""
        present = sorted(set(a[0] for a in acts if a[0]))
        r = rng.below(10)
        if r < 4 and present:
            return rng.choice(present) - 1
        multis = [p - 1 for p in present if jobs[p - 1]] or [j for j in range(nj) if jobs[j]]
        if r < 8 and multis:
            j = rng.choice(multis)
            return sub_id(j, rng.below(jobs[j]))
        return rng.below(nj + len(subs))

    def new_act():
        nonlocal tag
        tag += 1
        j = rng.below(nj)
        sub = rng.below(jobs[j]) if jobs[j] else 0
        return j, sub, tag

    for _ in range(n):
        k = rng.below(len(slots))
        acts = slots[k]
        njobacts = len(acts) - 1 - c
        r = rng.below(100)
        if r < 30 or njobacts == 0 and r < 60:
            j, sub, t = new_act()
            idx = _pick_index(rng, 1, len(acts) - c)
            ops.append(['ins', k, j, sub, t, idx])
            acts.insert(idx, [j + 1, t])
        elif r < 45:
            j, sub, t = new_act()
            ops.append(['last', k, j, sub, t])
            acts.insert(len(acts) - c, [j + 1, t])
        elif r < 58:
            present = sorted(set(a[0] for a in acts if a[0]))
            if present and rng.chance(3, 5):
                j = rng.choice(present) - 1
            else:
                j = any_job(acts)
            ops.append(['rm', k, j])
            slots[k] = [a for a in acts if a[0] != j + 1]
        elif r < 64:
            ops.append(['q', k, rng.below(4), any_job(acts)])
        elif r < 78 and njobacts > 0:
            idx = _pick_index(rng, 1, njobacts)
            ops.append(['rmat', k, idx])
            j1 = acts[idx][0]
            slots[k] = [a for a in acts if a[0] != j1]
        elif r < 88 and len(slots) < 4:
            ops.append(['copy', k, rng.below(3)])
            slots.append([list(a) for a in acts])
        elif r < 94:
            ops.append(['state', k, rng.below(50)])
        else:
            j, sub, t = new_act()
            ops.append(['last', k, j, sub, t])
            acts.insert(len(acts) - c, [j + 1, t])
    expect = 'ok'
    if malformed:
        k = rng.below(len(slots))
        acts = slots[k]
        r = rng.below(8)
        tag += 1
        j = rng.below(nj)
        if r == 0:
            ops.append(['ins', k, j, 0, tag, len(acts) + 1 + rng.below(3)])
            expect = 'panic'
        elif r == 1:
            ops.append(['insdepot', k, tag, rng.range(1, len(acts))])
            expect = 'panic'
        elif r == 2:
            ops.append(['rmat', k, 0])
            expect = 'panic'
        elif r == 3:
            ops.append(['rmat', k, len(acts) - 1 if closed else len(acts)])
            expect = 'panic'
        elif r == 4:
            ops.append(['rmat', k, len(acts) + rng.below(3)])
            expect = 'panic'
        elif r == 5:
            ops.append(['ins', k, j, 0, tag, 0])
            expect = 'unguarded'
        elif r == 6 and closed:
            ops.append(['ins', k, j, 0, tag, len(acts)])
            expect = 'unguarded'
        else:
            ops.append(['ins', k, j, 0, tag, len(acts) + 1])
            expect = 'panic'
    return {'kind': 'tour', 'closed': closed, 'jobs': jobs, 'ops': ops, 'expect': expect}


def gen_reg(rng, tier):
    ng = rng.range(1, 4)
    fleet = []                                            # vehicles: [group key, detail variants]; one actor per detail
    n = 0
    target = rng.range(1, 7)
    while n < target:
        nd = min(target - n, 1 if rng.chance(1, 2) else rng.range(2, 3))
        variants = [rng.below(2) for _ in range(nd)]      # equal variants = identical VehicleDetail = two distinct equal-looking actors
        fleet.append([rng.below(ng) * 3, variants])       # sparse group keys; several vehicles may share a group
        n += nd
    groups = [g for g, vs in fleet for _ in vs]
    ctx = rng.chance(1, 2)
    ops = []
    used = [set()]                                       # generator-side guess of what is in use (only steers choices)
    alls = [set(range(n))]
    m = rng.range(4, 45 if tier != 'quick' else 30)
    for _ in range(m):
        k = rng.below(len(used))
        r = rng.below(100)
        if r < 8:
            a = n + rng.below(3)                          # foreign actor
        elif r < 50 and used[k]:
            a = rng.choice(sorted(used[k]))
        else:
            a = rng.below(n)
        r = rng.below(100)
        if r < 22:
            ops.append(['use', k, a])
            if a in alls[k]:
                used[k].add(a)
        elif r < 40:
            ops.append(['get', k, a])
            if a in alls[k]:
                used[k].add(a)
        elif r < 66:
            ops.append(['free', k, a])
            used[k].discard(a)
        elif r < 80:
            ops.append(['next', k, rng.below(3)])
        elif r < 88 and len(used) < 4:
            ops.append(['copy', k])
            used.append(set(used[k]))
            alls.append(set(alls[k]))
        elif r < 96 and len(used) < 4:
            keep = [a for a in range(n + 1) if rng.chance(3, 5)]
            ops.append(['slice', k, keep])
            used.append(set(x for x in used[k] if x in keep))
            alls.append(set(x for x in alls[k] if x in keep))
        else:
            ops.append(['next', k, 1])
    return {'kind': 'reg', 'ctx': ctx, 'groups': groups, 'fleet': fleet, 'ops': ops, 'expect': 'ok'}


def gen_ho(rng, tier):
    """hand-over histories over InsertionContext / Solution slots (the generator simulates registry and routes only to steer)"""
    ng = rng.range(1, 3)
    fleet = []
    n = 0
    target = rng.range(2, 6)
    while n < target:
        nd = min(target - n, 1 if rng.chance(2, 3) else 2)
        fleet.append([rng.below(ng) * 3, [rng.below(2) for _ in range(nd)]])
        n += nd
    groups = [g for g, vs in fleet for _ in vs]
    closed = rng.chance(3, 5)
    nj = rng.range(3, 5)
    tag = [1]
    ops = []

    def new_tag():
        tag[0] += 1
        return tag[0]

    def an_actor(prefer=None):
        if prefer and rng.chance(4, 5):
            return rng.choice(sorted(prefer))
        return n + rng.below(3) if rng.chance(1, 25) else rng.below(n)

    # slot: {'kind': 'ctx'|'sol', 'used': set, 'routes': [[actor, [jobs]]]}
    r = rng.below(100)
    case = {'kind': 'ho', 'closed': closed, 'groups': groups, 'fleet': fleet, 'nj': nj, 'expect': 'ok'}
    if r < 50:
        case['init'] = None
        slots = [{'kind': 'sol', 'used': set(), 'routes': []}]
    elif r < 65:
        case['init'] = []
        case['empty'] = rng.chance(1, 2)
        slots = [{'kind': 'ctx', 'used': set(), 'routes': []}]
    else:
        locks = []
        st = {'kind': 'ctx', 'used': set(), 'routes': []}
        for _ in range(rng.range(1, 3)):
            a = an_actor()
            lazy = 1 if rng.chance(1, 5) else 0
            js = [rng.below(nj) for _ in range(rng.below(3))]
            locks.append([a, lazy, js])
            if not lazy and a < n and a not in st['used']:
                st['used'].add(a)
                st['routes'].append([a, list(js)])
        case['init'] = locks
        slots = [st]
    dead = [False]

    def fill(k, i, cnt):
        for _ in range(cnt):
            j = rng.below(nj)
            ops.append(['last', k, i, j, new_tag()])
            slots[k]['routes'][i][1].append(j)

    def release(st, removed):
        for a, _ in removed:
            if a < n and a in st['used']:
                st['used'].discard(a)
            else:
                dead[0] = True          # assert!(free_route) fails: the history ends here on both sides

    m = rng.range(6, 30 if tier != 'quick' else 24)
    while len(ops) < m and not dead[0]:
        k = rng.below(len(slots))
        st = slots[k]
        r = rng.below(100)
        ras = [a for a, _ in st['routes']]
        if st['kind'] == 'sol':
            if r < 34:
                free_as = set(range(n)) - set(ras)
                a = an_actor(free_as) if not rng.chance(1, 12) else an_actor(set(ras) or None)
                ops.append(['add', k, a])
                st['routes'].append([a, []])
                i = len(st['routes']) - 1
                if rng.chance(7, 10):                     # as the initial-solution readers do: every tour marks its vehicle used
                    ops.append(['use', k, a])
                    if a < n:
                        st['used'].add(a)
                if rng.chance(3, 5):
                    fill(k, i, rng.range(1, 2))
            elif r < 44:
                a = an_actor(st['used'] or None)
                if rng.chance(1, 2):
                    ops.append(['use', k, a])
                    if a < n:
                        st['used'].add(a)
                else:
                    ops.append(['free', k, a])
                    st['used'].discard(a)
            elif r < 52 and st['routes']:
                i = rng.below(len(st['routes']))
                fill(k, i, 1)
            elif r < 62 and st['routes']:
                i = rng.below(len(st['routes']))
                js = st['routes'][i][1]
                j = rng.choice(js) if js and rng.chance(4, 5) else rng.below(nj)
                ops.append(['rm', k, i, j])
                st['routes'][i][1] = [x for x in js if x != j]
            elif r < 92 and len(slots) < 6 and (st['routes'] or rng.chance(1, 4)):
                ops.append(['fromsol', k])
                used = set(st['used'])
                kept = []
                for a, js in st['routes']:
                    if js:
                        kept.append([a, list(js)])
                        if a < n:
                            used.add(a)
                    else:
                        used.discard(a)
                slots.append({'kind': 'ctx', 'used': used, 'routes': kept})
            elif r < 96 and len(slots) < 6:
                ops.append(['copy', k])
                slots.append({'kind': 'sol', 'used': set(st['used']), 'routes': [[a, list(js)] for a, js in st['routes']]})
        else:
            if r < 22:
                a = an_actor(set(range(n)) - st['used']) if rng.chance(3, 4) else an_actor(st['used'] or None)
                ops.append(['getpush', k, a])
                if a < n and a not in st['used']:
                    st['used'].add(a)
                    st['routes'].append([a, []])
                    if rng.chance(3, 5):
                        fill(k, len(st['routes']) - 1, rng.range(1, 2))
            elif r < 30 and st['routes']:
                fill(k, rng.below(len(st['routes'])), 1)
            elif r < 42 and st['routes']:
                i = rng.below(len(st['routes']))
                js = st['routes'][i][1]
                j = rng.choice(js) if js and rng.chance(5, 6) else rng.below(nj)
                ops.append(['rm', k, i, j])
                st['routes'][i][1] = [x for x in js if x != j]
            elif r < 52:
                ops.append(['restore', k])
                release(st, [rt for rt in st['routes'] if not rt[1]])
                st['routes'] = [rt for rt in st['routes'] if rt[1]]
            elif r < 59:
                keep = [a for a in range(n + 1) if rng.chance(3, 5)]
                ops.append(['keep', k, keep])
                release(st, [rt for rt in st['routes'] if rt[0] not in keep])
                st['routes'] = [rt for rt in st['routes'] if rt[0] in keep]
            elif r < 66:
                ops.append(['next', k, rng.below(3)])
            elif r < 72:
                # registry alone: acquire without a route, release of such an actor, refused calls; rarely a release behind a route's back
                held = st['used'] - set(ras)
                q = rng.below(10)
                if q < 4:
                    a = an_actor()
                    ops.append([rng.choice(['use', 'get']), k, a])
                    if a < n:
                        st['used'].add(a)
                elif q < 9 or not ras:
                    a = an_actor(held or None)
                    if a in ras and a in st['used']:
                        a = n                                     # keep this branch disciplined
                    ops.append(['free', k, a])
                    st['used'].discard(a)
                else:
                    a = rng.choice(ras)
                    ops.append(['free', k, a])
                    st['used'].discard(a)
            elif r < 90 and len(slots) < 6:
                ops.append(['into', k])
                slots.append({'kind': 'sol', 'used': set(st['used']), 'routes': [[a, list(js)] for a, js in st['routes']]})
                if rng.chance(4, 5) and len(slots) < 6:            # round trip
                    k2 = len(slots) - 1
                    ops.append(['fromsol', k2])
                    used = set(st['used'])
                    kept = []
                    for a, js in st['routes']:
                        if js:
                            kept.append([a, list(js)])
                            if a < n:
                                used.add(a)
                        else:
                            used.discard(a)
                    slots.append({'kind': 'ctx', 'used': used, 'routes': kept})
            elif r < 95 and len(slots) < 6:
                ops.append(['copy', k])
                slots.append({'kind': 'ctx', 'used': set(st['used']), 'routes': [[a, list(js)] for a, js in st['routes']]})
    case['ops'] = ops
    if dead[0]:
        case['expect'] = 'panic'
    return case


def generate(rng, tier, n):
    cases = []
    for _ in range(n):
        r = rng.below(100)
        cases.append(gen_tour(rng, tier) if r < 50 else gen_reg(rng, tier) if r < 80 else gen_ho(rng, tier))
    return cases


def corpus():
    cs = _corpus()
    for c in cs:                       # tags 0/1 are the depots: shift the hand-written tags
        for o in c['ops']:
            if o[0] in ('ins', 'last'):
                o[4] += 1
    return cs


def _corpus():
    return [
        # the examples of tour_test / actor_test shapes and boundary histories
        {'kind': 'tour', 'closed': True, 'jobs': [0, 2], 'expect': 'ok',
         'ops': [['last', 0, 0, 0, 1], ['ins', 0, 1, 0, 2, 1], ['ins', 0, 1, 1, 3, 3], ['copy', 0, 2], ['state', 1, 7],
                 ['rmat', 1, 1], ['rm', 0, 0], ['rm', 0, 0], ['last', 0, 0, 0, 4], ['last', 1, 1, 1, 5]]},
        {'kind': 'tour', 'closed': False, 'jobs': [0, 0, 3], 'expect': 'ok',
         'ops': [['rm', 0, 1], ['last', 0, 2, 0, 1], ['last', 0, 2, 2, 2], ['ins', 0, 0, 0, 3, 2], ['ins', 0, 2, 1, 4, 4],
                 ['copy', 0, 0], ['rmat', 0, 4], ['ins', 1, 1, 0, 5, 1], ['copy', 1, 1], ['rm', 2, 2]]},
        {'kind': 'tour', 'closed': False, 'jobs': [0], 'expect': 'ok', 'ops': [['copy', 0, 2], ['last', 1, 0, 0, 1], ['rmat', 1, 1]]},
        {'kind': 'tour', 'closed': True, 'jobs': [0], 'expect': 'panic', 'ops': [['last', 0, 0, 0, 1], ['rmat', 0, 2]]},
        {'kind': 'tour', 'closed': False, 'jobs': [0], 'expect': 'panic', 'ops': [['last', 0, 0, 0, 1], ['ins', 0, 0, 0, 2, 3]]},
        {'kind': 'reg', 'ctx': True, 'groups': [0, 0, 3], 'expect': 'ok',
         'ops': [['get', 0, 0], ['get', 0, 0], ['next', 0, 1], ['copy', 0], ['free', 1, 0], ['slice', 0, [1, 2]], ['free', 2, 0],
                 ['use', 0, 4], ['next', 0, 1], ['free', 0, 0], ['free', 0, 0], ['get', 2, 1], ['next', 2, 2]]},
        # a sub-job of a multi job wrapped as Job::Single is not a job of the tour
        {'kind': 'tour', 'closed': True, 'jobs': [2, 0], 'expect': 'ok',
         'ops': [['last', 0, 0, 0, 1], ['last', 0, 0, 1, 2], ['last', 0, 1, 0, 3], ['q', 0, 0, 2], ['q', 0, 1, 3], ['q', 0, 2, 2],
                 ['q', 0, 3, 3], ['rm', 0, 3], ['q', 0, 2, 0], ['q', 0, 1, 0], ['rm', 0, 2], ['rm', 0, 0], ['q', 0, 3, 0]]},
        # one vehicle with two identical shifts = two distinct actors
        {'kind': 'reg', 'ctx': False, 'groups': [0, 0, 0], 'fleet': [[0, [0, 0]], [0, [0]]], 'expect': 'ok',
         'ops': [['next', 0, 1], ['use', 0, 0], ['use', 0, 1], ['free', 0, 0], ['use', 0, 0], ['copy', 0], ['free', 1, 1]]},
        {'kind': 'reg', 'ctx': True, 'groups': [3, 3, 3, 0], 'fleet': [[3, [1, 1, 1]], [0, [0]]], 'expect': 'ok',
         'ops': [['get', 0, 1], ['get', 0, 2], ['get', 0, 1], ['next', 0, 0], ['free', 0, 2], ['slice', 0, [0, 2]], ['get', 1, 0], ['get', 1, 2]]},
        {'kind': 'reg', 'ctx': False, 'groups': [0, 0, 0, 6], 'expect': 'ok',
         'ops': [['use', 0, 1], ['use', 0, 1], ['next', 0, 1], ['use', 0, 0], ['next', 0, 1], ['slice', 0, [0, 1, 3]],
                 ['free', 1, 2], ['free', 1, 1], ['free', 0, 1], ['next', 1, 0]]},
        # hand-over: three tours read like an initial solution (every tour marks its vehicle used), the middle one without jobs
        {'kind': 'ho', 'closed': True, 'groups': [0, 0, 0], 'fleet': [[0, [0]], [0, [0]], [0, [0]]], 'nj': 3, 'init': None, 'expect': 'ok',
         'ops': [['add', 0, 0], ['use', 0, 0], ['last', 0, 0, 0, 2], ['last', 0, 0, 1, 3], ['add', 0, 1], ['use', 0, 1],
                 ['add', 0, 2], ['use', 0, 2], ['last', 0, 2, 2, 4], ['fromsol', 0], ['getpush', 1, 1], ['getpush', 1, 1],
                 ['getpush', 1, 0], ['restore', 1], ['keep', 1, []], ['next', 1, 1]]},
        # context with locks -> empty a route -> into Solution (the empty route's vehicle still marked used) -> back
        {'kind': 'ho', 'closed': False, 'groups': [0, 3, 3], 'fleet': [[0, [0]], [3, [1, 1]]], 'nj': 3, 'expect': 'ok',
         'init': [[1, 0, [0, 1]], [2, 0, []], [1, 0, [2]], [0, 1, [2]]],
         'ops': [['rm', 0, 0, 0], ['rm', 0, 0, 1], ['into', 0], ['fromsol', 1], ['getpush', 2, 1], ['getpush', 2, 2],
                 ['last', 2, 0, 2, 5], ['into', 2], ['fromsol', 3], ['copy', 4], ['keep', 5, [0]], ['restore', 0]]},
        # arbitrary registry states of the solution: route actor not marked used, route-less actor marked used, duplicate route actor
        {'kind': 'ho', 'closed': True, 'groups': [0, 0, 3, 3], 'fleet': [[0, [0, 0]], [3, [0]], [3, [1]]], 'nj': 3, 'init': None, 'expect': 'ok',
         'ops': [['add', 0, 0], ['last', 0, 0, 0, 2], ['add', 0, 1], ['use', 0, 3], ['fromsol', 0], ['add', 0, 0], ['use', 0, 0],
                 ['fromsol', 0], ['getpush', 1, 0], ['getpush', 1, 1], ['getpush', 1, 3], ['free', 0, 3], ['fromsol', 0]]},
    ]


# ------------------------------------------------------------------ model terms
def _act(j, tag):
    return '(mkAct %s %d)' % ('None' if j is None else '(Some %d)' % j, tag)


def _nl(xs):
    return '[' + '; '.join(str(int(x)) for x in xs) + ']'


def _ho_kinds(c):
    """kind of the slot every operation addresses ('ctx'/'sol'), from the structure of the history"""
    kinds = ['sol' if c['init'] is None else 'ctx']
    out = []
    for o in c['ops']:
        k = o[1]
        kind = kinds[k] if k < len(kinds) else None
        out.append(kind)
        if o[0] == 'fromsol':
            kinds.append('ctx')
        elif o[0] == 'into':
            kinds.append('sol')
        elif o[0] == 'copy':
            kinds.append(kind)
    return out


def _ho_term(c):
    ts = []
    for o, kind in zip(c['ops'], _ho_kinds(c)):
        n, k = o[0], o[1]
        ctx = kind == 'ctx'
        if n == 'getpush':
            ts.append('HCtxOp %d (CGetPush %d)' % (k, o[2]))
        elif n in ('use', 'free', 'get'):
            r = {'use': 'RUse', 'free': 'RFree', 'get': 'RGet'}[n]
            ts.append(('HCtxOp %d (CReg (%s %d))' if ctx else 'HSolReg %d (%s %d)') % (k, r, o[2]))
        elif n == 'next':
            ts.append('HCtxOp %d (CReg RNext)' % k)
        elif n == 'last':
            t = '(TInsertLast %s)' % _act(o[3], o[4])
            ts.append(('HCtxOp %d (CTour %d %s)' if ctx else 'HSolTour %d %d %s') % (k, o[2], t))
        elif n == 'rm':
            t = '(TRemove %d)' % o[3]
            ts.append(('HCtxOp %d (CTour %d %s)' if ctx else 'HSolTour %d %d %s') % (k, o[2], t))
        elif n == 'keep':
            ts.append('HCtxOp %d (CKeep %s)' % (k, _nl(o[2])))
        elif n == 'restore':
            ts.append('HCtxOp %d CRestore' % k)
        elif n == 'add':
            ts.append('HSolAdd %d %d' % (k, o[2]))
        elif n == 'fromsol':
            ts.append('HFromSol %d' % k)
        elif n == 'into':
            ts.append('HInto %d' % k)
        elif n == 'copy':
            ts.append('HCopy %d' % k)
    if c['init'] is None:
        init = 'None'
    else:
        init = '(Some [%s])' % '; '.join('mkLock %d %s [%s]' % (a, 'true' if lazy else 'false', '; '.join(_act(j, 100 + j) for j in js))
                                         for a, lazy, js in c['init'])
    return 'run_ho %s %s %s [%s]' % (_nl(c['groups']), 'true' if c['closed'] else 'false', init, '; '.join(ts))


def model_term(c):
    if c['kind'] == 'ho':
        return _ho_term(c)
    if c['kind'] == 'tour':
        ts = []
        for o in c['ops']:
            n, k = o[0], o[1]
            if n == 'ins':
                ts.append('STour %d (TInsertAt %s %d)' % (k, _act(o[2], o[4]), o[5]))
            elif n == 'insdepot':
                ts.append('STour %d (TInsertAt %s %d)' % (k, _act(None, o[2]), o[3]))
            elif n == 'last':
                ts.append('STour %d (TInsertLast %s)' % (k, _act(o[2], o[4])))
            elif n == 'rm':
                ts.append('STour %d (TRemove %d)' % (k, o[2]))
            elif n == 'rmat':
                ts.append('STour %d (TRemoveAt %d)' % (k, o[2]))
            elif n == 'q':
                ts.append('SQuery %d %d %d' % (k, o[2], o[3]))
            elif n == 'copy':
                ts.append('SCopy %d %d' % (k, o[2]))
            elif n == 'state':
                ts.append('SSetState %d %d' % (k, o[2]))
        return 'run_tour %s [%s]' % ('true' if c['closed'] else 'false', '; '.join(ts))
    ts = []
    for o in c['ops']:
        n, k = o[0], o[1]
        if n == 'use' or (n == 'get' and not c['ctx']):
            ts.append('RSOp %d (RUse %d)' % (k, o[2]))
        elif n == 'get':
            ts.append('RSOp %d (RGet %d)' % (k, o[2]))
        elif n == 'free':
            ts.append('RSOp %d (RFree %d)' % (k, o[2]))
        elif n == 'next':
            ts.append('RSOp %d RNext' % k)
        elif n == 'copy':
            ts.append('RSCopy %d' % k)
        elif n == 'slice':
            ts.append('RSSlice %d %s' % (k, _nl(o[2])))
    return 'run_reg %s [%s]' % (_nl(c['groups']), '; '.join(ts))


# ------------------------------------------------------------------ compare (implementation vs model)
def _tour_dump_diff(d, m):
    acts, jobs, legs, counts = m
    if d['acts'] != acts:
        return 'activities: impl %s model %s' % (d['acts'], acts)
    if d['jobs'] != sorted(j + 1 for j in jobs):
        return 'jobs(): impl %s model %s' % (d['jobs'], sorted(j + 1 for j in jobs))
    if d['legs'] != legs:
        return 'legs(): impl %s model %s' % (d['legs'], legs)
    if d['counts'] != counts:
        return 'total/job_activity_count/job_count/has_jobs/state: impl %s model %s' % (d['counts'], counts)
    return None


def _reg_dump_diff(d, m):
    groups, alls, _idx = m
    avail = sorted(a for g in groups for a in g[1:])
    if d['avail'] != avail:
        return 'available(): impl %s model %s' % (d['avail'], avail)
    if d['all'] != alls:
        return 'all(): impl %s model %s' % (d['all'], alls)
    return None


def _check_next(groups_of, avail_groups, extra):
    """next(): exactly one member of every non-empty group, draws (0, len-1) for groups with >= 2 members"""
    nxt = extra.get('next')
    want_groups = sorted(g[0] for g in avail_groups if len(g) > 1)
    got_groups = []
    for a in nxt:
        grp = [g for g in avail_groups if a in g[1:]]
        if not grp:
            return 'next() returned actor %s which is not available' % a
        got_groups.append(grp[0][0])
    if sorted(got_groups) != want_groups:
        return 'next() covers groups %s, non-empty groups are %s' % (sorted(got_groups), want_groups)
    draws = sorted(tuple(x) for x in extra.get('draws', []))
    want = sorted((0, len(g) - 2) for g in avail_groups if len(g) - 1 >= 2)
    if draws != want:
        return 'next() draws %s, expected %s' % (draws, want)
    return None


def _ho_dump_diff(c, d, m):
    kind, (grs, alls, _idx), routes, gettable = m
    if d['kind'] != kind:
        return 'slot kind: impl %s model %s' % (d['kind'], kind)
    avail = sorted(a for g in grs for a in g[1:])
    if d['avail'] != avail:
        return 'available(): impl %s model %s' % (d['avail'], avail)
    if d['all'] != alls:
        return 'all(): impl %s model %s' % (d['all'], alls)
    flat = [r[:2] + [x for a in r[2:] for x in a] for r in d['routes']]
    if flat != routes:
        return 'routes (actor, has_jobs, activities): impl %s model %s' % (flat, routes)
    if kind == 0:
        if d['gettable'] != gettable:
            return 'actors for which get_route returns a route: impl %s model %s' % (d['gettable'], gettable)
        return _check_next(c['groups'], grs, d)
    return None


def _compare_ho(c, impl, model):
    k0, r0, rt0, g0, (steps, panicked, finals) = model
    panicked = (panicked == 'true')
    if impl['init'] is None:
        return None if k0 == 2 else 'the factory panicked (%s), the model builds a context' % impl['stop']
    if k0 == 2:
        return 'the model factory panics, the implementation built a context'
    d = _ho_dump_diff(c, impl['init'], (k0, r0, rt0, g0))
    if d:
        return 'initial slot: %s' % d
    if (impl['stop'] is not None) != panicked:
        return 'panic: impl %r model %s (after %d steps)' % (impl['stop'], panicked, len(impl['steps']))
    if len(impl['steps']) != len(steps):
        return 'number of completed steps: impl %d model %d' % (len(impl['steps']), len(steps))
    for i, (si, sm) in enumerate(zip(impl['steps'], steps)):
        ret, dm = sm
        if si['ret'] != ret:
            return 'step %d %s: result impl %s model %s' % (i, c['ops'][i], si['ret'], ret)
        d = _ho_dump_diff(c, si['dump'], dm)
        if d:
            return 'step %d %s: %s' % (i, c['ops'][i], d)
        if c['ops'][i][0] == 'next':
            d = _check_next(c['groups'], dm[1][0], si['extra'])
            if d:
                return 'step %d %s: %s' % (i, c['ops'][i], d)
    if not panicked:
        if len(impl['final']) != len(finals):
            return 'number of slots: impl %d model %d' % (len(impl['final']), len(finals))
        for k, (fi, fm) in enumerate(zip(impl['final'], finals)):
            d = _ho_dump_diff(c, fi, fm)
            if d:
                return 'final state of slot %d: %s' % (k, d)
    return None


def compare(c, impl, model):
    if 'panic' in impl:
        return 'harness panicked outside a step: %s' % impl['panic']
    if c['kind'] == 'ho':
        return _compare_ho(c, impl, model)
    steps, panicked, finals = model
    panicked = (panicked == 'true')
    if (impl['stop'] is not None) != panicked:
        return 'panic: impl %r model %s (after %d steps)' % (impl['stop'], panicked, len(impl['steps']))
    if len(impl['steps']) != len(steps):
        return 'number of completed steps: impl %d model %d' % (len(impl['steps']), len(steps))
    tour = c['kind'] == 'tour'
    for i, (si, sm) in enumerate(zip(impl['steps'], steps)):
        ret, dm = sm
        if si['ret'] != ret:
            return 'step %d %s: result impl %s model %s' % (i, c['ops'][i], si['ret'], ret)
        d = _tour_dump_diff(si['dump'], dm) if tour else _reg_dump_diff(si['dump'], dm)
        if d:
            return 'step %d %s: %s' % (i, c['ops'][i], d)
        if not tour and c['ops'][i][0] == 'next':
            d = _check_next(c['groups'], dm[0], si['extra'])
            if d:
                return 'step %d %s: %s' % (i, c['ops'][i], d)
    if not panicked:
        if len(impl['final']) != len(finals):
            return 'number of slots: impl %d model %d' % (len(impl['final']), len(finals))
        for k, (fi, fm) in enumerate(zip(impl['final'], finals)):
            d = _tour_dump_diff(fi, fm) if tour else _reg_dump_diff(fi, fm)
            if d:
                return 'final state of slot %d: %s' % (k, d)
    return None


# ------------------------------------------------------------------ oracle (property on the implementation's own output)
def _expected_legs(acts, closed):
    tags = [a[1] for a in acts]
    n = len(tags) - (1 if closed else 0)
    return [[i] + tags[i:i + 2] for i in range(n)]


def _tour_wf(d, closed):
    """returns (class, what) of the first violated clause of one dump, or None"""
    acts = d['acts']
    if not acts or acts[0] != START or d['start'] != START:
        return 'start-not-in-place', 'first activity is %s' % (acts[:1],)
    if closed and (len(acts) < 2 or acts[-1] != END or d['end'] != END):
        return 'end-not-in-place', 'last activity of a closed tour is %s' % (acts[-1:],)
    if d['end'] != acts[-1]:
        return 'end-accessor', 'end() is %s, last activity %s' % (d['end'], acts[-1])
    mid = acts[1:len(acts) - (1 if closed else 0)]
    if any(a[0] == 0 for a in mid):
        return 'depot-inside', 'an activity without job between the ends: %s' % acts
    js = sorted(set(a[0] for a in mid))
    if d['jobs'] != js:
        return 'jobs-set-mismatch', 'jobs() = %s, jobs of the activities = %s' % (d['jobs'], js)
    if d['contains'] != js:
        return 'contains-mismatch', 'contains/has_job true for %s, jobs of the activities = %s' % (d['contains'], js)
    total, jac, jc, hj = d['counts'][:4]
    if total != len(acts) or jac != len(mid) or jc != len(js) or hj != (1 if js else 0):
        return 'count-mismatch', 'total/job_activity_count/job_count/has_jobs = %s for activities %s' % (d['counts'][:4], acts)
    if d['legs'] != _expected_legs(acts, closed):
        return 'legs-mismatch', 'legs() = %s expected %s' % (d['legs'], _expected_legs(acts, closed))
    return None


def _oracle_tour(c, impl):
    closed = c['closed']
    acts0 = [START] + ([END] if closed else [])
    last = {0: {'acts': acts0, 'jobs': [], 'legs': _expected_legs(acts0, closed), 'counts': [len(acts0), 0, 0, 0, 0],
                'start': START, 'end': acts0[-1], 'contains': []}}
    v = []
    nslots = 1
    for i, s in enumerate(impl['steps']):
        op = c['ops'][i]
        k = op[1]
        d = s['dump']
        w = _tour_wf(d, closed)
        if w:
            cls, what = w
            prev = last.get(k)
            if op[0] == 'ins' and cls == 'start-not-in-place' and op[5] == 0:
                cls = 'insert-at-0-displaces-start'
            elif op[0] == 'ins' and cls == 'end-not-in-place' and prev is not None and op[5] == len(prev['acts']):
                cls = 'insert-at-len-displaces-end'
            v.append({'class': cls, 'what': 'after step %d %s: %s' % (i, op, what)})
            return v                       # later dumps of a broken tour carry no further information
        prev = last.get(k)
        if op[0] == 'copy':
            src = last.get(k)
            new = nslots
            nslots += 1
            if src is not None:
                a, b = dict(d), dict(src)
                if op[2] < 2:
                    a['counts'] = a['counts'][:4] + [0]
                    b['counts'] = b['counts'][:4] + [0]
                    if d['counts'][4] != 0:
                        v.append({'class': 'copy-state', 'what': 'step %d: Tour/Route deep copy carries a tour state' % i})
                if a != b:
                    v.append({'class': 'copy-differs', 'what': 'step %d %s: the copy %s differs from its original %s' % (i, op, d, src)})
            last[new] = d
            continue
        if prev is not None:
            if op[0] == 'rm' and s['ret'] == 0 and d['acts'] != prev['acts']:
                v.append({'class': 'remove-nonmember-changed-tour',
                          'what': 'step %d %s reported "not in tour" but changed the activities %s -> %s' % (i, op, prev['acts'], d['acts'])})
            if op[0] == 'q':
                pos = [n for n, a in enumerate(prev['acts']) if a[0] == op[3] + 1]
                want = [pos[0] + 1 if pos else 0, pos[-1] + 1 if pos else 0, len(pos), 1 if (op[3] + 1) in prev['jobs'] else 0][op[2]]
                if s['ret'] != want:
                    v.append({'class': 'accessor-disagrees-with-activities',
                              'what': 'step %d %s (0 index,1 index_last,2 job_activities,3 contains) returned %s, activities %s jobs %s'
                                      % (i, op, s['ret'], prev['acts'], prev['jobs'])})
                if d != prev:
                    v.append({'class': 'query-changed-tour', 'what': 'step %d %s changed the tour' % (i, op)})
            if op[0] == 'rm' and s['ret'] != (1 if (op[2] + 1) in prev['jobs'] else 0):
                v.append({'class': 'remove-result', 'what': 'step %d %s returned %s, jobs before: %s' % (i, op, s['ret'], prev['jobs'])})
            if op[0] == 'rmat' and s['ret'] + 1 != prev['acts'][op[2]][0]:
                v.append({'class': 'remove-result', 'what': 'step %d %s returned job %s, activity was %s' % (i, op, s['ret'], prev['acts'][op[2]])})
        last[k] = d
    if impl['stop'] is None:
        for k, f in enumerate(impl['final']):
            if k in last and f != last[k]:
                v.append({'class': 'copy-aliasing', 'what': 'slot %d changed without being the target of an operation: %s -> %s' % (k, last[k], f)})
    return v


def _oracle_reg(c, impl):
    n = len(c['groups'])
    v = []
    held = [set()]            # successful use/get minus successful free, from the implementation's own answers
    alls = [list(range(n))]
    last = {}
    for i, s in enumerate(impl['steps']):
        op = c['ops'][i]
        k = op[1]
        d = s['dump']
        name = op[0]
        if name in ('use', 'get'):
            a = op[2]
            offered = a in alls[k] and a not in held[k]
            if s['ret'] == 1:
                if a in held[k]:
                    v.append({'class': 'handed-out-twice', 'what': 'step %d %s succeeded while actor %d is in use' % (i, op, a)})
                if a not in alls[k]:
                    v.append({'class': 'foreign-actor-acquired', 'what': 'step %d %s succeeded for an actor outside the registry' % (i, op)})
                held[k].add(a)
                e = s.get('extra') or {}
                if name == 'get' and e and (e.get('route_actor') != a or e.get('route_jobs') != 0):
                    v.append({'class': 'get-route-not-fresh', 'what': 'step %d %s returned route %s' % (i, op, e)})
            elif offered:
                v.append({'class': 'free-actor-refused', 'what': 'step %d %s failed although the actor is not in use' % (i, op)})
        elif name == 'free':
            a = op[2]
            if s['ret'] == 1:
                if a not in held[k]:
                    v.append({'class': 'free-of-unused', 'what': 'step %d %s reported success for an actor that was not in use' % (i, op)})
                held[k].discard(a)
            elif a in held[k] and a in alls[k]:
                v.append({'class': 'release-refused', 'what': 'step %d %s failed although the actor is in use' % (i, op)})
        elif name == 'copy':
            held.append(set(held[k]))
            alls.append(list(alls[k]))
            if k in last and d != last[k]:
                v.append({'class': 'copy-differs', 'what': 'step %d: copy %s differs from original %s' % (i, d, last[k])})
            k = len(held) - 1
        elif name == 'slice':
            keep = op[2]
            held.append(set(held[k]))
            alls.append([a for a in alls[k] if a in keep])
            k = len(held) - 1
        elif name == 'next':
            e = s['extra']
            nonempty = set(c['groups'][a] for a in d['avail'])
            got = [c['groups'][a] if a < n else -1 for a in e['next']]
            if any(a not in d['avail'] for a in e['next']):
                v.append({'class': 'next-offers-unavailable', 'what': 'step %d: next() = %s, available = %s' % (i, e['next'], d['avail'])})
            elif sorted(got) != sorted(nonempty):
                v.append({'class': 'next-misses-group', 'what': 'step %d: next() = %s covers groups %s, groups with a free actor: %s' % (i, e['next'], sorted(got), sorted(nonempty))})
        want = [a for a in alls[k] if a not in held[k]]
        if d['all'] != alls[k]:
            v.append({'class': 'all-mismatch', 'what': 'step %d %s: all() = %s expected %s' % (i, op, d['all'], alls[k])})
        if d['avail'] != sorted(want):
            v.append({'class': 'offer-mismatch', 'what': 'step %d %s: available() = %s but the actors not in use are %s' % (i, op, d['avail'], sorted(want))})
        if len(set(d['avail'])) != len(d['avail']):
            v.append({'class': 'offered-twice', 'what': 'step %d: available() lists an actor twice: %s' % (i, d['avail'])})
        last[k] = d
        if v:
            return v[:2]
    if impl['stop'] is None:
        for k, f in enumerate(impl['final']):
            if k in last and f != last[k]:
                v.append({'class': 'copy-aliasing', 'what': 'registry slot %d changed without being the target of an operation: %s -> %s' % (k, last[k], f)})
    else:
        v.append({'class': 'registry-panic', 'what': 'registry operation panicked: %s' % impl['stop']})
    return v


_HO_WHERE = {'fromsol': 'after-handover', 'keep': 'after-keep-routes', 'restore': 'after-keep-routes', 'getpush': 'after-get-route',
             'get': 'after-get-route', 'use': 'after-get-route', 'free': 'after-release', 'into': 'after-into-solution',
             'copy': 'after-copy', 'last': 'after-tour-operation', 'rm': 'after-tour-operation', 'next': 'after-next-route',
             'add': 'after-route-added'}


def _ho_strip(d):
    return {k: v for k, v in d.items() if k not in ('next', 'draws')}


def _ho_check(c, d, st, where, what):
    """the registry clause on one dump of a context / solution slot: returns violations"""
    n = len(c['groups'])
    v = []
    avail = d['avail']
    if len(set(avail)) != len(avail):
        v.append({'class': 'offered-twice', 'what': '%s: available() lists an actor twice: %s' % (what, avail)})
    if d['all'] != list(range(n)):
        v.append({'class': 'all-mismatch', 'what': '%s: all() = %s, fleet actors are 0..%d' % (what, d['all'], n - 1)})
    if d['kind'] == 0:
        if d['gettable'] != avail:
            v.append({'class': 'get-route-disagrees-with-available-' + where,
                      'what': '%s: get_route hands out %s, available() = %s' % (what, d['gettable'], avail)})
        if d['stale']:
            v.append({'class': 'get-route-not-fresh', 'what': '%s: get_route returned a non-empty / foreign route for %s' % (what, d['stale'])})
        if any(a not in avail for a in d['next']):
            v.append({'class': 'next-offers-unavailable', 'what': '%s: next_route() = %s, available = %s' % (what, d['next'], avail)})
        elif sorted(c['groups'][a] for a in d['next']) != sorted(set(c['groups'][a] for a in avail if a < n)):
            v.append({'class': 'next-misses-group', 'what': '%s: next_route() = %s, available = %s' % (what, d['next'], avail)})
    if st['judged']:
        ras = [r[0] for r in d['routes']]
        if len(set(ras)) != len(ras):
            v.append({'class': 'vehicle-in-two-routes-' + where, 'what': '%s: route actors %s' % (what, ras)})
        want = [a for a in d['all'] if a not in ras and a not in st['held']]
        missing = [a for a in want if a not in avail]
        extra = [a for a in avail if a not in want]
        if missing:
            v.append({'class': 'registry-does-not-offer-unused-vehicle-' + where,
                      'what': '%s: actors %s are held by no route (routes: %s, acquired without route: %s) but available() = %s'
                              % (what, missing, ras, sorted(st['held']), avail)})
        if extra:
            v.append({'class': 'registry-offers-vehicle-in-use-' + where,
                      'what': '%s: actors %s are offered (available() = %s) while in use (routes: %s, acquired without route: %s)'
                              % (what, extra, avail, ras, sorted(st['held']))})
    return v


def _oracle_ho(c, impl):
    n = len(c['groups'])
    if impl['init'] is None:
        return [{'class': 'context-factory-panic', 'what': 'InsertionContext::new panicked: %s' % impl['stop']}]
    d0 = impl['init']
    # a context from InsertionContext::new / new_empty is judged from the start; a bare solution only after a hand-over
    slots = [{'judged': d0['kind'] == 0, 'held': set(), 'last': d0}]
    v = _ho_check(c, d0, slots[0], 'at-start', 'initial slot')
    if v:
        return v[:2]
    for i, s in enumerate(impl['steps']):
        op = c['ops'][i]
        name, k = op[0], op[1]
        d = s['dump']
        where = _HO_WHERE.get(name, 'after-' + name)
        what = 'after step %d %s' % (i, op)
        st = slots[k]
        prev = st['last']
        pras = [r[0] for r in prev['routes']]
        if name in ('getpush', 'use', 'get') and prev['kind'] == 0:
            a = op[2]
            if s['ret'] == 1:
                if st['judged'] and (a in st['held'] or a in pras):
                    v.append({'class': 'handed-out-twice', 'what': '%s succeeded while actor %d is in use' % (what, a)})
                if a >= n:
                    v.append({'class': 'foreign-actor-acquired', 'what': '%s succeeded for an actor outside the registry' % what})
                e = s.get('extra') or {}
                if name != 'use' and (e.get('route_actor') != a or e.get('route_jobs') != 0):
                    v.append({'class': 'get-route-not-fresh', 'what': '%s returned route %s' % (what, e)})
                if name == 'getpush':
                    if [r[0] for r in d['routes']] != pras + [a]:
                        v.append({'class': 'harness-route-not-pushed', 'what': what})
                else:
                    st['held'].add(a)
            elif st['judged'] and a < n and a not in st['held'] and a not in pras:
                v.append({'class': 'free-actor-refused', 'what': '%s failed although the actor is not in use' % what})
        elif name == 'free' and prev['kind'] == 0:
            a = op[2]
            if s['ret'] == 1:
                if a in st['held']:
                    st['held'].discard(a)
                elif a in pras:
                    st['judged'] = False           # the caller released a vehicle behind the back of its route: not the registry's fault
                elif st['judged']:
                    v.append({'class': 'free-of-unused', 'what': '%s reported success for an actor that was not in use' % what})
            elif st['judged'] and a in st['held'] and a < n:
                v.append({'class': 'release-refused', 'what': '%s failed although the actor is in use' % what})
        elif name in ('use', 'free', 'add'):           # raw edits of a solution: any registry state is a legal input of the hand-over
            st['judged'] = False
        elif name == 'keep':
            want = [r for r in prev['routes'] if r[0] in op[2]]
            if d['routes'] != want:
                v.append({'class': 'keep-routes-mismatch', 'what': '%s: routes %s expected %s' % (what, d['routes'], want)})
        elif name == 'restore':
            want = [r for r in prev['routes'] if r[1] == 1]
            if d['routes'] != want:
                v.append({'class': 'restore-routes-mismatch', 'what': '%s: routes %s expected %s' % (what, d['routes'], want)})
        elif name == 'fromsol':
            # the hand-over clause, from the solution's own last dump (ANY registry state, pairwise distinct route actors)
            kept = [r for r in prev['routes'] if r[1] == 1]
            if d['routes'] != kept:
                v.append({'class': 'handover-routes-mismatch',
                          'what': '%s: the context holds %s, the routes with jobs of the solution are %s' % (what, d['routes'], kept)})
            kas = [r[0] for r in kept]
            distinct = len(set(pras)) == len(pras)
            if distinct:
                bad_used = [a for a in kas if a in d['avail']]
                bad_free = [a for a in pras if a not in kas and a in prev['all'] and a not in d['avail']]
                bad_other = [a for a in prev['all'] if a not in pras and (a in d['avail']) != (a in prev['avail'])]
                if bad_used:
                    v.append({'class': 'registry-offers-vehicle-in-use-after-handover',
                              'what': '%s: actors %s have a route with jobs in the context but are offered: %s' % (what, bad_used, d['avail'])})
                if bad_free:
                    v.append({'class': 'registry-does-not-offer-unused-vehicle-after-handover',
                              'what': '%s: the job-less routes of actors %s were dropped, no route of the context holds them, but available() = %s '
                                      '(solution registry offered %s)' % (what, bad_free, d['avail'], prev['avail'])})
                if bad_other:
                    v.append({'class': 'handover-changed-vehicle-without-route',
                              'what': '%s: actors %s have no route in the solution, offered before: %s, after: %s' % (what, bad_other, prev['avail'], d['avail'])})
            pre = distinct and all(a in prev['all'] for a in pras) and all(a in prev['avail'] for a in prev['all'] if a not in pras)
            slots.append({'judged': pre, 'held': set(), 'last': d})
            v.extend(_ho_check(c, d, slots[-1], where, what))
            if v:
                return v[:2]
            continue
        elif name == 'into':
            if d['routes'] != prev['routes'] or d['avail'] != prev['avail'] or d['all'] != prev['all']:
                v.append({'class': 'into-solution-differs', 'what': '%s: solution %s, context %s' % (what, _ho_strip(d), _ho_strip(prev))})
            slots.append({'judged': st['judged'], 'held': set(st['held']), 'last': d})
            v.extend(_ho_check(c, d, slots[-1], where, what))
            if v:
                return v[:2]
            continue
        elif name == 'copy':
            if _ho_strip(d) != _ho_strip(prev):
                v.append({'class': 'copy-differs', 'what': '%s: the copy %s differs from its original %s' % (what, _ho_strip(d), _ho_strip(prev))})
            slots.append({'judged': st['judged'], 'held': set(st['held']), 'last': d})
            if v:
                return v[:2]
            continue
        if name in ('last', 'rm', 'next') and (d['avail'] != prev['avail'] or [r[0] for r in d['routes']] != pras):
            v.append({'class': 'registry-changed-by-tour-operation', 'what': '%s: %s -> %s' % (what, _ho_strip(prev), _ho_strip(d))})
        st['last'] = d
        v.extend(_ho_check(c, d, st, where, what))
        if v:
            return v[:2]
    if impl['stop'] is None:
        for k, f in enumerate(impl['final']):
            if k < len(slots) and _ho_strip(f) != _ho_strip(slots[k]['last']):
                v.append({'class': 'copy-aliasing', 'what': 'slot %d changed without being the target of an operation: %s -> %s'
                                                            % (k, _ho_strip(slots[k]['last']), _ho_strip(f))})
    else:
        i = len(impl['steps'])
        if i < len(c['ops']):
            op = c['ops'][i]
            st = slots[op[1]] if op[1] < len(slots) else None
            if st is not None and op[0] in ('keep', 'restore') and st['judged'] and st['last']['kind'] == 0:
                v.append({'class': 'keep-routes-panic', 'what': 'step %d %s panicked on a consistent context: %s' % (i, op, impl['stop'])})
            elif st is not None and op[0] in ('fromsol', 'into', 'copy', 'getpush', 'use', 'free', 'get', 'next', 'add'):
                kind_ok = (st['last']['kind'] == 1) == (op[0] in ('fromsol', 'add')) or op[0] in ('copy', 'use', 'free')
                if kind_ok:
                    v.append({'class': 'handover-panic', 'what': 'step %d %s panicked: %s' % (i, op, impl['stop'])})
    return v[:2]


def oracle(c, impl):
    if 'panic' in impl:
        return [{'class': 'harness-panic', 'what': impl['panic']}]
    if c['kind'] == 'ho':
        return _oracle_ho(c, impl)
    return _oracle_tour(c, impl) if c['kind'] == 'tour' else _oracle_reg(c, impl)


# ------------------------------------------------------------------ statistics / shrinking
def nontrivial_key(c, impl):
    if 'panic' in impl:
        return None
    changing = [o for o in c['ops'] if o[0] not in ('next', 'state', 'q')]
    if len(changing) < 3 or len(impl['steps']) < 3:
        return None
    if c['kind'] == 'ho':
        done = [o[0] for o in c['ops'][:len(impl['steps'])]]
        if 'fromsol' not in done and 'into' not in done:
            return None
        return ('ho', c['closed'], str(c['fleet']), str(c['init']), str(c['ops']))
    return (c['kind'], c.get('closed'), c.get('ctx'), str(c.get('jobs', c.get('groups'))), str(c['ops']))


def classify(c, impl):
    labs = ['kind=' + c['kind'], 'expect=' + c.get('expect', 'ok')]
    if c['kind'] == 'ho':
        labs.append('ho:init=' + ('solution' if c['init'] is None else 'context-with-locks' if c['init'] else 'context-empty'))
        if 'panic' not in impl and impl.get('init') is not None:
            last = [impl['init']]
            seen = set()
            for o, st in zip(c['ops'], impl['steps']):
                k, d = o[1], st['dump']
                if o[0] == 'fromsol' and k < len(last):
                    src = last[k]
                    ras = [r[0] for r in src['routes']]
                    seen.add('ho:handover')
                    if any(r[1] == 0 and r[0] in src['all'] and r[0] not in src['avail'] for r in src['routes']):
                        seen.add('ho:handover-of-jobless-route-marked-used')
                    if any(r[1] == 0 and r[0] in src['avail'] for r in src['routes']):
                        seen.add('ho:handover-of-jobless-route-not-marked-used')
                    if any(r[1] == 1 and r[0] in src['avail'] for r in src['routes']):
                        seen.add('ho:handover-of-route-with-jobs-not-marked-used')
                    if any(a not in ras and a not in src['avail'] for a in src['all']):
                        seen.add('ho:handover-with-routeless-vehicle-marked-used')
                    if len(set(ras)) != len(ras):
                        seen.add('ho:handover-with-duplicate-route-actor')
                    if any(a not in src['all'] for a in ras):
                        seen.add('ho:handover-with-foreign-route-actor')
                if o[0] == 'into':
                    seen.add('ho:into-solution')
                if o[0] in ('keep', 'restore') and k < len(last) and len(d['routes']) < len(last[k]['routes']):
                    seen.add('ho:routes-removed-by-' + o[0])
                if o[0] in ('fromsol', 'into', 'copy'):
                    last.append(d)
                elif k < len(last):
                    last[k] = d
            labs.extend(sorted(seen))
    elif c['kind'] == 'tour':
        labs.append('tour:' + ('closed' if c['closed'] else 'open'))
        labs.append('tour:multi-jobs' if any(c['jobs']) else 'tour:single-jobs-only')
    else:
        labs.append('reg:' + ('context' if c['ctx'] else 'raw'))
        if any(len(set(vs)) < len(vs) for _, vs in c.get('fleet', [])):
            labs.append('reg:vehicle-with-identical-shifts')
    labs.append('slots=%d' % (1 + sum(1 for o in c['ops'] if o[0] in ('copy', 'slice'))))
    labs.append('len<=%d' % (10 * (1 + len(c['ops']) // 10)))
    if 'panic' not in impl:
        labs.append('panicked' if impl['stop'] is not None else 'completed')
    return labs


_SHRINK_BUDGET = [120]      # shrink only the first few failing cases of a run (a broken tree fails hundreds of histories)


def shrink_candidates(c):
    if _SHRINK_BUDGET[0] <= 0:
        return []
    _SHRINK_BUDGET[0] -= 1
    ops = c['ops']
    out = []
    # drop one operation that creates no slot (later slot numbers stay valid)
    for i in range(len(ops) - 1, -1, -1):
        if ops[i][0] in ('copy', 'slice', 'fromsol', 'into'):
            continue
        d = dict(c)
        d['ops'] = ops[:i] + ops[i + 1:]
        out.append(d)
    for cut in (len(ops) // 2, len(ops) - 1):
        if 0 < cut < len(ops):
            d = dict(c)
            d['ops'] = ops[:cut]
            out.append(d)
    return out


MANIFEST_TEXT = ('Machine-checked proof (Coq, no axioms) over an executable model of Tour (insert_at, insert_last, remove, '
                 'remove_activity_at, legs, counts, job set), Registry (use_actor, free_actor, available, next, deep_slice), '
                 'RegistryContext (get_route, use_route, free_route) and the hand-over between Solution and InsertionContext '
                 '(create_insertion_context_from_solution / new_from_solution, create_insertion_context with locks, new_empty, '
                 'keep_routes / remove_empty_routes / restore, From<InsertionContext> for Solution): well-formedness is an invariant of every finite history '
                 '(induction over operation lists), the tour refines "list of job activities between fixed depot ends", the registry '
                 'refines "finite set of free actors" (offered iff not in use, acquisitions and releases of an actor alternate), legs() '
                 'is characterised for every well-formed tour, operations on one slot leave deep copies untouched, and after a hand-over from ANY '
                 'registry state the context keeps exactly the routes with jobs, offers no actor of a kept route and offers the actor of every dropped '
                 'job-less route (offered iff fleet member without route when the solution marks only route actors as used; invariant of all contexts '
                 'reachable by get_route+push, tour operations, keep_routes, restore and round trips through Solution). The model is '
                 'hand-written and tied to /repo on every run: the same generated histories are executed step by step on the real public '
                 'API and inside Coq (vm_compute) and all observable state is diffed after each step; the property clauses are also '
                 'evaluated directly on the implementation dumps (including aliasing between copies, and "offered iff no route of the context holds it" after every hand-over).')
MANIFEST_NOTE = ('Trusted: Coq kernel + vm_compute; the harness, generators and comparison; pointer identity of jobs/actors modelled as '
                 'numbers; hash iteration order abstracted (sorted sets). Finding: Tour::insert_at does not check that the index lies between '
                 'the depot ends (index 0, or index = total on a closed tour, displaces a depot); the invariant theorem carries the index '
                 'guard as a hypothesis and a refutation witness is proved for the unguarded statement. Deep-copy independence of Rust '
                 'memory is validated by the harness, not proved. Hand-over: only registry and routes of Solution / SolutionContext are modelled '
                 '(required/ignored/unassigned/locked jobs and the solution state are not); accept_solution_state is assumed not to touch routes or registry; '
                 'lock conditions select a single actor (the actor `available().find(cond)` picks among several candidates depends on hash order and is not modelled).')
MANIFEST_TECHNIQUE = 'Coq proof (history invariants + refinement) over executable model + vm_compute differential correspondence with the Rust implementation'
