"""C14 — tours and the vehicle registry stay well-formed under any operation sequence (plugin for tools/verif.py).

A case is a history (list of operations) over several slots; `copy`/`slice` push a new slot.  The harness runs it on the real
Tour/Route/RouteContext or Registry/RegistryContext and dumps the observable state after every step; the Coq model
(Model/TourReg.v, run_tour / run_reg) is evaluated on the same history.  compare = step-by-step equality of the dumps;
oracle = the well-formedness clauses of the property evaluated on the implementation's dumps alone."""

ID = 'C14'
HARNESS = 'c14'
COQ_IMPORTS = 'From VRP Require Import Base.Tac Model.TourReg.\nOpen Scope nat_scope.'
MODEL_TARGETS = ['theories/Model/TourReg.vo']
SIZES = {'quick': 1400, 'thorough': 12000, 'search': 6000}
RULE = ('cases: histories of 4-45 operations. tour histories (58%): insert_at at every legal position (biased to the first/last '
        'legal index), insert_last, remove of present/absent jobs, remove_activity_at, on open and closed tours with single and '
        'multi jobs (several activities per job), interleaved with Tour/Route/RouteContext deep copies (up to 4 live slots, later '
        'operations hit copies and originals) and tour-state writes; 14% of them end with one out-of-guard operation '
        '(index > len, depot activity, remove_activity_at on a depot/out of range: both sides must panic; index 0 / index = len '
        'on a closed tour: accepted by the code). registry histories (42%): use/free/get_route/use_route/free_route on fleet and '
        'foreign actors, next/next_route with scripted draws (min/max/mid), deep_copy and deep_slice with later operations on '
        'both, on raw Registry and RegistryContext, 1-7 actors in 1-4 groups. non-trivial = distinct history with >= 3 '
        'state-changing steps. Job arguments of remove and of the index/index_last/job_activities/contains queries are jobs of the tour, '
        'sub-jobs of a multi job wrapped as a standalone Job::Single (NOT a job of the tour: retrieve_job of its activity is the multi) or '
        'absent jobs; fleets contain vehicles with several shifts including IDENTICAL ones (distinct actors that look equal).')
TRUSTED = ['identity of jobs/actors (Arc pointer equality and hash) is modelled as equality of small numbers; the harness maps pointers to numbers',
           'HashSet/HashMap iteration order is not modelled: jobs()/available() are compared as sorted sets, next() as "one member of every non-empty group"',
           'deep-copy independence at the level of Rust memory is checked by the harness (mutate one slot, re-dump all others), not proved: in the functional model it holds by construction (frame theorem)']
ASSUMPTIONS = ['Multi jobs stay alive while their sub-jobs are in a tour (Multi::roots upgrades a Weak)',
               'Fleet groups partition the actors (guaranteed by Fleet::new, modelled by fleet_groups)',
               'the depot ends stay in place only for insert_at indices within 1..=total-(1 if closed) (every in-repo caller passes leg index + 1); the code does not check this — see finding']

START = [0, 0]
END = [0, 1]


# ------------------------------------------------------------------ generators
def _pick_index(rng, lo, hi):
    """index in [lo, hi], biased to the boundaries"""
    r = rng.below(10)
    if r < 3:
        return lo
    if r < 6:
        return hi
    return rng.range(lo, hi)


def gen_tour(rng, tier):
    closed = rng.chance(3, 5)
    nj = rng.range(1, 5)
    jobs = [0 if rng.chance(1, 2) else rng.range(2, 3) for _ in range(nj)]
    c = 1 if closed else 0
    slots = [[START] + ([END] if closed else [])]   # generator-side bookkeeping of lengths only
    ops = []
    tag = 1                                         # 0 and 1 are the depot tags
    n = rng.range(4, 45 if tier != 'quick' else 32)
    malformed = rng.chance(14, 100)

    subs = [(j, sb) for j in range(nj) for sb in range(jobs[j])]      # sub-jobs of multi jobs wrapped as Job::Single

    def sub_id(j, sb):
        return nj + subs.index((j, sb))

    def any_job(acts):
        """a job argument: (a) job of the tour, (b) sub-job of a multi of the tour as standalone Single, (c) anything"""
        present = sorted(set(a[0] for a in acts if a[0]))
        r = rng.below(10)
        if r < 4 and present:
            return rng.choice(present) - 1
        multis = [p - 1 for p in present if jobs[p - 1]] or [j for j in range(nj) if jobs[j]]
        if r < 8 and multis:
            j = rng.choice(multis)
            return sub_id(j, rng.below(jobs[j]))
        return rng.below(nj + len(subs))

    def new_act():
        nonlocal tag
        tag += 1
        j = rng.below(nj)
        sub = rng.below(jobs[j]) if jobs[j] else 0
        return j, sub, tag

    for _ in range(n):
        k = rng.below(len(slots))
        acts = slots[k]
        njobacts = len(acts) - 1 - c
        r = rng.below(100)
        if r < 30 or njobacts == 0 and r < 60:
            j, sub, t = new_act()
            idx = _pick_index(rng, 1, len(acts) - c)
            ops.append(['ins', k, j, sub, t, idx])
            acts.insert(idx, [j + 1, t])
        elif r < 45:
            j, sub, t = new_act()
            ops.append(['last', k, j, sub, t])
            acts.insert(len(acts) - c, [j + 1, t])
        elif r < 58:
            present = sorted(set(a[0] for a in acts if a[0]))
            if present and rng.chance(3, 5):
                j = rng.choice(present) - 1
            else:
                j = any_job(acts)
            ops.append(['rm', k, j])
            slots[k] = [a for a in acts if a[0] != j + 1]
        elif r < 64:
            ops.append(['q', k, rng.below(4), any_job(acts)])
        elif r < 78 and njobacts > 0:
            idx = _pick_index(rng, 1, njobacts)
            ops.append(['rmat', k, idx])
            j1 = acts[idx][0]
            slots[k] = [a for a in acts if a[0] != j1]
        elif r < 88 and len(slots) < 4:
            ops.append(['copy', k, rng.below(3)])
            slots.append([list(a) for a in acts])
        elif r < 94:
            ops.append(['state', k, rng.below(50)])
        else:
            j, sub, t = new_act()
            ops.append(['last', k, j, sub, t])
            acts.insert(len(acts) - c, [j + 1, t])
    expect = 'ok'
    if malformed:
        k = rng.below(len(slots))
        acts = slots[k]
        r = rng.below(8)
        tag += 1
        j = rng.below(nj)
        if r == 0:
            ops.append(['ins', k, j, 0, tag, len(acts) + 1 + rng.below(3)])
            expect = 'panic'
        elif r == 1:
            ops.append(['insdepot', k, tag, rng.range(1, len(acts))])
            expect = 'panic'
        elif r == 2:
            ops.append(['rmat', k, 0])
            expect = 'panic'
        elif r == 3:
            ops.append(['rmat', k, len(acts) - 1 if closed else len(acts)])
            expect = 'panic'
        elif r == 4:
            ops.append(['rmat', k, len(acts) + rng.below(3)])
            expect = 'panic'
        elif r == 5:
            ops.append(['ins', k, j, 0, tag, 0])
            expect = 'unguarded'
        elif r == 6 and closed:
            ops.append(['ins', k, j, 0, tag, len(acts)])
            expect = 'unguarded'
        else:
            ops.append(['ins', k, j, 0, tag, len(acts) + 1])
            expect = 'panic'
    return {'kind': 'tour', 'closed': closed, 'jobs': jobs, 'ops': ops, 'expect': expect}


def gen_reg(rng, tier):
    ng = rng.range(1, 4)
    fleet = []                                            # vehicles: [group key, detail variants]; one actor per detail
    n = 0
    target = rng.range(1, 7)
    while n < target:
        nd = min(target - n, 1 if rng.chance(1, 2) else rng.range(2, 3))
        variants = [rng.below(2) for _ in range(nd)]      # equal variants = identical VehicleDetail = two distinct equal-looking actors
        fleet.append([rng.below(ng) * 3, variants])       # sparse group keys; several vehicles may share a group
        n += nd
    groups = [g for g, vs in fleet for _ in vs]
    ctx = rng.chance(1, 2)
    ops = []
    used = [set()]                                       # generator-side guess of what is in use (only steers choices)
    alls = [set(range(n))]
    m = rng.range(4, 45 if tier != 'quick' else 30)
    for _ in range(m):
        k = rng.below(len(used))
        r = rng.below(100)
        if r < 8:
            a = n + rng.below(3)                          # foreign actor
        elif r < 50 and used[k]:
            a = rng.choice(sorted(used[k]))
        else:
            a = rng.below(n)
        r = rng.below(100)
        if r < 22:
            ops.append(['use', k, a])
            if a in alls[k]:
                used[k].add(a)
        elif r < 40:
            ops.append(['get', k, a])
            if a in alls[k]:
                used[k].add(a)
        elif r < 66:
            ops.append(['free', k, a])
            used[k].discard(a)
        elif r < 80:
            ops.append(['next', k, rng.below(3)])
        elif r < 88 and len(used) < 4:
            ops.append(['copy', k])
            used.append(set(used[k]))
            alls.append(set(alls[k]))
        elif r < 96 and len(used) < 4:
            keep = [a for a in range(n + 1) if rng.chance(3, 5)]
            ops.append(['slice', k, keep])
            used.append(set(x for x in used[k] if x in keep))
            alls.append(set(x for x in alls[k] if x in keep))
        else:
            ops.append(['next', k, 1])
    return {'kind': 'reg', 'ctx': ctx, 'groups': groups, 'fleet': fleet, 'ops': ops, 'expect': 'ok'}


def generate(rng, tier, n):
    cases = []
    for _ in range(n):
        cases.append(gen_tour(rng, tier) if rng.below(100) < 58 else gen_reg(rng, tier))
    return cases


def corpus():
    cs = _corpus()
    for c in cs:                       # tags 0/1 are the depots: shift the hand-written tags
        for o in c['ops']:
            if o[0] in ('ins', 'last'):
                o[4] += 1
    return cs


def _corpus():
    return [
        # the examples of tour_test / actor_test shapes and boundary histories
        {'kind': 'tour', 'closed': True, 'jobs': [0, 2], 'expect': 'ok',
         'ops': [['last', 0, 0, 0, 1], ['ins', 0, 1, 0, 2, 1], ['ins', 0, 1, 1, 3, 3], ['copy', 0, 2], ['state', 1, 7],
                 ['rmat', 1, 1], ['rm', 0, 0], ['rm', 0, 0], ['last', 0, 0, 0, 4], ['last', 1, 1, 1, 5]]},
        {'kind': 'tour', 'closed': False, 'jobs': [0, 0, 3], 'expect': 'ok',
         'ops': [['rm', 0, 1], ['last', 0, 2, 0, 1], ['last', 0, 2, 2, 2], ['ins', 0, 0, 0, 3, 2], ['ins', 0, 2, 1, 4, 4],
                 ['copy', 0, 0], ['rmat', 0, 4], ['ins', 1, 1, 0, 5, 1], ['copy', 1, 1], ['rm', 2, 2]]},
        {'kind': 'tour', 'closed': False, 'jobs': [0], 'expect': 'ok', 'ops': [['copy', 0, 2], ['last', 1, 0, 0, 1], ['rmat', 1, 1]]},
        {'kind': 'tour', 'closed': True, 'jobs': [0], 'expect': 'panic', 'ops': [['last', 0, 0, 0, 1], ['rmat', 0, 2]]},
        {'kind': 'tour', 'closed': False, 'jobs': [0], 'expect': 'panic', 'ops': [['last', 0, 0, 0, 1], ['ins', 0, 0, 0, 2, 3]]},
        {'kind': 'reg', 'ctx': True, 'groups': [0, 0, 3], 'expect': 'ok',
         'ops': [['get', 0, 0], ['get', 0, 0], ['next', 0, 1], ['copy', 0], ['free', 1, 0], ['slice', 0, [1, 2]], ['free', 2, 0],
                 ['use', 0, 4], ['next', 0, 1], ['free', 0, 0], ['free', 0, 0], ['get', 2, 1], ['next', 2, 2]]},
        # a sub-job of a multi job wrapped as Job::Single is not a job of the tour
        {'kind': 'tour', 'closed': True, 'jobs': [2, 0], 'expect': 'ok',
         'ops': [['last', 0, 0, 0, 1], ['last', 0, 0, 1, 2], ['last', 0, 1, 0, 3], ['q', 0, 0, 2], ['q', 0, 1, 3], ['q', 0, 2, 2],
                 ['q', 0, 3, 3], ['rm', 0, 3], ['q', 0, 2, 0], ['q', 0, 1, 0], ['rm', 0, 2], ['rm', 0, 0], ['q', 0, 3, 0]]},
        # one vehicle with two identical shifts = two distinct actors
        {'kind': 'reg', 'ctx': False, 'groups': [0, 0, 0], 'fleet': [[0, [0, 0]], [0, [0]]], 'expect': 'ok',
         'ops': [['next', 0, 1], ['use', 0, 0], ['use', 0, 1], ['free', 0, 0], ['use', 0, 0], ['copy', 0], ['free', 1, 1]]},
        {'kind': 'reg', 'ctx': True, 'groups': [3, 3, 3, 0], 'fleet': [[3, [1, 1, 1]], [0, [0]]], 'expect': 'ok',
         'ops': [['get', 0, 1], ['get', 0, 2], ['get', 0, 1], ['next', 0, 0], ['free', 0, 2], ['slice', 0, [0, 2]], ['get', 1, 0], ['get', 1, 2]]},
        {'kind': 'reg', 'ctx': False, 'groups': [0, 0, 0, 6], 'expect': 'ok',
         'ops': [['use', 0, 1], ['use', 0, 1], ['next', 0, 1], ['use', 0, 0], ['next', 0, 1], ['slice', 0, [0, 1, 3]],
                 ['free', 1, 2], ['free', 1, 1], ['free', 0, 1], ['next', 1, 0]]},
    ]


# ------------------------------------------------------------------ model terms
def _act(j, tag):
    return '(mkAct %s %d)' % ('None' if j is None else '(Some %d)' % j, tag)


def _nl(xs):
    return '[' + '; '.join(str(int(x)) for x in xs) + ']'


def model_term(c):
    if c['kind'] == 'tour':
        ts = []
        for o in c['ops']:
            n, k = o[0], o[1]
            if n == 'ins':
                ts.append('STour %d (TInsertAt %s %d)' % (k, _act(o[2], o[4]), o[5]))
            elif n == 'insdepot':
                ts.append('STour %d (TInsertAt %s %d)' % (k, _act(None, o[2]), o[3]))
            elif n == 'last':
                ts.append('STour %d (TInsertLast %s)' % (k, _act(o[2], o[4])))
            elif n == 'rm':
                ts.append('STour %d (TRemove %d)' % (k, o[2]))
            elif n == 'rmat':
                ts.append('STour %d (TRemoveAt %d)' % (k, o[2]))
            elif n == 'q':
                ts.append('SQuery %d %d %d' % (k, o[2], o[3]))
            elif n == 'copy':
                ts.append('SCopy %d %d' % (k, o[2]))
            elif n == 'state':
                ts.append('SSetState %d %d' % (k, o[2]))
        return 'run_tour %s [%s]' % ('true' if c['closed'] else 'false', '; '.join(ts))
    ts = []
    for o in c['ops']:
        n, k = o[0], o[1]
        if n == 'use' or (n == 'get' and not c['ctx']):
            ts.append('RSOp %d (RUse %d)' % (k, o[2]))
        elif n == 'get':
            ts.append('RSOp %d (RGet %d)' % (k, o[2]))
        elif n == 'free':
            ts.append('RSOp %d (RFree %d)' % (k, o[2]))
        elif n == 'next':
            ts.append('RSOp %d RNext' % k)
        elif n == 'copy':
            ts.append('RSCopy %d' % k)
        elif n == 'slice':
            ts.append('RSSlice %d %s' % (k, _nl(o[2])))
    return 'run_reg %s [%s]' % (_nl(c['groups']), '; '.join(ts))


# ------------------------------------------------------------------ compare (implementation vs model)
def _tour_dump_diff(d, m):
    acts, jobs, legs, counts = m
    if d['acts'] != acts:
        return 'activities: impl %s model %s' % (d['acts'], acts)
    if d['jobs'] != sorted(j + 1 for j in jobs):
        return 'jobs(): impl %s model %s' % (d['jobs'], sorted(j + 1 for j in jobs))
    if d['legs'] != legs:
        return 'legs(): impl %s model %s' % (d['legs'], legs)
    if d['counts'] != counts:
        return 'total/job_activity_count/job_count/has_jobs/state: impl %s model %s' % (d['counts'], counts)
    return None


def _reg_dump_diff(d, m):
    groups, alls, _idx = m
    avail = sorted(a for g in groups for a in g[1:])
    if d['avail'] != avail:
        return 'available(): impl %s model %s' % (d['avail'], avail)
    if d['all'] != alls:
        return 'all(): impl %s model %s' % (d['all'], alls)
    return None


def _check_next(groups_of, avail_groups, extra):
    """next(): exactly one member of every non-empty group, draws (0, len-1) for groups with >= 2 members"""
    nxt = extra.get('next')
    want_groups = sorted(g[0] for g in avail_groups if len(g) > 1)
    got_groups = []
    for a in nxt:
        grp = [g for g in avail_groups if a in g[1:]]
        if not grp:
            return 'next() returned actor %s which is not available' % a
        got_groups.append(grp[0][0])
    if sorted(got_groups) != want_groups:
        return 'next() covers groups %s, non-empty groups are %s' % (sorted(got_groups), want_groups)
    draws = sorted(tuple(x) for x in extra.get('draws', []))
    want = sorted((0, len(g) - 2) for g in avail_groups if len(g) - 1 >= 2)
    if draws != want:
        return 'next() draws %s, expected %s' % (draws, want)
    return None


def compare(c, impl, model):
    if 'panic' in impl:
        return 'harness panicked outside a step: %s' % impl['panic']
    steps, panicked, finals = model
    panicked = (panicked == 'true')
    if (impl['stop'] is not None) != panicked:
        return 'panic: impl %r model %s (after %d steps)' % (impl['stop'], panicked, len(impl['steps']))
    if len(impl['steps']) != len(steps):
        return 'number of completed steps: impl %d model %d' % (len(impl['steps']), len(steps))
    tour = c['kind'] == 'tour'
    for i, (si, sm) in enumerate(zip(impl['steps'], steps)):
        ret, dm = sm
        if si['ret'] != ret:
            return 'step %d %s: result impl %s model %s' % (i, c['ops'][i], si['ret'], ret)
        d = _tour_dump_diff(si['dump'], dm) if tour else _reg_dump_diff(si['dump'], dm)
        if d:
            return 'step %d %s: %s' % (i, c['ops'][i], d)
        if not tour and c['ops'][i][0] == 'next':
            d = _check_next(c['groups'], dm[0], si['extra'])
            if d:
                return 'step %d %s: %s' % (i, c['ops'][i], d)
    if not panicked:
        if len(impl['final']) != len(finals):
            return 'number of slots: impl %d model %d' % (len(impl['final']), len(finals))
        for k, (fi, fm) in enumerate(zip(impl['final'], finals)):
            d = _tour_dump_diff(fi, fm) if tour else _reg_dump_diff(fi, fm)
            if d:
                return 'final state of slot %d: %s' % (k, d)
    return None


# ------------------------------------------------------------------ oracle (property on the implementation's own output)
def _expected_legs(acts, closed):
    tags = [a[1] for a in acts]
    n = len(tags) - (1 if closed else 0)
    return [[i] + tags[i:i + 2] for i in range(n)]


def _tour_wf(d, closed):
    """returns (class, what) of the first violated clause of one dump, or None"""
    acts = d['acts']
    if not acts or acts[0] != START or d['start'] != START:
        return 'start-not-in-place', 'first activity is %s' % (acts[:1],)
    if closed and (len(acts) < 2 or acts[-1] != END or d['end'] != END):
        return 'end-not-in-place', 'last activity of a closed tour is %s' % (acts[-1:],)
    if d['end'] != acts[-1]:
        return 'end-accessor', 'end() is %s, last activity %s' % (d['end'], acts[-1])
    mid = acts[1:len(acts) - (1 if closed else 0)]
    if any(a[0] == 0 for a in mid):
        return 'depot-inside', 'an activity without job between the ends: %s' % acts
    js = sorted(set(a[0] for a in mid))
    if d['jobs'] != js:
        return 'jobs-set-mismatch', 'jobs() = %s, jobs of the activities = %s' % (d['jobs'], js)
    if d['contains'] != js:
        return 'contains-mismatch', 'contains/has_job true for %s, jobs of the activities = %s' % (d['contains'], js)
    total, jac, jc, hj = d['counts'][:4]
    if total != len(acts) or jac != len(mid) or jc != len(js) or hj != (1 if js else 0):
        return 'count-mismatch', 'total/job_activity_count/job_count/has_jobs = %s for activities %s' % (d['counts'][:4], acts)
    if d['legs'] != _expected_legs(acts, closed):
        return 'legs-mismatch', 'legs() = %s expected %s' % (d['legs'], _expected_legs(acts, closed))
    return None


def _oracle_tour(c, impl):
    closed = c['closed']
    acts0 = [START] + ([END] if closed else [])
    last = {0: {'acts': acts0, 'jobs': [], 'legs': _expected_legs(acts0, closed), 'counts': [len(acts0), 0, 0, 0, 0],
                'start': START, 'end': acts0[-1], 'contains': []}}
    v = []
    nslots = 1
    for i, s in enumerate(impl['steps']):
        op = c['ops'][i]
        k = op[1]
        d = s['dump']
        w = _tour_wf(d, closed)
        if w:
            cls, what = w
            prev = last.get(k)
            if op[0] == 'ins' and cls == 'start-not-in-place' and op[5] == 0:
                cls = 'insert-at-0-displaces-start'
            elif op[0] == 'ins' and cls == 'end-not-in-place' and prev is not None and op[5] == len(prev['acts']):
                cls = 'insert-at-len-displaces-end'
            v.append({'class': cls, 'what': 'after step %d %s: %s' % (i, op, what)})
            return v                       # later dumps of a broken tour carry no further information
        prev = last.get(k)
        if op[0] == 'copy':
            src = last.get(k)
            new = nslots
            nslots += 1
            if src is not None:
                a, b = dict(d), dict(src)
                if op[2] < 2:
                    a['counts'] = a['counts'][:4] + [0]
                    b['counts'] = b['counts'][:4] + [0]
                    if d['counts'][4] != 0:
                        v.append({'class': 'copy-state', 'what': 'step %d: Tour/Route deep copy carries a tour state' % i})
                if a != b:
                    v.append({'class': 'copy-differs', 'what': 'step %d %s: the copy %s differs from its original %s' % (i, op, d, src)})
            last[new] = d
            continue
        if prev is not None:
            if op[0] == 'rm' and s['ret'] == 0 and d['acts'] != prev['acts']:
                v.append({'class': 'remove-nonmember-changed-tour',
                          'what': 'step %d %s reported "not in tour" but changed the activities %s -> %s' % (i, op, prev['acts'], d['acts'])})
            if op[0] == 'q':
                pos = [n for n, a in enumerate(prev['acts']) if a[0] == op[3] + 1]
                want = [pos[0] + 1 if pos else 0, pos[-1] + 1 if pos else 0, len(pos), 1 if (op[3] + 1) in prev['jobs'] else 0][op[2]]
                if s['ret'] != want:
                    v.append({'class': 'accessor-disagrees-with-activities',
                              'what': 'step %d %s (0 index,1 index_last,2 job_activities,3 contains) returned %s, activities %s jobs %s'
                                      % (i, op, s['ret'], prev['acts'], prev['jobs'])})
                if d != prev:
                    v.append({'class': 'query-changed-tour', 'what': 'step %d %s changed the tour' % (i, op)})
            if op[0] == 'rm' and s['ret'] != (1 if (op[2] + 1) in prev['jobs'] else 0):
                v.append({'class': 'remove-result', 'what': 'step %d %s returned %s, jobs before: %s' % (i, op, s['ret'], prev['jobs'])})
            if op[0] == 'rmat' and s['ret'] + 1 != prev['acts'][op[2]][0]:
                v.append({'class': 'remove-result', 'what': 'step %d %s returned job %s, activity was %s' % (i, op, s['ret'], prev['acts'][op[2]])})
        last[k] = d
    if impl['stop'] is None:
        for k, f in enumerate(impl['final']):
            if k in last and f != last[k]:
                v.append({'class': 'copy-aliasing', 'what': 'slot %d changed without being the target of an operation: %s -> %s' % (k, last[k], f)})
    return v


def _oracle_reg(c, impl):
    n = len(c['groups'])
    v = []
    held = [set()]            # successful use/get minus successful free, from the implementation's own answers
    alls = [list(range(n))]
    last = {}
    for i, s in enumerate(impl['steps']):
        op = c['ops'][i]
        k = op[1]
        d = s['dump']
        name = op[0]
        if name in ('use', 'get'):
            a = op[2]
            offered = a in alls[k] and a not in held[k]
            if s['ret'] == 1:
                if a in held[k]:
                    v.append({'class': 'handed-out-twice', 'what': 'step %d %s succeeded while actor %d is in use' % (i, op, a)})
                if a not in alls[k]:
                    v.append({'class': 'foreign-actor-acquired', 'what': 'step %d %s succeeded for an actor outside the registry' % (i, op)})
                held[k].add(a)
                e = s.get('extra') or {}
                if name == 'get' and e and (e.get('route_actor') != a or e.get('route_jobs') != 0):
                    v.append({'class': 'get-route-not-fresh', 'what': 'step %d %s returned route %s' % (i, op, e)})
            elif offered:
                v.append({'class': 'free-actor-refused', 'what': 'step %d %s failed although the actor is not in use' % (i, op)})
        elif name == 'free':
            a = op[2]
            if s['ret'] == 1:
                if a not in held[k]:
                    v.append({'class': 'free-of-unused', 'what': 'step %d %s reported success for an actor that was not in use' % (i, op)})
                held[k].discard(a)
            elif a in held[k] and a in alls[k]:
                v.append({'class': 'release-refused', 'what': 'step %d %s failed although the actor is in use' % (i, op)})
        elif name == 'copy':
            held.append(set(held[k]))
            alls.append(list(alls[k]))
            if k in last and d != last[k]:
                v.append({'class': 'copy-differs', 'what': 'step %d: copy %s differs from original %s' % (i, d, last[k])})
            k = len(held) - 1
        elif name == 'slice':
            keep = op[2]
            held.append(set(held[k]))
            alls.append([a for a in alls[k] if a in keep])
            k = len(held) - 1
        elif name == 'next':
            e = s['extra']
            nonempty = set(c['groups'][a] for a in d['avail'])
            got = [c['groups'][a] if a < n else -1 for a in e['next']]
            if any(a not in d['avail'] for a in e['next']):
                v.append({'class': 'next-offers-unavailable', 'what': 'step %d: next() = %s, available = %s' % (i, e['next'], d['avail'])})
            elif sorted(got) != sorted(nonempty):
                v.append({'class': 'next-misses-group', 'what': 'step %d: next() = %s covers groups %s, groups with a free actor: %s' % (i, e['next'], sorted(got), sorted(nonempty))})
        want = [a for a in alls[k] if a not in held[k]]
        if d['all'] != alls[k]:
            v.append({'class': 'all-mismatch', 'what': 'step %d %s: all() = %s expected %s' % (i, op, d['all'], alls[k])})
        if d['avail'] != sorted(want):
            v.append({'class': 'offer-mismatch', 'what': 'step %d %s: available() = %s but the actors not in use are %s' % (i, op, d['avail'], sorted(want))})
        if len(set(d['avail'])) != len(d['avail']):
            v.append({'class': 'offered-twice', 'what': 'step %d: available() lists an actor twice: %s' % (i, d['avail'])})
        last[k] = d
        if v:
            return v[:2]
    if impl['stop'] is None:
        for k, f in enumerate(impl['final']):
            if k in last and f != last[k]:
                v.append({'class': 'copy-aliasing', 'what': 'registry slot %d changed without being the target of an operation: %s -> %s' % (k, last[k], f)})
    else:
        v.append({'class': 'registry-panic', 'what': 'registry operation panicked: %s' % impl['stop']})
    return v


def oracle(c, impl):
    if 'panic' in impl:
        return [{'class': 'harness-panic', 'what': impl['panic']}]
    return _oracle_tour(c, impl) if c['kind'] == 'tour' else _oracle_reg(c, impl)


# ------------------------------------------------------------------ statistics / shrinking
def nontrivial_key(c, impl):
    if 'panic' in impl:
        return None
    changing = [o for o in c['ops'] if o[0] not in ('next', 'state', 'q')]
    if len(changing) < 3 or len(impl['steps']) < 3:
        return None
    return (c['kind'], c.get('closed'), c.get('ctx'), str(c.get('jobs', c.get('groups'))), str(c['ops']))


def classify(c, impl):
    labs = ['kind=' + c['kind'], 'expect=' + c.get('expect', 'ok')]
    if c['kind'] == 'tour':
        labs.append('tour:' + ('closed' if c['closed'] else 'open'))
        labs.append('tour:multi-jobs' if any(c['jobs']) else 'tour:single-jobs-only')
    else:
        labs.append('reg:' + ('context' if c['ctx'] else 'raw'))
        if any(len(set(vs)) < len(vs) for _, vs in c.get('fleet', [])):
            labs.append('reg:vehicle-with-identical-shifts')
    labs.append('slots=%d' % (1 + sum(1 for o in c['ops'] if o[0] in ('copy', 'slice'))))
    labs.append('len<=%d' % (10 * (1 + len(c['ops']) // 10)))
    if 'panic' not in impl:
        labs.append('panicked' if impl['stop'] is not None else 'completed')
    return labs


_SHRINK_BUDGET = [120]      # shrink only the first few failing cases of a run (a broken tree fails hundreds of histories)


def shrink_candidates(c):
    if _SHRINK_BUDGET[0] <= 0:
        return []
    _SHRINK_BUDGET[0] -= 1
    ops = c['ops']
    out = []
    # drop one operation that creates no slot (later slot numbers stay valid)
    for i in range(len(ops) - 1, -1, -1):
        if ops[i][0] in ('copy', 'slice'):
            continue
        d = dict(c)
        d['ops'] = ops[:i] + ops[i + 1:]
        out.append(d)
    for cut in (len(ops) // 2, len(ops) - 1):
        if 0 < cut < len(ops):
            d = dict(c)
            d['ops'] = ops[:cut]
            out.append(d)
    return out


MANIFEST_TEXT = ('Machine-checked proof (Coq, no axioms) over an executable model of Tour (insert_at, insert_last, remove, '
                 'remove_activity_at, legs, counts, job set), Registry (use_actor, free_actor, available, next, deep_slice) and '
                 'RegistryContext (get_route, use_route, free_route): well-formedness is an invariant of every finite history '
                 '(induction over operation lists), the tour refines "list of job activities between fixed depot ends", the registry '
                 'refines "finite set of free actors" (offered iff not in use, acquisitions and releases of an actor alternate), legs() '
                 'is characterised for every well-formed tour, and operations on one slot leave deep copies untouched. The model is '
                 'hand-written and tied to /repo on every run: the same generated histories are executed step by step on the real public '
                 'API and inside Coq (vm_compute) and all observable state is diffed after each step; the property clauses are also '
                 'evaluated directly on the implementation dumps (including aliasing between copies).')
MANIFEST_NOTE = ('Trusted: Coq kernel + vm_compute; the harness, generators and comparison; pointer identity of jobs/actors modelled as '
                 'numbers; hash iteration order abstracted (sorted sets). Finding: Tour::insert_at does not check that the index lies between '
                 'the depot ends (index 0, or index = total on a closed tour, displaces a depot); the invariant theorem carries the index '
                 'guard as a hypothesis and a refutation witness is proved for the unguarded statement. Deep-copy independence of Rust '
                 'memory is validated by the harness, not proved.')
MANIFEST_TECHNIQUE = 'Coq proof (history invariants + refinement) over executable model + vm_compute differential correspondence with the Rust implementation'
