"""C11 — problem / matrix / solution documents survive round trips (plugin for tools/verif.py).

(a) documents:  schema-driven generator (the schema is the IR tools/serde2coq.py extracts from the Rust model files, so
    every optional field, alias, enum variant and container is exercised without a hand-written list) -> the real
    deserialize_* / serialize_* versus the generated Coq codecs (enc (dec doc)), oracle ser(parse(ser d)) == ser d.
(c) CSV import: generated job / vehicle tables -> read_csv_problem + ValidationContext::validate versus Model/Csv.v.
(b) initial solutions: small generated problems solved by the real solver, written, read back with read_init_solution.
"""
import os, sys, json, struct
from fractions import Fraction

sys.path.insert(0, os.path.dirname(os.path.dirname(os.path.abspath(__file__))))
import serde2coq  # noqa

ID = 'C11'
HARNESS = 'c11'
COQ_IMPORTS = ('From VRP Require Import Base.Tac Base.Json Model.SerdeSem Generated.ProblemCodec Generated.SolutionCodec Model.Csv Model.InitReader.\n'
               'Open Scope string_scope.')
MODEL_TARGETS = ['theories/Generated/SolutionCodec.vo', 'theories/Model/Csv.vo', 'theories/Model/InitReader.vo']
SIZES = {'quick': 700, 'thorough': 6000, 'search': 1200}
SHARD = 60
RULE = ('documents are generated from the schema extracted from the Rust model files: canonical documents (exactly what the '
        'serialiser emits: every optional field present/absent, every enum variant round-robin, empty and non-empty '
        'collections, boundary integers, integer-valued and dyadic floats), loose documents (aliases, null for optional, '
        'omitted defaulted fields, unknown keys, shuffled keys, tag in any position, positional arrays, {"variant": null}), '
        'and a separate malformed stream (missing required field, duplicate key, wrong type, null for required, integer out '
        'of range, float literal for integer, unknown variant / tag). non-trivial = distinct accepted documents. '
        'feed-back stream (solver -> write_pragmatic -> read_init_solution): (i) small random problems (alternative places, two windows, '
        'multi jobs told apart by tags, jobs at the shift start / end location, hubs); (ii) boundary scenarios: a chain of jobs on a '
        'line whose windows leave no slack, so that every service start is pinned to the END or the START of its window (also '
        'zero-length windows, zero durations, a second window one second after the service end), with optional breaks given as OFFSET '
        'interval or as time window (with / without location, alternative places, tagged, one or two per shift, both skip policies) '
        'and reloads (tagged, two at one location, with windows) placed in the chain so that they start exactly at the latest / '
        'earliest moment of their interval; non-trivial there = a solved problem with at least two served activities; the input '
        'distribution records for every run how many breaks / reloads / jobs start at the latest or earliest moment per span kind.')
TRUSTED = ['tools/serde2coq.py (translation of serde attributes into the codec combinators of Model/SerdeSem.v; validated on every '
           'run by comparing enc(dec(doc)) with the real serialize(deserialize(doc)) on generated documents)',
           'serde_json text layer (tokenizer, escapes, shortest float printing / float parsing): not modelled, float text round trip '
           'validated differentially (op flt) within the one-ulp tolerance the property grants',
           'tools/props/c11.py::init_singles / init_vehicle_singles (how job_reader.rs builds the core singles of jobs, optional breaks and '
           'reloads and names the conditional jobs) and written_tours (how the reader resolves location / time of a written activity): '
           'inputs of the model of read_init_solution; a mistake shows as a model/implementation disagreement',
           'the solver itself (which tour it returns) is not modelled: the feed-back theorems speak about ANY tour whose activities are '
           'placed within their windows, the campaign feeds the real solver output through writer and reader']
ASSUMPTIONS = ['floats in documents are finite (serde_json cannot parse a non-finite number; a non-finite f64 built in memory is '
               'written as null and is outside the claim)',
               'integer literals used for f64 fields are below 2^53 in magnitude (exact conversion)',
               'documents nest less deeply than serde_json\'s recursion limit (128)',
               'feed-back: jobs / breaks / reloads of one vehicle shift that location and time cannot tell apart carry distinct tags '
               '(the documented requirement; hypotheses `well_written` of C11_init_roundtrip); no required breaks, no vicinity clustering '
               '(commute / transit stops are refused by read_init_solution by design), no recharge stations; integer times']

REPO = os.environ.get('VERIF_REPO', '/repo')
_SCHEMA = None
_GEN_ERROR = None


def schema():
    global _SCHEMA
    if _SCHEMA is None:
        items, _ = serde2coq.load(REPO)
        irs_p, _ = serde2coq.build(items, serde2coq.ROOTS_PROBLEM)
        irs_s, _ = serde2coq.build(items, serde2coq.ROOTS_SOLUTION)
        irs = dict(irs_s)
        irs.update(irs_p)
        _SCHEMA = irs
    return _SCHEMA


STUB = '''(* GENERATED stub: tools/serde2coq.py could not translate the Rust model files:
   %s *)
Lemma translator_failed : False.
Proof. Qed.
'''


def regenerate(repo, outdir):
    global REPO, _SCHEMA, _GEN_ERROR
    REPO = repo
    _SCHEMA = None
    try:
        info = serde2coq.translate(repo, outdir)
        _GEN_ERROR = None
        return info
    except serde2coq.TranslateError as e:
        # fail loudly: the obligation "the model is the translation of the code" cannot be discharged
        _GEN_ERROR = str(e)
        os.makedirs(outdir, exist_ok=True)
        for f in ('ProblemCodec.v', 'SolutionCodec.v'):
            with open(os.path.join(outdir, f), 'w') as fh:
                fh.write(STUB % str(e).replace('*)', '* )'))
        return {'translator': 'tools/serde2coq.py', 'error': str(e)}


# ------------------------------------------------------------------ JSON trees with ordered, repeatable keys
# node: ('o', [(k, node)]) | ('a', [node]) | ('s', str) | ('i', int) | ('f', (m, e)) | ('b', bool) | ('n',)
def text_of(n):
    k = n[0]
    if k == 'o':
        return '{' + ','.join(json.dumps(a) + ':' + text_of(b) for a, b in n[1]) + '}'
    if k == 'a':
        return '[' + ','.join(text_of(x) for x in n[1]) + ']'
    if k == 's':
        return json.dumps(n[1])
    if k == 'i':
        return str(n[1])
    if k == 'f':
        m, e = n[1]
        x = Fraction(m, 2 ** e)
        r = repr(float(x))
        if Fraction(float(x)) != x:
            raise ValueError('float not exact')
        if 'e' not in r and '.' not in r and 'inf' not in r:
            r += '.0'
        return r
    if k == 'b':
        return 'true' if n[1] else 'false'
    return 'null'


def tree_of_text(text):
    """parse JSON text keeping key order / duplicates and the integer / float literal distinction (as serde_json classifies)"""
    def pint(s):
        z = int(s)
        if -2 ** 63 <= z < 2 ** 64 and s != '-0':
            return ('i', z)
        return pfloat(s)

    def pfloat(s):
        m, d = float(s).as_integer_ratio()
        return ('f', (m, d.bit_length() - 1))

    def conv(v):
        if isinstance(v, tuple):
            return v
        if isinstance(v, list):
            return ('a', [conv(x) for x in v])
        if isinstance(v, str):
            return ('s', v)
        if v is True or v is False:
            return ('b', v)
        if v is None:
            return ('n',)
        raise ValueError(v)
    return conv(json.loads(text, object_pairs_hook=lambda ps: ('o', [(k, conv(v)) for k, v in ps]), parse_int=pint, parse_float=pfloat))


def cstr(s):
    return '"' + s.replace('"', '""') + '"'


def coq_of(n):
    k = n[0]
    if k == 'o':
        return 'JObj [' + '; '.join('(%s, %s)' % (cstr(a), coq_of(b)) for a, b in n[1]) + ']'
    if k == 'a':
        return 'JArr [' + '; '.join(coq_of(x) for x in n[1]) + ']'
    if k == 's':
        return 'JStr ' + cstr(n[1])
    if k == 'i':
        return 'JInt (%d)' % n[1]
    if k == 'f':
        return 'JFlt (%d) %d%%nat' % n[1]
    if k == 'b':
        return 'JBool ' + ('true' if n[1] else 'false')
    return 'JNull'


class Fl(Fraction):
    """a number written as a float literal / held in an f64 field"""


def canon_of_tree(n):
    """value with numbers as numbers, objects as dicts"""
    k = n[0]
    if k == 'o':
        return {a: canon_of_tree(b) for a, b in n[1]}
    if k == 'a':
        return [canon_of_tree(x) for x in n[1]]
    if k == 's':
        return n[1]
    if k == 'i':
        return Fraction(n[1])
    if k == 'f':
        return Fl(n[1][0], 2 ** n[1][1])
    if k == 'b':
        return bool(n[1])
    return None


def canon_of_py(v):
    if isinstance(v, dict):
        return {a: canon_of_py(b) for a, b in v.items()}
    if isinstance(v, list):
        return [canon_of_py(x) for x in v]
    if isinstance(v, bool) or v is None or isinstance(v, str):
        return v
    return Fl(v) if isinstance(v, float) else Fraction(v)


def canon_of_model(t):
    """value printed by Coq for a json term"""
    if t == 'JNull':
        return None
    tag = t[0]
    if tag == 'JObj':
        return {kv[0]: canon_of_model(kv[1]) for kv in t[1]}
    if tag == 'JArr':
        return [canon_of_model(x) for x in t[1]]
    if tag == 'JStr':
        return t[1]
    if tag == 'JInt':
        return Fraction(t[1])
    if tag == 'JFlt':
        return Fl(t[1], 2 ** t[2])
    if tag == 'JBool':
        return t[1] == 'true'
    raise ValueError('unexpected model value %r' % (t,))


def fbits(x):
    return struct.unpack('<Q', struct.pack('<d', float(x)))[0]


def first_diff(a, b, path='', ulp=0):
    """first path where two values differ; ulp = tolerated distance in units of the last place for numbers that are not
    both integers (the property: "numbers compared as numbers, to the last but one bit")"""
    if type(a) != type(b) and not (isinstance(a, Fraction) and isinstance(b, Fraction)):
        return path or '.'
    if ulp and isinstance(a, Fraction) and a != b:
        if not (isinstance(a, Fl) or isinstance(b, Fl)):
            return path or '.'
        fa, fb = float(a), float(b)
        if Fraction(fa) == a and Fraction(fb) == b and ulp_dist(fbits(fa), fbits(fb)) <= ulp:
            return None
        return path or '.'
    if isinstance(a, dict):
        for k in sorted(set(a) | set(b)):
            if k not in a or k not in b:
                return path + '.' + k
            d = first_diff(a[k], b[k], path + '.' + k, ulp)
            if d:
                return d
        return None
    if isinstance(a, list):
        if len(a) != len(b):
            return path + '[]'
        for x, y in zip(a, b):
            d = first_diff(x, y, path + '[]', ulp)
            if d:
                return d
        return None
    return None if a == b else (path or '.')


# ------------------------------------------------------------------ schema-driven document generator
STRS = ['job1', 'job2', 'v1', 'vehicle_1', 'car', 'truck', 'normal_car', '2019-07-04T09:00:00Z', '2019-07-04T18:00:00Z',
        '2020-05-01T00:00:00+02:00', 'x', '', 'a b', 'pickup', 'delivery', 'departure', 'arrival', 'break', 'unknown',
        'NO_REASON_FOUND', "it's", 'tag/1', 'A-b_c.d', '{}', '[1]', 'null', '0']
INT_RANGES = {'i64': (-2 ** 63, 2 ** 63 - 1), 'i32': (-2 ** 31, 2 ** 31 - 1), 'usize': (0, 2 ** 64 - 1)}


class Gen:
    def __init__(self, rng, mode, rr=None):
        self.rng = rng
        self.mode = mode          # 'canon' | 'loose' | 'bad'
        self.rr = rr if rr is not None else {}
        self.mutations = 1 if mode == 'bad' else 0
        self.mut_at = rng.below(rng.choice([4, 12, 40, 120])) if mode == 'bad' else -1   # which opportunity gets the malformation
        self.opportunities = 0
        self.mutated = None
        self.irs = schema()
        self.buf = False          # inside an internally tagged / untagged enum (serde reads from buffered content there)
        self.full = None           # None | 'all' | 'none'  (corpus documents)

    def loose(self, num=1, den=4):
        return self.mode != 'canon' and self.rng.chance(num, den)

    def want_mutation(self):
        if self.mutations > 0:
            self.opportunities += 1
            if self.opportunities > self.mut_at:
                self.mutations -= 1
                return True
        return False

    # ---- scalars
    def g_string(self):
        if self.rng.chance(1, 6):
            n = self.rng.below(6)
            return ''.join(self.rng.choice('abcXYZ019 _-.:/+#@!?*()[]{}<>=,;~^&|') for _ in range(n))
        return self.rng.choice(STRS)

    def g_int(self, p):
        lo, hi = INT_RANGES[p]
        r = self.rng.below(10)
        if r == 0:
            return hi
        if r == 1:
            return lo
        if r == 2:
            return 0
        if r == 3:
            return max(lo, min(hi, self.rng.range(-2 ** 40, 2 ** 40)))
        return max(lo, min(hi, self.rng.range(-3, 1000)))

    def g_float(self):
        # only values whose decimal text serde_json parses exactly (its fast path: < 2^53 mantissa, few digits); the
        # inexact tail of its float parser (off by one ulp) is exercised by the `flt` stream, where the property's
        # "last but one bit" tolerance applies
        r = self.rng.below(8)
        if r == 0:
            return ('f', (0, 0))
        if r == 1:
            return ('f', (self.rng.range(-10 ** 9, 10 ** 9), 0))
        if r == 2:
            return ('f', (self.rng.range(-2 ** 20, 2 ** 20), self.rng.range(0, 8)))
        if r == 3:
            return ('f', (self.rng.choice([1, -1]) * (9 * 10 ** 14 - self.rng.below(3)), 0))
        return ('f', (self.rng.range(-4000, 4000), self.rng.range(0, 3)))

    def g_prim(self, p):
        if p == 'string':
            return ('s', self.g_string())
        if p == 'bool':
            return ('b', self.rng.chance(1, 2))
        if p == 'f64':
            f = self.g_float()
            m, e = f[1]
            if self.loose(1, 5) and e == 0 and abs(m) < 2 ** 53:
                return ('i', m)          # integer literal for a float field
            return f
        return ('i', self.g_int(p))

    def bad_scalar(self, p):
        """a value the scalar type must reject"""
        alts = [('n',), ('o', []), ('a', [])]
        if p == 'string':
            alts += [('i', 5), ('f', (5, 1)), ('b', True)]
        elif p == 'bool':
            alts += [('i', 1), ('s', 'true')]
        elif p == 'f64':
            alts += [('s', '1.5'), ('b', False)]
        else:
            lo, hi = INT_RANGES[p]
            alts += [('s', '5'), ('f', (10, 1)), ('f', (3, 1)), ('i', hi + 1), ('b', True)]
            if lo - 1 >= -2 ** 63:
                alts += [('i', lo - 1)]
        return self.rng.choice(alts)

    # ---- types
    def g_type(self, t, depth):
        k = t[0]
        if k == 'prim':
            if self.want_mutation():
                self.mutated = 'scalar:' + t[1]
                return self.bad_scalar(t[1])
            return self.g_prim(t[1])
        if k == 'list':
            if self.want_mutation():
                self.mutated = 'list'
                return self.rng.choice([('n',), ('o', []), ('s', 'x'), ('i', 0)])
            n = 0 if self.full == 'none' else (self.rng.range(1, 2) if self.full == 'all' else self.rng.choice([0, 1, 1, 2, 3]))
            if depth > 6:
                n = min(n, 1)
            return ('a', [self.g_type(t[1], depth + 1) for _ in range(n)])
        if k == 'opt':
            if self.full == 'none' or (self.full is None and self.rng.chance(1, 3)):
                return ('n',)
            return self.g_type(t[1], depth)
        if k == 'pair':
            if self.want_mutation():
                self.mutated = 'pair-arity'
                return ('a', [self.g_type(t[1], depth + 1)] * self.rng.choice([0, 1, 3]))
            return ('a', [self.g_type(t[1], depth + 1), self.g_type(t[2], depth + 1)])
        if k == 'smap':
            ks = self.rng.shuffle(['a', 'b', 'marker-color', 'name', 'stroke'])[:self.rng.below(4)]
            return ('o', [(x, ('s', self.g_string())) for x in sorted(ks)])
        return self.g_named(t[1], depth)

    def g_fields(self, fields, depth, tag=None, tag_first=True):
        """object for a struct / struct variant"""
        items = []
        for f in fields:
            ty = f['ty']
            name = f['ser']
            if self.mode != 'canon' and len(f['de']) > 1 and self.rng.chance(1, 2):
                name = self.rng.choice(f['de'])
            elif self.mode != 'canon':
                name = f['de'][0]
            if ty[0] == 'opt':
                present = self.full == 'all' or (self.full is None and self.rng.chance(2, 3))
                if present:
                    items.append((name, self.g_type(ty[1], depth + 1)))
                elif f['skip_none']:
                    if self.loose(1, 3):
                        items.append((name, ('n',)))
                else:
                    if not self.loose(1, 3):
                        items.append((name, ('n',)))
            elif f.get('default') is not None and self.loose(1, 2):
                pass        # defaulted field omitted
            else:
                items.append((name, self.g_type(ty, depth + 1)))
        if tag is not None:
            pos = 0 if (self.mode == 'canon' or tag_first) else self.rng.below(len(items) + 1)
            items.insert(pos, tag)
        if self.loose(1, 6):
            items.insert(self.rng.below(len(items) + 1), ('zzUnknown', self.rng.choice([('i', 1), ('n',), ('o', []), ('s', 'u')])))
        if self.loose(1, 6):
            items = self.rng.shuffle(items)
        if self.want_mutation() and items:
            r = self.rng.below(4)
            i = self.rng.below(len(items))
            if r == 0:
                self.mutated = 'drop-field'
                items.pop(i)
            elif r == 1:
                self.mutated = 'dup-field'
                items.insert(self.rng.below(len(items) + 1), items[i])
            elif r == 2:
                self.mutated = 'null-field'
                items[i] = (items[i][0], ('n',))
            else:
                self.mutated = 'retype-field'
                items[i] = (items[i][0], self.rng.choice([('s', 'x'), ('i', 7), ('a', []), ('o', []), ('b', False)]))
        return ('o', items)

    def g_seq(self, fields, depth):
        """positional form of a struct (visit_seq)"""
        out = []
        for f in fields:
            out.append(self.g_type(f['ty'], depth + 1))
        return ('a', out)

    def g_named(self, name, depth):
        ir = self.irs[name]
        if ir['kind'] == 'struct':
            if self.loose(1, 25):
                return self.g_seq(ir['fields'], depth)
            tag = None
            if ir['tag'] and not self.loose(1, 3):
                tag = (ir['tag'][0], ('s', ir['tag'][1]))
            return self.g_fields(ir['fields'], depth, tag)
        outer_buf = self.buf
        if ir['rep'] in ('internal', 'untagged'):
            self.buf = True
        try:
            return self.g_enum(ir, name, depth, outer_buf)
        finally:
            self.buf = outer_buf

    def g_enum(self, ir, name, depth, outer_buf):
        vs = ir['variants']
        k = self.rr.get(name, 0)
        self.rr[name] = k + 1
        if ir['recursive'] and depth > 4:
            cands = [v for v in vs if v['shape'] == 'unit']
            v = cands[k % len(cands)]
        else:
            v = vs[k % len(vs)]
        rep = ir['rep']
        if rep == 'external':
            nm = v['ser'] if self.mode == 'canon' else self.rng.choice(v['de'])
            if self.want_mutation():
                self.mutated = 'unknown-variant'
                return self.rng.choice([('s', nm + 'X'), ('s', nm.upper() + '_'), ('i', 0), ('n',), ('o', [(nm, ('i', 1))])])
            if self.loose(1, 8):
                return ('o', [(nm, ('n',))])
            return ('s', nm)
        if rep == 'internal':
            nm = v['ser'] if self.mode == 'canon' else self.rng.choice(v['de'])
            tagv = ('s', nm)
            if self.want_mutation():
                r = self.rng.below(3)
                self.mutated = 'bad-tag'
                if r == 0:
                    tagv = ('s', nm + '-x')
                elif r == 1:
                    # (an in-range unsigned integer would be accepted as the variant index)
                    tagv = self.rng.choice([('i', len(vs) + self.rng.below(3)), ('i', -1), ('f', (0, 0)), ('n',), ('a', []), ('b', True)])
                    if not outer_buf and self.rng.chance(1, 2):
                        tagv = ('i', vs.index(v))      # a variant index is refused when the enum is read from the text
                else:
                    fields = v.get('fields', [])
                    return self.g_fields(fields, depth, None)          # tag missing
            fields = v.get('fields', [])
            if self.mutated != 'bad-tag' and outer_buf and self.loose(1, 4):
                tagv = ('i', vs.index(v))          # the tag as variant index
            return self.g_fields(fields, depth, (ir['tag'], tagv), tag_first=not self.loose(1, 2))
        # untagged
        if v['shape'] == 'newtype':
            return self.g_type(v['ty'], depth)
        return self.g_fields(v['fields'], depth)


def gen_doc(rng, kind, mode, rr, full=None):
    global _GEN_ERROR
    root = {'problem': 'Problem', 'matrix': 'Matrix', 'solution': 'Solution'}[kind]
    try:
        schema()
    except serde2coq.TranslateError as e:
        # the Rust model files use something the translator does not understand: no schema, no generated documents; the
        # stub Generated/*.v (regenerate) already fails the proof obligations, the other streams still run
        _GEN_ERROR = str(e)
        return None
    for _ in range(20):
        g = Gen(rng, mode, rr)
        g.full = full
        tree = g.g_named(root, 0)
        if mode == 'bad' and g.mutated is None:
            continue
        try:
            text = text_of(tree)
        except ValueError:
            continue
        if len(text) > 60000:
            continue
        c = {'op': 'rt', 'kind': kind, 'mode': mode, 'doc': text}
        if g.mutated:
            c['mutation'] = g.mutated
        return c
    return None



# ------------------------------------------------------------------ (c) CSV import
T0 = ['2020-07-04T08:00:00Z', '2020-07-04T09:30:00Z', '2020-07-04T12:00:00+02:00']
T1 = ['2020-07-04T18:00:00Z', '2020-07-04T20:00:00Z', '2020-07-05T00:00:00Z']
JOB_IDS = ['job1', 'job2', 'job3', 'j-4', 'J5', 'order_6', '7', 'job1x']
PROFILES = ['car', 'truck', 'bike', 'car_1', 'normal-car']


def dec_str(rng, lo, hi, digits):
    """a short decimal; returns (text, exact dyadic of the f64 the std parser yields)"""
    k = rng.range(lo * 10 ** digits, hi * 10 ** digits)
    d = rng.below(digits + 1)
    k = k // 10 ** (digits - d)
    text = '%s%d' % ('-' if k < 0 else '', abs(k) // 10 ** d)
    if d:
        text += '.' + ('%0*d' % (d, abs(k) % 10 ** d))
    m, den = float(text).as_integer_ratio()
    return text, [m, den.bit_length() - 1]


def gen_csv(rng):
    wf = {'balanced': True, 'tw_pairs': True, 'tw_order': True, 'type_ids_distinct': True, 'profiles_distinct': True,
          'has_vehicle': True, 'demand_not_min': True}
    jrows = []
    sloppy = rng.chance(1, 6)            # tables outside the documented form (half windows, reversed windows, unbalanced demand)
    nj = rng.choice([0, 1, 2, 3, 3, 4, 5, 6])
    ids = rng.shuffle(JOB_IDS)[:nj]
    for jid in ids:
        shape = rng.below(10)
        if shape < 4:
            ds = [rng.choice([1, 2, 3, 10, 2147483647])]
        elif shape < 6:
            ds = [-rng.range(1, 5)]
        elif shape < 7:
            ds = [0]
        elif shape < 9:
            a, b = rng.range(1, 4), rng.range(1, 4)          # pickups and deliveries with equal sums
            ds = [a, b, -(a + b)] if rng.chance(1, 2) else [a + b, -a, -b]
            if rng.chance(1, 3):
                ds.append(0)
            ds = rng.shuffle(ds)
        elif sloppy:
            ds = [rng.range(1, 3), -rng.range(4, 6)]
            wf['balanced'] = False
        else:
            ds = [rng.range(1, 9)]
        if rng.chance(1, 150):
            ds[0] = -2 ** 31
            wf['demand_not_min'] = False
            wf['balanced'] = wf['balanced'] and len(ds) == 1
        for d in ds:
            lat = dec_str(rng, -90, 90, 5)
            lng = dec_str(rng, -180, 180, 5)
            r = rng.below(12) if sloppy else rng.below(10)
            if r < 6:
                tw = [rng.choice(T0), rng.choice(T1)]
            elif r < 10:
                tw = [None, None]
            elif r < 11:
                tw = [rng.choice(T0), None] if rng.chance(1, 2) else [None, rng.choice(T1)]
                wf['tw_pairs'] = False
            else:
                tw = [rng.choice(T1), rng.choice(T0)]
                wf['tw_order'] = False
            dur = rng.choice([0, 1, 5, 300, rng.range(0, 100000), 2 ** 53])
            jrows.append([jid, lat, lng, d, dur, tw[0], tw[1]])
    if rng.chance(1, 2):
        jrows = rng.shuffle(jrows)          # rows of one job need not be adjacent
    vrows = []
    nv = rng.choice([1, 1, 2, 2, 3, 4]) if not rng.chance(1, 40) else 0
    wf['has_vehicle'] = nv > 0
    profs = rng.shuffle(PROFILES)
    for k in range(nv):
        vid = 'vehicle%d' % (k + 1)
        if k > 0 and rng.chance(1, 25):
            vid = 'vehicle1'
            wf['type_ids_distinct'] = False
        prof = profs[k]
        if k > 0 and rng.chance(1, 4):
            prof = vrows[rng.below(k)][7]
        amount = rng.choice([1, 1, 2, 3, 10, 0])
        vrows.append([vid, dec_str(rng, -90, 90, 4), dec_str(rng, -180, 180, 4), rng.choice([0, 1, 10, 40, 2147483647, -3]),
                      rng.choice(T0), rng.choice(T1), amount, prof])
    shared = set()
    for a in range(nv):
        for b in range(a + 1, nv):
            if vrows[a][7] == vrows[b][7]:
                shared.add(vrows[a][7])
                if vrows[a][6] >= 1 and vrows[b][6] >= 1:
                    wf['profiles_distinct'] = False
    jt = 'ID,LAT,LNG,DEMAND,DURATION,TW_START,TW_END\n' + ''.join(
        '%s,%s,%s,%d,%d,%s,%s\n' % (r[0], r[1][0], r[2][0], r[3], r[4], r[5] or '', r[6] or '') for r in jrows)
    vt = 'ID,LAT,LNG,CAPACITY,TW_START,TW_END,AMOUNT,PROFILE\n' + ''.join(
        '%s,%s,%s,%d,%s,%s,%d,%s\n' % (r[0], r[1][0], r[2][0], r[3], r[4], r[5], r[6], r[7]) for r in vrows)
    return {'op': 'csv', 'jobs': jt, 'vehicles': vt, 'jrows': jrows, 'vrows': vrows, 'wf': wf}


def csv_term(c):
    def ostr(x):
        return 'None' if x is None else '(Some %s)' % cstr(x)
    js = ['(%s, (%d, %d%%nat), (%d, %d%%nat), %d, %d, %s, %s)' % (cstr(r[0]), r[1][1][0], r[1][1][1], r[2][1][0], r[2][1][1], r[3], r[4], ostr(r[5]), ostr(r[6]))
          for r in c['jrows']]
    vs = ['(%s, (%d, %d%%nat), (%d, %d%%nat), %d, %s, %s, %d, %s)' % (cstr(r[0]), r[1][1][0], r[1][1][1], r[2][1][0], r[2][1][1], r[3], cstr(r[4]), cstr(r[5]), r[6], cstr(r[7]))
          for r in c['vrows']]
    return 'run_csv [%s] [%s]' % ('; '.join(js), '; '.join(vs))


def csv_canon(v):
    """jobs and matrix profiles come out in hash order: compare them as sets"""
    v = json.loads(json.dumps(v)) if not isinstance(v, dict) else dict(v)
    plan = dict(v.get('plan', {}))
    plan['jobs'] = sorted(plan.get('jobs', []), key=lambda j: j['id'])
    fleet = dict(v.get('fleet', {}))
    fleet['profiles'] = sorted(fleet.get('profiles', []), key=lambda j: j['name'])
    v['plan'] = plan
    v['fleet'] = fleet
    return v


def csv_compare(c, impl, model):
    if 'panic' in impl:
        return 'implementation panicked (%s), model: %s' % (impl['panic'], str(model)[:80])
    if model == 'CsvBadInput':
        return 'generator produced a row outside the Rust field types'
    if model == 'CsvRejected':      # a DEMAND of i32::MIN: read error E0000 "cannot read jobs" (repair 1cad789)
        if not impl['ok'] and 'cannot read jobs' in str(impl.get('err')):
            return None
        return 'model rejects the tables (DEMAND = i32::MIN), implementation: %s' % (
            'imports them' if impl['ok'] else 'rejects with %s' % impl.get('err'))
    if not impl['ok']:
        return 'implementation rejects the tables: %s' % impl.get('err')
    m = csv_canon(canon_of_model(model[1]))
    i = csv_canon(canon_of_py(impl['problem']))
    d = first_diff(i, m)
    return None if d is None else 'imported problem differs from the model at %s' % d


def csv_data_violation(c, p):
    """every row's data reappears exactly (checked on the implementation's problem, independent of the model)"""
    jobs = {}
    for j in p['plan']['jobs']:
        if j['id'] in jobs:
            return 'duplicate-job-id', 'job id %s appears twice' % j['id']
        jobs[j['id']] = j
    want = {}
    for r in c['jrows']:
        bucket = 'pickups' if r[3] > 0 else ('deliveries' if r[3] < 0 else 'services')
        tw = [[r[5], r[6]]] if (r[5] is not None and r[6] is not None) else None
        task = {'places': [{'location': {'lat': Fl(float(r[1][0])), 'lng': Fl(float(r[2][0]))}, 'duration': Fl(r[4])}]}
        if tw:
            task['places'][0]['times'] = tw
        if r[3] != 0:
            task['demand'] = [Fraction(abs(r[3]))]
        want.setdefault(r[0], {}).setdefault(bucket, []).append(task)
    if set(want) != set(jobs):
        return 'job-set', 'job ids %s, rows have %s' % (sorted(jobs), sorted(want))
    for jid, buckets in want.items():
        got = canon_of_py(jobs[jid])
        exp = dict(buckets)
        exp['id'] = jid
        d = first_diff(got, exp)
        if d:
            return 'job-data' + d.replace('[]', ''), 'job %s does not carry its rows\' data at %s' % (jid, d)
    vs = p['fleet']['vehicles']
    if len(vs) != len(c['vrows']):
        return 'vehicle-count', '%d vehicle types for %d rows' % (len(vs), len(c['vrows']))
    for v, r in zip(vs, c['vrows']):
        depot = {'lat': Fl(float(r[1][0])), 'lng': Fl(float(r[2][0]))}
        got = canon_of_py(v)
        exp = {'typeId': r[0], 'profile': {'matrix': r[7]}, 'capacity': [Fraction(r[3])],
               'shifts': [{'start': {'earliest': r[4], 'location': depot}, 'end': {'latest': r[5], 'location': depot}}]}
        for k in exp:
            d = first_diff(got.get(k), exp[k])
            if d:
                return 'vehicle-data.' + k, 'vehicle type %s does not carry its row at %s%s' % (r[0], k, d)
        if len(v['vehicleIds']) != r[6]:
            return 'vehicle-amount', 'vehicle type %s has %d ids for AMOUNT %d' % (r[0], len(v['vehicleIds']), r[6])
    if sorted(x['name'] for x in p['fleet']['profiles']) != sorted({r[7] for r in c['vrows']}):
        return 'profiles', 'matrix profiles are not the set of PROFILE values'
    return None


def csv_oracle(c, impl):
    wf = c['wf']
    if 'panic' in impl:
        if not wf['demand_not_min']:
            # regression class of the repaired finding C11-F2 (kind "fixed": suppresses nothing)
            return [{'class': 'csv-demand-i32-min-abs-overflow', 'what': 'DEMAND = -2147483648 makes the import panic: ' + impl['panic']}]
        return [{'class': 'panic:csv', 'what': 'import panicked: ' + impl['panic']}]
    if not impl['ok']:
        if not wf['demand_not_min'] and 'cannot read jobs' in str(impl.get('err')):
            return []       # |i32::MIN| is not a value of the demand type: a read error, like any other unreadable number
        return [{'class': 'csv-tables-rejected', 'what': 'documented tables are rejected: %s' % impl.get('err')}]
    if not wf['demand_not_min']:
        # regression class of the repaired finding C11-F2 (kind "fixed": suppresses nothing), build without overflow checks
        return [{'class': 'csv-demand-i32-min-abs-overflow',
                 'what': 'DEMAND = -2147483648 is imported (its magnitude is not an i32: the demand cannot be carried)'}]
    v = []
    if wf['tw_pairs']:
        dv = csv_data_violation(c, impl['problem'])
        if dv:
            v.append({'class': 'csv-data-lost:' + dv[0], 'what': dv[1]})
    codes = impl['validation']
    table_ok = wf['balanced'] and wf['tw_order'] and wf['type_ids_distinct'] and wf['has_vehicle']
    if codes and table_ok:
        # regression class of the repaired finding C11-F1 (kind "fixed": suppresses nothing)
        if codes == ['E1301'] and not wf['profiles_distinct']:
            v.append({'class': 'csv-vehicle-ids-from-profile:rows-sharing-a-profile-get-equal-vehicle-ids',
                      'what': 'two vehicle rows with the same PROFILE import as duplicate vehicle ids (E1301)'})
        else:
            v.append({'class': 'csv-import-invalid:' + '+'.join(codes), 'what': 'well-formed tables import as a problem rejected with %s' % codes})
    return v


# ------------------------------------------------------------------ (b) solver output read back as initial solution
import datetime
EPOCH0 = 1593849600          # 2020-07-04T08:00:00Z


def rfc(t):
    return datetime.datetime.fromtimestamp(t, datetime.timezone.utc).strftime('%Y-%m-%dT%H:%M:%SZ')


def unrfc(s):
    return int(datetime.datetime.strptime(s, '%Y-%m-%dT%H:%M:%SZ').replace(tzinfo=datetime.timezone.utc).timestamp())


def init_problem(rng, shape=None):
    """small pragmatic problem on matrix indices with integer travel times; returns (problem, matrix) as python values"""
    nloc = rng.range(4, 7)
    pos = [(rng.range(0, 30), rng.range(0, 30)) for _ in range(nloc)]
    horizon = rng.choice([2000, 4000, 10000])
    # locations several jobs share: the shift start (index 0: the writer merges a job served first there into the departure
    # stop, a job served last there into the arrival stop), the shift end when it differs, and a hub in the middle
    hub = rng.range(1, nloc - 1)
    end_loc = rng.choice([0, 0, 0, hub, rng.range(1, nloc - 1)])
    at_depot = rng.chance(3, 5)

    def win(a, b):
        return [rfc(EPOCH0 + a), rfc(EPOCH0 + b)]

    def any_loc():
        r = rng.below(10)
        if at_depot and r < 3:
            return 0
        if r < 5:
            return hub
        if r < 6:
            return end_loc
        return rng.range(1, nloc - 1)

    def place(loc=None, tag=None, times='rand', dur=None):
        p = {'location': {'index': any_loc() if loc is None else loc},
             'duration': rng.choice([0, 10, 60, 300]) if dur is None else dur}
        if times == 'rand':
            r = rng.below(5)
            if r == 0:
                p['times'] = [win(0, horizon)]
            elif r == 1:
                a = rng.range(0, horizon // 2)
                p['times'] = [win(a, a + rng.range(100, 1500))]
            elif r == 2:
                a = rng.range(0, 600)
                b = a + rng.range(50, 400)
                c = b + rng.range(1, 200)
                p['times'] = [win(a, b), win(c, c + rng.range(50, 600))]
        elif times is not None:
            p['times'] = times
        if tag is not None:
            p['tag'] = tag
        return p

    jobs = []
    nj = rng.range(2, 6)
    for k in range(nj):
        jid = 'job%d' % (k + 1)
        r = rng.below(12) if shape is None else shape
        dem = [rng.choice([1, 1, 2, 3, 20])]
        if r < 3:
            jobs.append({'id': jid, 'deliveries': [{'places': [place(tag=rng.choice([None, 't' + jid]))], 'demand': dem}]})
        elif r < 4:
            jobs.append({'id': jid, 'pickups': [{'places': [place()], 'demand': dem}]})
        elif r < 5:
            jobs.append({'id': jid, 'services': [{'places': [place()]}]})
        elif r < 7:          # pickup + delivery, tags tell the sub-jobs apart
            jobs.append({'id': jid, 'pickups': [{'places': [place(tag='p' + jid)], 'demand': dem}],
                         'deliveries': [{'places': [place(tag='d' + jid)], 'demand': dem}]})
        elif r < 8:          # two deliveries in one job at the same location, same windows: only the tags differ
            loc = rng.range(1, nloc - 1)
            jobs.append({'id': jid, 'deliveries': [{'places': [place(loc=loc, tag='a' + jid, times=None, dur=10)], 'demand': [1]},
                                                   {'places': [place(loc=loc, tag='b' + jid, times=None, dur=10)], 'demand': [1]}]})
        elif r < 9:          # alternative places at different locations
            l1 = rng.range(1, nloc - 1)
            l2 = rng.choice([x for x in range(1, nloc) if x != l1])      # either order of the two location indices
            tags = rng.choice([(None, None), ('x' + jid, 'y' + jid), ('x' + jid, None)])
            jobs.append({'id': jid, 'deliveries': [{'places': [place(loc=l1, tag=tags[0]), place(loc=l2, tag=tags[1])], 'demand': dem}]})
        elif r < 11:         # one place, two close windows, long service: the service may run into the second window
            a = rng.range(0, 800)
            b = a + rng.range(100, 600)
            gap = rng.range(1, 120)
            dur = rng.choice([60, 300, 600])
            jobs.append({'id': jid, 'deliveries': [{'places': [place(times=[win(a, b), win(b + gap, b + gap + rng.range(100, 900))], dur=dur)],
                                                    'demand': dem}]})
        else:                # two places at the SAME location, intersecting windows, different service times, distinct tags
            loc = rng.range(1, nloc - 1)
            a = rng.range(0, 500)
            jobs.append({'id': jid, 'deliveries': [{'places': [
                place(loc=loc, tag='slow' + jid, times=[win(0, horizon)], dur=rng.choice([300, 600])),
                place(loc=loc, tag='fast' + jid, times=[win(a, a + rng.range(200, 1500))], dur=rng.choice([0, 10, 60]))],
                'demand': dem}]})
    if shape is None and at_depot:
        # a job that has to be served FIRST, at the start location, and one that is served late at the end location
        if rng.chance(2, 3):
            jobs.append({'id': 'first', 'deliveries': [{'places': [place(loc=0, times=[win(0, rng.choice([0, 30, 200]))], dur=rng.choice([0, 10, 60]))],
                                                        'demand': [1]}]})
        if rng.chance(1, 3):
            jobs.append({'id': 'first2', 'pickups': [{'places': [place(loc=0, times=[win(0, 100)], dur=10)], 'demand': [1]}]})
        if rng.chance(1, 3):
            jobs.append({'id': 'last', 'deliveries': [{'places': [place(loc=end_loc, times=[win(horizon // 2, horizon)], dur=10)], 'demand': [1]}]})
    vehicles = []
    nt = rng.choice([1, 1, 2])
    for k in range(nt):
        shift = {'start': {'earliest': rfc(EPOCH0), 'location': {'index': 0}}}
        if rng.chance(3, 4):
            shift['end'] = {'latest': rfc(EPOCH0 + horizon), 'location': {'index': end_loc}}
        vehicles.append({'typeId': 'type%d' % (k + 1), 'vehicleIds': ['v%d_%d' % (k + 1, i + 1) for i in range(rng.choice([1, 2]))],
                         'profile': {'matrix': 'car'}, 'costs': {'fixed': 20.0, 'distance': 1.0, 'time': 1.0},
                         'shifts': [shift], 'capacity': [rng.choice([3, 10])]})
    problem = {'plan': {'jobs': jobs}, 'fleet': {'vehicles': vehicles, 'profiles': [{'name': 'car'}]}}
    # every matrix index must be used (E1504 compares the number of distinct locations with the matrix size)
    places = [p for j in jobs for k in ('pickups', 'deliveries', 'services') for t in j.get(k, []) for p in t['places']]
    ends = [v['shifts'][0]['end'] for v in vehicles if 'end' in v['shifts'][0]]
    used = sorted({0} | {p['location']['index'] for p in places} | {e['location']['index'] for e in ends})
    remap = {old: new for new, old in enumerate(used)}
    for p in places + ends:
        p['location'] = {'index': remap[p['location']['index']]}
    pos = [pos[i] for i in used]
    tt = [abs(a[0] - b[0]) * 10 + abs(a[1] - b[1]) * 10 for a in pos for b in pos]
    matrix = {'profile': 'car', 'travelTimes': tt, 'distances': [x * 7 for x in tt]}
    return problem, matrix


def init_boundary_problem(rng):
    """a chain of jobs on a line whose time windows leave no slack: the only tour that serves everything visits the chain in
    order, every service start is pinned (to the end or the start of its window, or to the arrival), and an optional break
    (offset interval or time window; with / without location; tagged or not) and / or a reload sit in the chain so that they
    start exactly at the latest or the earliest moment of their interval.  Returns (problem, matrix)."""
    xs = [0]                      # position of every matrix index; index 0 = depot

    def loc_at(x):
        if x in xs and rng.chance(2, 3):
            return xs.index(x)
        xs.append(x)
        return len(xs) - 1

    def win(a, b):
        return [rfc(EPOCH0 + a), rfc(EPOCH0 + b)]

    m = rng.range(2, 4)
    n_breaks = rng.choice([0, 1, 1, 1, 1, 2])
    required_break = rng.chance(1, 12)          # a REQUIRED break (reserved time, not a job) instead of optional ones
    if required_break:
        n_breaks = 0
    with_reload = rng.chance(1, 3)
    offset_kinds = [rng.chance(1, 2) for _ in range(n_breaks)]
    # chain: jobs 1..m, break(s) after job kb (>= 1), reload after job kr (1 <= kr < m)
    after = {}
    for b in range(n_breaks):
        after.setdefault(rng.range(1, m), []).append(('break', b))
    kr = rng.range(1, m - 1) if with_reload else None
    if with_reload:
        lst = after.setdefault(kr, [])
        lst.insert(rng.below(len(lst) + 1), ('reload', 0))
    t = 0
    x = 0
    jobs, breaks, reloads = [], [], []
    two_tagged = n_breaks == 2
    pinned = False

    def interval(a, dur_zero_ok=True):
        """an interval for something that arrives at a: returns (lo, hi, service start, mode)"""
        mode = rng.choice(['at-latest', 'at-latest', 'at-earliest', 'wait', 'point', 'interior'])
        if mode == 'at-latest':
            lo, hi = max(0, a - rng.choice([0, 1, 5, 50])), a
        elif mode == 'at-earliest':
            lo, hi = a, a + rng.choice([0, 1, 5, 50])
        elif mode == 'wait':
            w = rng.choice([1, 3, 20])
            lo, hi = a + w, a + w + rng.choice([0, 1, 10])
        elif mode == 'point':
            lo, hi = a, a
        else:
            lo, hi = max(0, a - rng.range(1, 30)), a + rng.range(1, 30)
        return lo, hi, max(a, lo), mode

    for k in range(1, m + 1):
        step = rng.choice([0, 3, 7, 9, 11, 20, 31])
        if k == 1 and step == 0 and rng.chance(1, 2):
            step = 9
        x2 = x + step
        li = loc_at(x2)
        a = t + abs(x2 - x)
        dur = rng.choice([0, 1, 1, 10, 60])
        mode = rng.choice(['at-end', 'at-end', 'at-start', 'wait', 'point', 'free', 'two'])
        place = {'location': {'index': li}, 'duration': dur}
        s0 = a
        if mode == 'at-end':
            place['times'] = [win(max(0, a - rng.choice([0, 1, 9, 100])), a)]
        elif mode == 'at-start':
            place['times'] = [win(a, a + rng.choice([0, 1, 9, 100]))]
        elif mode == 'wait':
            w = rng.choice([1, 4, 30])
            s0 = a + w
            place['times'] = [win(s0, s0 + rng.choice([0, 2, 50]))]
        elif mode == 'point':
            place['times'] = [win(a, a)]
        elif mode == 'two':
            # pinned to the end of the first window; a second window starts right after the service ends (gap >= 1 second)
            g = rng.choice([1, 1, 2, 40])
            place['times'] = [win(max(0, a - rng.choice([0, 3, 30])), a), win(a + dur + g, a + dur + g + rng.choice([0, 10, 500]))]
        if rng.chance(1, 4):
            place['tag'] = 'tg%d' % k
        jobs.append({'id': 'job%d' % k, 'deliveries': [{'places': [place], 'demand': [1]}]})
        t = s0 + dur
        x = x2
        for what, b in after.get(k, []):
            if what == 'break':
                where = rng.choice(['none', 'none', 'none', 'here', 'ahead', 'two-located', 'two-anywhere'])
                bx = x if where in ('none', 'here', 'two-anywhere') else x + rng.choice([2, 5, 12])
                a = t + abs(bx - x)
                bdur = rng.choice([0, 2, 2, 30])
                lo, hi, s0, bmode = interval(a)
                pl = {'duration': bdur}
                if where in ('here', 'ahead', 'two-located'):
                    pl['location'] = {'index': loc_at(bx)}
                places = [pl]
                # alternative places: a break has a location on all of its places or on none (breaks.rs asserts it)
                if where == 'two-located':
                    places.append({'duration': bdur, 'location': {'index': loc_at(bx + rng.choice([40, 90]))}})
                elif where == 'two-anywhere':
                    places.append({'duration': bdur + rng.choice([5, 60])})
                if two_tagged or rng.chance(1, 3):
                    for i, q in enumerate(places):
                        q['tag'] = 'b%d%s' % (b + 1, 'xy'[i])
                br = {'time': [lo, hi] if offset_kinds[b] else win(lo, hi), 'places': places}
                pol = rng.choice([None, None, 'skip-if-no-intersection', 'skip-if-arrival-before-end'])
                if pol:
                    br['policy'] = pol
                breaks.append((lo, hi, br))
                t, x = s0 + bdur, bx
            else:
                rx = rng.choice([0, 0, x, x + 4])
                a = t + abs(rx - x)
                rdur = rng.choice([0, 5, 20])
                rl = {'location': {'index': loc_at(rx)}, 'duration': rdur}
                s0 = a
                if rng.chance(1, 2):
                    lo, hi, s0, _ = interval(a)
                    rl['times'] = [win(lo, hi)]
                if rng.chance(2, 3):
                    rl['tag'] = 'r1'
                reloads.append(rl)
                if rng.chance(1, 3):         # a second reload place at the same location: only the tag tells them apart
                    rl['tag'] = 'r1'
                    r2 = {'location': dict(rl['location']), 'duration': rdur, 'tag': 'r2'}
                    reloads.insert(rng.below(2), r2)
                t, x = s0 + rdur, rx
    # window breaks of one shift must be disjoint (E1303): turn a clashing second one into an offset break
    wins = [(lo, hi) for i, (lo, hi, br) in enumerate(breaks) if not offset_kinds[i]]
    if len(wins) == 2 and not (wins[0][1] < wins[1][0] or wins[1][1] < wins[0][0]):
        offset_kinds[1] = True
        breaks[1][2]['time'] = [breaks[1][0], breaks[1][1]]
    any_offset = any(offset_kinds[:len(breaks)])
    back = abs(x - 0)
    shift = {'start': {'earliest': rfc(EPOCH0), 'location': {'index': 0}}}
    if any_offset:
        shift['start']['latest'] = rfc(EPOCH0)          # E1307: offset breaks need a fixed departure
    else:
        r = rng.below(3)
        if r == 0:
            shift['start']['latest'] = rfc(EPOCH0)
        elif r == 1:
            shift['start']['latest'] = rfc(EPOCH0 + rng.choice([5, 100]))
    if rng.chance(3, 4):
        end_at = 0 if rng.chance(3, 4) else rng.below(len(xs))
        shift['end'] = {'latest': rfc(EPOCH0 + t + abs(x - xs[end_at]) + rng.choice([0, 1, 500])), 'location': {'index': end_at}}
    if breaks:
        shift['breaks'] = [br for _, _, br in breaks]
        if rng.chance(1, 2):
            shift['breaks'] = shift['breaks'][::-1]
    if required_break:
        e = rng.range(1, max(2, t))
        l = e + rng.choice([0, 5, 30])
        if rng.chance(1, 2):
            shift['start']['latest'] = rfc(EPOCH0)
            tm = {'earliest': e, 'latest': l}
        else:
            tm = {'earliest': rfc(EPOCH0 + e), 'latest': rfc(EPOCH0 + l)}
        shift['breaks'] = [{'time': tm, 'duration': rng.choice([2, 10, 30])}]
    if reloads:
        shift['reloads'] = reloads
    if rng.chance(1, 3):
        ex = rng.choice(xs[1:] or [5])
        jobs.append({'id': 'extra', 'deliveries': [{'places': [{'location': {'index': xs.index(ex) if ex in xs else loc_at(ex)}, 'duration': rng.choice([0, 10])}], 'demand': [1]}]})
    cap = max(kr, m - kr) if with_reload else rng.choice([m + 1, 10])
    vehicle = {'typeId': 'type1', 'vehicleIds': ['v1_%d' % (i + 1) for i in range(rng.choice([1, 1, 1, 2]))],
               'profile': {'matrix': 'car'}, 'costs': {'fixed': rng.choice([10.0, 20.0]), 'distance': 1.0, 'time': 1.0},
               'shifts': [shift], 'capacity': [cap]}
    if rng.chance(1, 2):
        jobs = rng.shuffle(jobs)
    problem = {'plan': {'jobs': jobs}, 'fleet': {'vehicles': [vehicle], 'profiles': [{'name': 'car'}]}}
    tt = [abs(a - b) for a in xs for b in xs]
    matrix = {'profile': 'car', 'travelTimes': tt, 'distances': [v * 7 for v in tt]}
    return problem, matrix


def gen_init_boundary(rng):
    problem, matrix = init_boundary_problem(rng)
    return {'op': 'init', 'scenario': 'boundary', 'problem': json.dumps(problem), 'matrix': json.dumps(matrix),
            'generations': rng.choice([1, 2, 5, 10])}


def gen_init(rng, shape=None):
    problem, matrix = init_problem(rng, shape)
    return {'op': 'init', 'problem': json.dumps(problem), 'matrix': json.dumps(matrix), 'generations': rng.choice([1, 2, 5])}


CUSTOMER = ('pickup', 'delivery', 'replacement', 'service')


def init_singles(job):
    """the core singles the problem reader builds for a job (job_reader.rs: pickups, deliveries, replacements, services)"""
    out = []
    for key in ('pickups', 'deliveries', 'replacements', 'services'):
        for task in job.get(key) or []:
            places = []
            tags = []
            for i, p in enumerate(task['places']):
                times = [(unrfc(w[0]), unrfc(w[1])) for w in p['times']] if p.get('times') is not None else [(0, None)]
                places.append((p['location']['index'], int(p['duration']), times))
                if p.get('tag') is not None:
                    tags.append((i, p['tag']))
            out.append((job['id'], places, tags))
    return out


def single_term(sg):
    jid, places, tags = sg
    ps = '; '.join('mk_place (Some %d) %d [%s]' % (loc, dur, '; '.join('SWindow %d %s' % (a, 'None' if b is None else '(Some %d)' % b) for a, b in times))
                   for loc, dur, times in places)
    ts = '; '.join('(%d%%nat, %s)' % (i, cstr(t)) for i, t in tags)
    return 'mk_single %s [%s] [%s]' % (cstr(jid), ps, ts)


def written_activities(problem, written):
    """customer-job activities of the written solution with what activity_matcher.rs derives for each of them"""
    jobs = {j['id']: j for j in problem['plan']['jobs']}
    out = []
    for tour in written.get('tours', []):
        start = unrfc(tour['stops'][0]['time']['departure'])
        for stop in tour['stops']:
            for a in stop['activities']:
                if a['type'] not in CUSTOMER:
                    continue
                loc = (a.get('location') or stop['location'])['index']
                t = a.get('time')
                tm = (unrfc(t['start']), unrfc(t['end'])) if t else (unrfc(stop['time']['arrival']), unrfc(stop['time']['departure']))
                out.append({'tour': (tour['vehicleId'], tour.get('shiftIndex', 0)), 'job': jobs.get(a['jobId']), 'job_id': a['jobId'],
                            'start': start, 'loc': loc, 'time': tm, 'tag': a.get('jobTag')})
    return out


VEHICLE_SPECIFIC = ('break', 'reload', 'recharge')


def span_of(w):
    return ('w', unrfc(w[0]), unrfc(w[1]))


def init_vehicle_singles(problem):
    """the conditional jobs job_reader.rs builds (read_optional_breaks, read_reloads): job id -> (places, tags) with
    places = (location index | None, duration, [span]); spans are ('w', start, end | None) or ('o', start, end)"""
    out = {}
    for v in problem['fleet']['vehicles']:
        for si, shift in enumerate(v['shifts']):
            optional = [b for b in shift.get('breaks') or [] if 'places' in b]
            for bi, b in enumerate(optional, 1):
                tm = b['time']
                span = span_of(tm) if isinstance(tm[0], str) else ('o', int(tm[0]), int(tm[1]))
                places = [((pl['location']['index'] if pl.get('location') else None), int(pl['duration']), [span]) for pl in b['places']]
                tags = [(i, pl['tag']) for i, pl in enumerate(b['places']) if pl.get('tag') is not None]
                for vid in v['vehicleIds']:
                    out['%s_break_%d_%d' % (vid, si, bi)] = (places, tags, 'break')
            for ri, r in enumerate(shift.get('reloads') or [], 1):
                times = [span_of(w) for w in r['times']] if r.get('times') is not None else [('w', 0, None)]
                places = [(r['location']['index'], int(r['duration']), times)]
                tags = [(0, r['tag'])] if r.get('tag') is not None else []
                for vid in v['vehicleIds']:
                    out['%s_reload_%d_%d' % (vid, si, ri)] = (places, tags, 'reload')
    return out


def span_term(sp):
    if sp[0] == 'o':
        return 'SOffset %d %d' % (sp[1], sp[2])
    return 'SWindow %d %s' % (sp[1], 'None' if sp[2] is None else '(Some %d)' % sp[2])


def vsingle_term(jid, places, tags):
    ps = '; '.join('mk_place %s %d [%s]' % ('None' if loc is None else '(Some %d)' % loc, dur, '; '.join(span_term(x) for x in times))
                   for loc, dur, times in places)
    ts = '; '.join('(%d%%nat, %s)' % (i, cstr(t)) for i, t in tags)
    return 'mk_single %s [%s] [%s]' % (cstr(jid), ps, ts)


def written_tours(written):
    """every activity of the written solution as read_init_solution resolves it (get_activity_time, activity / stop location)"""
    out = []
    for tour in written.get('tours', []):
        start = unrfc(tour['stops'][0]['time']['departure'])
        acts = []
        for stop in tour['stops']:
            transit = 'location' not in stop
            for a in stop['activities']:
                loc = (a.get('location') or stop.get('location') or {'index': 0})['index']
                t = a.get('time')
                tm = (unrfc(t['start']), unrfc(t['end'])) if t else (unrfc(stop['time']['arrival']), unrfc(stop['time']['departure']))
                acts.append({'type': a['type'], 'commute': a.get('commute') is not None, 'transit': transit, 'start': start, 'loc': loc,
                             'time': tm, 'job_id': a['jobId'], 'tag': a.get('jobTag')})
        out.append({'vid': tour['vehicleId'], 'type': tour['typeId'], 'shift': tour.get('shiftIndex', 0), 'acts': acts})
    return out


def solver_tours(problem, impl):
    """the solver's tours (harness dump `orig`) as sact lists for the model of the writer; None when a value is fractional"""
    jobs = {j['id']: j for j in problem['plan']['jobs']}
    vs = init_vehicle_singles(problem)
    first_loc = {(t['vehicleId'], t.get('shiftIndex', 0)): t['stops'][0]['location']['index'] for t in impl['written'].get('tours', [])}
    out = []
    for r in impl['orig']['routes']:
        key = (r['vehicle_id'], r['shift'])
        if not r['seq'] or key not in first_loc:
            continue
        acts, vacts = list(r['acts']), list(r['vacts'])
        sas = []
        for e in r['seq']:
            if e[0] in VEHICLE_SPECIFIC:
                d = vacts.pop(0)
                places, tags, _ = vs[d['job_id']]
                single = vsingle_term(d['job_id'], places, tags)
                vt, sub = '(Some %s)' % cstr(e[0]), 0
            else:
                d = acts.pop(0)
                single = single_term(init_singles(jobs[d['job_id']])[d['sub']])
                vt, sub = 'None', d['sub']
            if d.get('frac'):
                return None
            sas.append('mk_sact %s %s %s %d%%nat (%s) %d (%d, %s) %d %d' % (
                cstr(d['job_id']), vt, cstr(e[0]), sub, single, d['loc'], d['tw'][0],
                'None' if d['tw'][1] is None else '(Some %d)' % d['tw'][1], d['arr'], d['dur']))
        out.append((key, 'run_write_tour %d %d [%s]' % (r['start_dep'], first_loc[key], '; '.join(sas))))
    return out


def init_write_term(problem, impl):
    st = solver_tours(problem, impl)
    if st is None:
        return '[]'
    return '[' + '; '.join(t for _, t in st) + ']'


def init_compare_write(c, impl, wr):
    """the model of the writer (type, job id, tag, route start as the reader derives it, location, time of every job activity)
    against the written document"""
    problem = json.loads(c['problem'])
    st = solver_tours(problem, impl)
    if st is None:
        return None
    doc = {(t['vid'], t['shift']): [a for a in t['acts'] if a['type'] not in ('departure', 'arrival')] for t in written_tours(impl['written'])}
    if len(st) != len(wr):
        return 'model of the writer evaluated %d tours, %d expected' % (len(wr), len(st))
    required = init_has_required_breaks(problem)
    for (key, _), macts in zip(st, wr):
        dacts = doc.get(key, [])
        if required:
            continue        # insert_reserved_times_as_breaks (break_writer.rs) rewrites the stops afterwards: not modelled
        if len(dacts) != len(macts):
            return 'tour %s: %d job activities written, the model of the writer has %d' % (key, len(dacts), len(macts))
        for d, m in zip(dacts, macts):
            mty, mjid, mtag, mstart, mloc, mtime = m            # (type, job id, tag, start, loc, (ts, te))
            mine = (mty, mjid, opt_z(mtag), mstart, mloc, mtime[0], mtime[1])
            theirs = (d['type'], d['job_id'], d['tag'], d['start'], d['loc'], d['time'][0], d['time'][1])
            if mine != theirs:
                return 'tour %s: written activity (type, job id, tag, route start, location, time) %s, model of the writer %s' % (key, theirs, mine)
    return None


def init_read_term(problem, written):
    """run_read_init: the whole written document through the model of read_init_solution"""
    ix = []
    allj = []
    for j in problem['plan']['jobs']:
        sgs = init_singles(j)
        allj.append(j['id'])
        if len(sgs) > 1:
            ix.append('(%s, JMulti [%s])' % (cstr(j['id']), '; '.join(single_term(x) for x in sgs)))
        else:
            ix.append('(%s, JSingle (%s))' % (cstr(j['id']), single_term(sgs[0])))
    for jid, (places, tags, _) in init_vehicle_singles(problem).items():
        allj.append(jid)
        ix.append('(%s, JSingle (%s))' % (cstr(jid), vsingle_term(jid, places, tags)))
    actors = ['(%s, %s, %d%%nat)' % (cstr(vid), cstr(v['typeId']), si)
              for v in problem['fleet']['vehicles'] for vid in v['vehicleIds'] for si in range(len(v['shifts']))]
    tours = []
    for t in written_tours(written):
        acts = ['mk_wact %s %s %s (mk_actx %d %d (%d, %d) %s %s)' % (
            cstr(a['type']), 'true' if a['commute'] else 'false', 'true' if a['transit'] else 'false', a['start'], a['loc'],
            a['time'][0], a['time'][1], cstr(a['job_id']), 'None' if a['tag'] is None else '(Some %s)' % cstr(a['tag'])) for a in t['acts']]
        tours.append('mk_wtour %s %s %d%%nat [%s]' % (cstr(t['vid']), cstr(t['type']), t['shift'], '; '.join(acts)))
    us = ['(%s, %s)' % (cstr(u['jobId']), 'true' if u.get('reasons') else 'false') for u in written.get('unassigned') or []]
    return 'run_read_init [%s] [%s] [%s] [%s] [%s]' % ('; '.join(ix), '; '.join(actors), '; '.join(cstr(x) for x in allj),
                                                   '; '.join(tours), '; '.join(us))


def init_term(c, impl):
    if not impl or 'panic' in impl or impl.get('status') not in ('ok', 'read-err'):
        return None
    problem = json.loads(c['problem'])
    terms = []
    for a in written_activities(problem, impl['written']):
        if a['job'] is None:
            return None
        sgs = init_singles(a['job'])
        ctx = 'mk_actx %d %d (%d, %d) %s %s' % (a['start'], a['loc'], a['time'][0], a['time'][1], cstr(a['job_id']),
                                              'None' if a['tag'] is None else '(Some %s)' % cstr(a['tag']))
        terms.append('run_match %s [%s] (%s)' % ('true' if len(sgs) > 1 else 'false', '; '.join(single_term(x) for x in sgs), ctx))
    # (per-activity matching of the customer activities, the whole document through read_init)
    return '([' + '; '.join(terms) + '], ' + init_read_term(problem, impl['written']) + ', ' + init_write_term(problem, impl) + ')'


ERR_OF = [('commute property', 'ECommute'), ('transit property', 'ETransit'), ('unknown job id', 'EUnknownJob'),
          ('multi job without unique tags', 'EMultiTags'), ('cannot match job', 'ECannotMatchJob'), ("cannot match '", 'ECannotMatchVehicle'),
          ('unknown activity type', 'EUnknownType'), ('double assignment', 'EDouble'), ('cannot find vehicle', 'ENoVehicle'),
          ('cannot get job id for', 'EUnknownUnassigned'), ('cannot get reason for', 'ENoReason')]


def err_ctor(err):
    for text, ctor in ERR_OF:
        if text in err:
            return ctor
    return 'other'


def opt_z(v):
    return None if v == 'None' else v[1]


def init_compare_read(c, impl, rd):
    """the whole-document model (read_init) against read_init_solution: refusal kind, or every reconstructed activity of every
    tour in document order (job, sub-job, place, location, duration, window, schedule) and the unassigned set"""
    if impl['status'] == 'read-err':
        want = err_ctor(impl.get('err', ''))
        if rd[0] == 'TErr':
            return None if rd[1] == want else 'implementation refuses with "%s" (%s), model with %s' % (impl.get('err'), want, rd[1])
        return 'implementation refuses the solution (%s), the model of read_init_solution accepts it' % impl.get('err')
    if rd[0] == 'TErr':
        return 'model of read_init_solution refuses the solution (%s), the implementation reads it' % rd[1]
    routes, unassigned = rd[1], rd[2]
    back = {(r['vehicle_id'], r['shift']): r for r in impl['back']['routes']}
    seen = set()
    for vid, _ty, shift, racts in routes:          # ((vid, type, shift), racts) prints as a flat 4-tuple
        key = (vid, shift)
        seen.add(key)
        r = back.get(key)
        if r is None:
            if racts:
                return 'tour %s: model reads %d activities, the implementation has no such route' % (key, len(racts))
            continue
        details = {}
        for x in r['acts']:
            details.setdefault((x['job_id'], x['sub']), []).append(x)
        for x in r['vacts']:
            details.setdefault((x['job_id'], 0), []).append(x)
        if len(r['seq']) != len(racts):
            return 'tour %s: %d activities read back, model has %d' % (key, len(r['seq']), len(racts))
        for g, m in zip(r['seq'], racts):
            mkey, msub, mplace, mloc, mdur, mtw, marr, mdep = m          # (key, sub, place, loc, dur, (ws, we), arr, dep)
            gkey = (g[1], g[2] if len(g) > 2 else 0)
            if (mkey, msub) != gkey:
                return 'tour %s: implementation read back %s, model %s' % (key, gkey, (mkey, msub))
            d = details[gkey].pop(0)
            if d.get('frac'):
                continue
            mine = (mplace, mloc, mdur, mtw[0], opt_z(mtw[1]), marr, mdep)
            theirs = (d['place'], d['loc'], d['dur'], d['tw'][0], d['tw'][1], d['arr'], d['dep'])
            if mine != theirs:
                return 'tour %s job %s: read back (place, loc, dur, window, schedule) %s, model %s' % (key, gkey, theirs, mine)
    for key, r in back.items():
        if key not in seen and r['seq']:
            return 'tour %s: read back by the implementation, absent from the model' % (key,)
    if sorted(unassigned) != sorted(impl['back']['unassigned']):
        return 'unassigned read back %s, model %s' % (sorted(impl['back']['unassigned']), sorted(unassigned))
    return None


def init_compare(c, impl, model):
    if 'panic' in impl:
        return 'implementation panicked: %s' % impl['panic']
    model, rd, wr = model
    if impl['status'] != 'read-err':
        d = init_compare_acts(c, impl, model)
        if d:
            return d
    return init_compare_read(c, impl, rd) or init_compare_write(c, impl, wr)


def init_compare_acts(c, impl, model):
    problem = json.loads(c['problem'])
    acts = written_activities(problem, impl['written'])
    if len(acts) != len(model):
        return 'model evaluated %d activities, written solution has %d' % (len(model), len(acts))
    if impl['status'] == 'read-err':
        # the model must explain the refusal: an unmatched activity or a single job matched twice
        seen = set()
        for a, m in zip(acts, model):
            if m == 'None':
                return None
            key = a['job_id']
            if len(init_singles(a['job'])) == 1:
                if key in seen:
                    return None
                seen.add(key)
        return 'implementation refuses the solution (%s), the model matches every activity' % impl.get('err')
    per = {}
    for a, m in zip(acts, model):
        per.setdefault(a['tour'], []).append(m)
    back = {(r['vehicle_id'], r['shift']): r['acts'] for r in impl['back']['routes']}
    for tour, ms in per.items():
        got = back.get(tour, [])
        if len(got) != len(ms):
            return 'tour %s: %d activities read back, model has %d' % (tour, len(got), len(ms))
        for g, m in zip(got, ms):
            if m == 'None':
                return 'tour %s: model cannot match an activity the implementation read back as %s' % (tour, g['job_id'])
            sub, (pidx, loc, dur, (ws, we)) = m[1]
            we = None if we == 'None' else we[1]
            mine = (sub, pidx, loc, dur, ws, we)
            theirs = (g['sub'], g['place'], g['loc'], g['dur'], g['tw'][0], g['tw'][1])
            if g.get('frac'):
                continue
            if mine[:2] != theirs[:2] or mine[3:] != theirs[3:]:
                return 'tour %s job %s: read back (sub, place, dur, window) %s, model %s' % (tour, g['job_id'], theirs, mine)
    return None


def init_cause(problem, o):
    """structural reason why an activity may be reconstructed differently"""
    job = next(j for j in problem['plan']['jobs'] if j['id'] == o['job_id'])
    sgs = init_singles(job)
    places = sgs[o['sub']][1] if 0 <= o['sub'] < len(sgs) else []
    locs = [p[0] for p in places]
    if len(set(locs)) < len(locs):
        return 'places-of-one-task-share-a-location'
    if places and o['place'] < len(places) and len(places[o['place']][2]) > 1:
        return 'service-runs-into-a-later-window-of-the-place'
    return 'other'


def boundary_pos(ts, te, lo, hi):
    """where the service interval [ts, te] of an activity sits in the interval [lo, hi] (hi None = open) it was scheduled in"""
    out = []
    if hi is not None and ts == hi:
        out.append('starts-at-latest')
    if te == lo:
        out.append('ends-at-earliest')
    if ts == lo and 'ends-at-earliest' not in out:
        out.append('starts-at-earliest')
    if not out:
        out.append('inside' if (lo < ts and (hi is None or ts < hi)) else 'outside')
    return '+'.join(out)


def init_shapes(problem, impl):
    """structure of the solver's tours: for every served activity (customer job, break, reload) the kind of the interval
    it was scheduled in and whether its service interval touches an end of that interval; per (vehicle id, shift)"""
    vs = init_vehicle_singles(problem)
    jobs = {j['id']: j for j in problem['plan']['jobs']}
    out = {}
    for r in impl.get('orig', {}).get('routes', []):
        start = r.get('start_dep') or 0
        per = out.setdefault((r['vehicle_id'], r['shift']), {'vehicle': [], 'customer': []})
        for x in r.get('vacts', []):
            places, tags, ty = vs.get(x['job_id'], ([], [], x['type']))
            ts, te = max(x['arr'], x['tw'][0]), x['dep']
            kind, pos = 'unknown', 'unknown'
            if x['place'] < len(places):
                loc, _dur, spans = places[x['place']]
                for sp in spans:
                    lo, hi = (start + sp[1], start + sp[2]) if sp[0] == 'o' else (sp[1], sp[2])
                    if lo <= ts and (hi is None or ts <= hi):
                        kind = ('offset' if sp[0] == 'o' else ('window' if hi is not None else 'unbounded'))
                        pos = boundary_pos(ts, te, lo, hi)
                        break
                kind += ('' if loc is not None else ':no-location') + (':tagged' if tags else '')
            per['vehicle'].append((x['type'], x['job_id'], kind, pos))
        for x in r.get('acts', []):
            ts, te = max(x['arr'], x['tw'][0]), x['dep']
            kind = 'window' if x['tw'][1] is not None else 'unbounded'
            per['customer'].append((x['job_id'], kind, boundary_pos(ts, te, x['tw'][0], x['tw'][1])))
    return out


def init_has_required_breaks(problem, vid=None, only=False):
    """some shift (of vehicle vid) has a required break (only: ... and no shift of it has an optional break)"""
    req = opt = False
    for v in problem['fleet']['vehicles']:
        if vid is not None and vid not in v['vehicleIds']:
            continue
        for shift in v['shifts']:
            for b in shift.get('breaks') or []:
                if 'places' in b:
                    opt = True
                else:
                    req = True
    return req and not (only and opt)


def init_offset_break_cause(problem, impl, vid):
    """two structural situations in which writer and reader count the OFFSET interval of an optional break from different
    instants (findings C11-F6, C11-F7); None when neither explains why the first break of the vehicle's tour is not matched"""
    vs = init_vehicle_singles(problem)
    for t in written_tours(impl['written']):
        if t['vid'] != vid:
            continue
        orig = next((r for r in impl['orig']['routes'] if (r['vehicle_id'], r['shift']) == (t['vid'], t['shift'])), None)
        if orig is None:
            continue
        true_start = orig['start_dep']
        solver_breaks = [x for x in orig['vacts'] if x['type'] == 'break']
        reload_seen = False
        for a in t['acts']:
            if a['type'] == 'reload':
                reload_seen = True
            if a['type'] != 'break' or not solver_breaks:
                continue
            x = solver_breaks.pop(0)
            places, tags, _ = vs.get(x['job_id'], ([], [], 'break'))
            if x['place'] >= len(places):
                return None
            loc, _dur, spans = places[x['place']]
            sp = spans[0]
            if sp[0] != 'o':
                continue
            ts, te = a['time']
            own_tag = dict(tags).get(x['place'])
            fits_true = true_start + sp[1] <= te and ts <= true_start + sp[2]
            fits_doc = a['start'] + sp[1] <= te and ts <= a['start'] + sp[2]
            if a['start'] != true_start and fits_true and not fits_doc:
                # F6: a job served at the start location moved the departure stop's `departure`; the reader counts from it
                return 'offset-counted-from-the-end-of-the-departure-stop-that-carries-a-job'
            if reload_seen and own_tag is not None and a['tag'] != own_tag and fits_true:
                # F7: after a reload the writer looks the tag up with the departure of the activity before the reload
                return 'tag-of-offset-break-lost-after-a-reload'
            if not fits_true or (a['tag'] != own_tag):
                return None
    return None


def init_refusal_class(problem, impl):
    """structural class of a refused feed-back: which kind of activity could not be matched and how it sits in its interval"""
    import re
    err = impl.get('err', '')
    shapes = init_shapes(problem, impl)
    m = re.search(r"cannot match '(\w+)' for '([^']*)'", err)
    if 'transit property' in err:
        return 'required-break-written-as-transit-stop' if init_has_required_breaks(problem) else 'transit-stop'
    if m and m.group(1) == 'break' and init_has_required_breaks(problem, m.group(2), only=True):
        # the vehicle has required breaks and no optional one: the written break activity has no conditional job at all
        return 'required-break-written-as-break-activity'
    if m and m.group(1) == 'break':
        known = init_offset_break_cause(problem, impl, m.group(2))
        if known:
            return 'cannot-match-break:' + known
    if m:
        ty, vid = m.group(1), m.group(2)
        ds = sorted({'%s:%s' % (k, p) for key, per in shapes.items() if key[0] == vid for t, _, k, p in per['vehicle'] if t == ty})
        return 'cannot-match-%s:%s' % (ty, '|'.join(ds) or 'none-served')
    m = re.search(r"cannot match job '([^']*)'", err)
    if m:
        jid = m.group(1)
        ds = sorted({'%s:%s' % (k, p) for per in shapes.values() for j, k, p in per['customer'] if j == jid})
        return 'cannot-match-job:%s' % ('|'.join(ds) or 'not-served')
    if 'double assignment' in err:
        m = re.search(r"matched job id: 'Some\(\"([^\"]*)\"\)'", err)
        jid = m.group(1) if m else ''
        kind = next((t for t in VEHICLE_SPECIFIC if '_%s_' % t in jid), 'job')
        return 'double-assignment:%s' % kind
    return 'other:' + err_ctor(err)


def init_oracle(c, impl):
    if 'panic' in impl:
        return [{'class': 'panic:init', 'what': 'panicked: ' + impl['panic']}]
    st = impl.get('status')
    if st in ('problem-rejected', 'not-solved'):
        return []
    problem = json.loads(c['problem'])
    if st == 'write-err':
        return [{'class': 'init-solution-not-written', 'what': impl.get('err')}]
    if st == 'read-err':
        return [{'class': 'init-own-solution-refused:' + init_refusal_class(problem, impl),
                 'what': 'read_init_solution refuses the solver\'s own solution: %s' % impl['err']}]
    v = []
    orig = {(r['vehicle_id'], r['shift']): r['acts'] for r in impl['orig']['routes'] if r['acts']}
    back = {(r['vehicle_id'], r['shift']): r['acts'] for r in impl['back']['routes'] if r['acts']}
    if set(orig) != set(back):
        v.append({'class': 'init-vehicle-shifts-differ', 'what': 'tours on %s read back on %s' % (sorted(orig), sorted(back))})
        return v
    for key, oa in orig.items():
        ba = back[key]
        if [(x['job_id'], x['sub']) for x in oa] != [(x['job_id'], x['sub']) for x in ba]:
            v.append({'class': 'init-activity-order-differs', 'what': 'tour %s: %s read back as %s' % (
                key, [(x['job_id'], x['sub']) for x in oa], [(x['job_id'], x['sub']) for x in ba])})
            continue
        for o, b in zip(oa, ba):
            if o.get('frac'):
                continue
            if (o['place'], o['loc'], o['dur']) != (b['place'], b['loc'], b['dur']):
                v.append({'class': 'init-place-differs:' + init_cause(problem, o),
                          'what': 'tour %s job %s: solver used place %d (duration %d), read back place %d (duration %d)' % (
                              key, o['job_id'], o['place'], o['dur'], b['place'], b['dur'])})
            elif o['tw'] != b['tw']:
                v.append({'class': 'init-time-window-differs:' + init_cause(problem, o),
                          'what': 'tour %s job %s place %d: solver used window %s, read back window %s' % (key, o['job_id'], o['place'], o['tw'], b['tw'])})
    ids = {j['id'] for j in problem['plan']['jobs']}
    uo = sorted(x for x in impl['orig']['unassigned'] if x in ids)
    ub = sorted(x for x in impl['back']['unassigned'] if x in ids)
    if uo != ub:
        v.append({'class': 'init-unassigned-differs', 'what': 'unassigned %s read back as %s' % (uo, ub)})
    return v

# ------------------------------------------------------------------ float text stream
def f64_bits(x):
    return struct.unpack('<Q', struct.pack('<d', x))[0]


def gen_flt(rng):
    n = rng.range(1, 12)
    bits = []
    for _ in range(n):
        r = rng.below(6)
        if r == 0:
            b = rng.next()
        elif r == 1:
            b = f64_bits(float(rng.range(-10 ** 9, 10 ** 9)) / 10 ** rng.range(0, 9))
        elif r == 2:
            b = rng.choice([0, 1 << 63, 1, 0x000FFFFFFFFFFFFF, 0x0010000000000000, 0x7FEFFFFFFFFFFFFF, 0x3FF0000000000001,
                            0x4340000000000000, 0x4340000000000001, 0x3FB999999999999A])
        elif r == 3:
            b = f64_bits(float(rng.range(1, 10 ** 17)) * 10.0 ** rng.range(-320, 290))
        else:
            b = (rng.next() & 0x800FFFFFFFFFFFFF) | (rng.range(1, 2046) << 52)
        exp = (b >> 52) & 0x7FF
        if exp == 0x7FF:
            b = b & ~(1 << 62)      # keep it finite
        bits.append(str(b))
    return {'op': 'flt', 'bits': bits}


def generate(rng, tier, n):
    cases = []
    rr = {}
    kinds = ['problem'] * 5 + ['solution'] * 4 + ['matrix']
    for k in range(n):
        r = rng.below(100)
        if r < 4:
            cases.append(gen_flt(rng))
            continue
        if r < 22:
            cases.append(gen_csv(rng))
            continue
        if r < 30:
            cases.append(gen_init(rng))
            continue
        if r < 44:
            cases.append(gen_init_boundary(rng))
            continue
        kind = rng.choice(kinds)
        mode = 'canon' if r < 62 else ('loose' if r < 86 else 'bad')
        c = gen_doc(rng, kind, mode, rr)
        if c:
            cases.append(c)
    return cases


def corpus():
    import verif  # noqa  (SplitMix)
    rng = verif.SplitMix(11)
    out = []
    for kind in ('problem', 'matrix', 'solution'):
        for full in ('all', 'none'):
            c = gen_doc(rng, kind, 'canon', {}, full=full)
            if c:
                c['corpus'] = 'every optional field %s' % ('present' if full == 'all' else 'absent / every collection empty')
                out.append(c)
    return out


# ------------------------------------------------------------------ model / compare / oracle
MODEL_NEEDS_IMPL = True


def model_term(c, impl=None):
    if c['op'] == 'init':
        return init_term(c, impl)
    if c['op'] == 'rt':
        return 'run_%s (%s)' % (c['kind'], coq_of(tree_of_text(c['doc'])))
    if c['op'] == 'csv':
        return csv_term(c)
    return None


def compare(c, impl, model):
    if c['op'] == 'init':
        return init_compare(c, impl, model)
    if c['op'] == 'csv':
        return csv_compare(c, impl, model)
    if 'panic' in impl:
        return 'implementation panicked: %s' % impl['panic']
    if c['op'] == 'rt':
        if model == 'None':
            return None if not impl['ok'] else 'model rejects the document, implementation accepts it'
        if not impl['ok']:
            return 'model accepts the document, implementation rejects it: %s' % impl.get('err')
        m = canon_of_model(model[1])
        i = canon_of_py(impl['v1'])
        d = first_diff(i, m)
        return None if d is None else 'serialize(deserialize(doc)) differs from enc(dec(doc)) at %s' % d
    return None


def ulp_dist(a, b):
    def key(x):
        return x if x < (1 << 63) else -(x - (1 << 63))
    return abs(key(a) - key(b))


def oracle(c, impl):
    if c['op'] == 'init':
        return init_oracle(c, impl)
    if c['op'] == 'csv':
        return csv_oracle(c, impl)
    if 'panic' in impl:
        return [{'class': 'panic:' + c['op'], 'what': 'panicked: ' + impl['panic']}]
    v = []
    if c['op'] == 'rt':
        kind = c['kind']
        if not impl['ok']:
            if c['mode'] == 'canon':
                v.append({'class': 'canonical-document-rejected:' + kind, 'what': 'a document in serialised form is rejected: %s' % impl.get('err')})
            return v
        if 'reparse_err' in impl:
            v.append({'class': 'own-output-rejected:' + kind, 'what': 'the serialised form of a parsed document does not parse: %s' % impl['reparse_err']})
            return v
        d = first_diff(canon_of_py(impl['v1']), canon_of_py(impl['v2']), ulp=1)
        if d:
            v.append({'class': 'reserialise-differs:%s:%s' % (kind, d.replace('[]', '')), 'what': 'ser(parse(ser(d))) != ser(d) at %s' % d})
        if c['mode'] == 'canon':
            d = first_diff(canon_of_tree(tree_of_text(c['doc'])), canon_of_py(impl['v1']), ulp=1)
            if d:
                v.append({'class': 'serialised-document-changed:%s:%s' % (kind, d.replace('[]', '')),
                          'what': 'a document in serialised form comes back different from parse+serialise at %s' % d})
    elif c['op'] == 'flt':
        if not impl['ok']:
            v.append({'class': 'float-text-rejected', 'what': 'serialised finite floats do not parse: %s' % impl.get('err')})
            return v
        for b, y, z in zip(c['bits'], impl['back'], impl['back2']):
            for src, dst in ((int(b), int(y)), (int(y), int(z))):
                if ulp_dist(src, dst) > 1:
                    x = struct.unpack('<d', struct.pack('<Q', src))[0]
                    r = repr(x)
                    e10 = int(r.split('e')[1]) if 'e' in r else 0
                    digits = len(r.split('e')[0].replace('-', '').replace('.', '').lstrip('0'))
                    # serde_json parses exactly on its fast path (at most 15 significant digits, |decimal exponent| <= 22)
                    shape = 'outside-the-exact-fast-path' if (abs(e10) > 22 or digits > 15) else 'short-decimal'
                    v.append({'class': 'float-text-beyond-last-bit:' + shape,
                              'what': 'f64 %s (bits %d) is written as %s and read back %d ulps away (bits %d)' % (r, src, r, ulp_dist(src, dst), dst)})
                    return v
    return v


def nontrivial_key(c, impl):
    if 'panic' in impl:
        return None
    if c['op'] == 'rt':
        return ('rt', c['kind'], c['doc']) if impl['ok'] and len(c['doc']) > 150 else None
    if c['op'] == 'flt':
        return ('flt', tuple(c['bits']))
    if c['op'] == 'csv':
        return ('csv', c['jobs'], c['vehicles']) if len(c['jrows']) >= 2 else None
    if c['op'] == 'init':
        n = sum(len(r['acts']) for r in impl.get('orig', {}).get('routes', []))
        return ('init', c['problem']) if impl.get('status') in ('ok', 'read-err') and n >= 2 else None
    return None


def classify(c, impl):
    labs = ['op=' + c['op']]
    if c['op'] == 'rt':
        labs.append('rt:%s:%s' % (c['kind'], c['mode']))
        if 'panic' not in impl:
            labs.append('rt:%s:%s' % (c['mode'], 'accepted' if impl['ok'] else 'rejected'))
        if c.get('mutation'):
            labs.append('malformed:' + c['mutation'])
    if c['op'] == 'init' and 'panic' not in impl:
        labs.append('init:' + str(impl.get('status')))
        if impl.get('status') == 'ok':
            labs.append('init:unassigned=%s' % ('some' if impl['orig']['unassigned'] else 'none'))
            labs.append('init:activities=%d' % min(6, sum(len(r['acts']) for r in impl['orig']['routes'])))
        if impl.get('status') in ('ok', 'read-err'):
            if c.get('scenario'):
                labs.append('init:scenario=' + c['scenario'])
            if init_has_required_breaks(json.loads(c['problem'])):
                labs.append('init:required-break')
            seen = set()
            for per in init_shapes(json.loads(c['problem']), impl).values():
                for t, _, k, p in per['vehicle']:
                    seen.add('init:%s:%s:%s' % (t, k, p))
                for _, k, p in per['customer']:
                    if k == 'window':
                        seen.add('init:job:window:' + p)
            labs.extend(sorted(seen))
    if c['op'] == 'csv':
        bad = [k for k, v in c['wf'].items() if not v]
        labs.append('csv:' + ('well-formed' if not bad else '+'.join('not-' + b for b in bad)))
        if 'panic' not in impl and impl.get('ok'):
            labs.append('csv:validation=' + ('ok' if not impl['validation'] else '+'.join(impl['validation'])))
    return labs


def extra_coverage():
    return {'translator_error': _GEN_ERROR} if _GEN_ERROR else {}


MANIFEST_TEXT = ('Machine-checked proof (Coq, 46 theorems, no axioms). (a) tools/serde2coq.py translates the serde-derive items of the '
                 'pragmatic problem / matrix / solution model files (59 types; field order, Option, Vec, rename, rename_all, alias, tag, '
                 'untagged, skip_serializing_if, default) into Coq types, encoders to a JSON tree and decoders following serde semantics, '
                 'and proves for every type with one generic tactic that decode(encode x) = x (6 types up to the normalisation of the one '
                 'ambiguous untagged enum, which leaves the serialised form unchanged); hence serialise->parse->serialise is the identity '
                 'for all problem, matrix and solution values. (c) model of read_csv_problem on tokenised rows: every row reappears exactly '
                 '(ids, coordinates, |demand|, sign -> task kind, duration, window, capacity, amount, profile) for every hash order; the '
                 'vehicle ids of distinct vehicle rows are distinct (since repair 9df6aa4 of /repo) and the import is total: tables with a DEMAND of '
                 'i32::MIN, whose magnitude is not a demand value, are rejected (exactly those) and |demand| is exact in every accepted table '
                 '(since repair 1cad789; the witnesses are restated about the pre-fix code). (b) model of the feed-back path: the activity '
                 'matcher (get_job_tag, match_place with the time-intersection rule TimeSpan::intersects for time windows AND offset intervals, '
                 'inclusive at both ends; the whole dispatch of try_match_point_job: customer jobs, multi jobs, and the conditional jobs '
                 '"<vehicle>_<type>_<shift>_<idx>" tried for break / reload / recharge activities), read_init_solution (actor lookup, '
                 'added_jobs with the double-assignment guard, listed unassigned jobs, completion of the unassigned set) and the writer as far '
                 'as it decides type / id / tag / time of an activity and the route start the reader derives. Theorems: the intersection rule '
                 'is inclusive for both span kinds; an activity placed anywhere in its interval - its first and LAST moment included - is '
                 'matched back to its own job / sub-job / place (window spans: the window; offset spans: the service interval); a tour and a '
                 'whole document of well written activities are read without error with the same activities on the same vehicle shifts in the '
                 'same order at the places the solver used and the same unassigned set (C11_init_roundtrip), with witnesses that each side '
                 'condition is needed. The models are tied to /repo on every run: schema-driven generated documents (canonical, loose, '
                 'malformed) through the real deserialize/serialize vs enc(dec doc) evaluated in Coq; generated CSV tables through '
                 'read_csv_problem + validation; generated problems (random ones and no-slack boundary scenarios with optional breaks and '
                 'reloads) solved by the real solver, written, read back with read_init_solution: the model of the writer is compared with the '
                 'written document, the model of read_init_solution with what the implementation reads back (every activity of every tour, '
                 'breaks and reloads included, unassigned set, refusal kind), and the property is evaluated on the implementation alone.')
MANIFEST_NOTE = ('Trusted: Coq kernel + vm_compute; tools/serde2coq.py (validated each run); harness and generators; the plugin\'s replica of '
                 'job_reader.rs (singles of jobs / breaks / reloads). Validated only: the serde_json text layer (float printing/parsing: '
                 'differential stream with one-ulp oracle), BTreeMap ordering, csv tokenizer, the writer\'s stop grouping, create_core_route, '
                 'Registry. Not generated: required breaks, recharge, vicinity clustering. Known findings reported as KNOWN-FINDING (they do '
                 'not fail the check): C11-F3 (later window taken), C11-F4 (same-location place taken), C11-F5 (float text 2 ulps), C11-F6 '
                 '(offset break + job served at the start location: the reader counts the offsets from the end of the merged departure stop '
                 'and refuses the solver\'s solution), C11-F7 (tagged offset break after a reload is written without its tag and refused). '
                 'C11-F1 / C11-F2 (CSV vehicle ids, CSV abs overflow) are repaired in /repo, their classes remain as regression classes and '
                 'fail the check if the defects return.')
MANIFEST_TECHNIQUE = 'Coq proof over executable model + vm_compute differential correspondence with the Rust implementation'
