"""C11 — problem / matrix / solution documents survive round trips (plugin for tools/verif.py).

(a) documents:  schema-driven generator (the schema is the IR tools/serde2coq.py extracts from the Rust model files, so
    every optional field, alias, enum variant and container is exercised without a hand-written list) -> the real
    deserialize_* / serialize_* versus the generated Coq codecs (enc (dec doc)), oracle ser(parse(ser d)) == ser d.
(c) CSV import: generated job / vehicle tables -> read_csv_problem + ValidationContext::validate versus Model/Csv.v.
(b) initial solutions: small generated problems solved by the real solver, written, read back with read_init_solution.
"""
import os, sys, json, struct
from fractions import Fraction

sys.path.insert(0, os.path.dirname(os.path.dirname(os.path.abspath(__file__))))
import serde2coq  # noqa

ID = 'C11'
HARNESS = 'c11'
COQ_IMPORTS = ('From VRP Require Import Base.Tac Base.Json Model.SerdeSem Generated.ProblemCodec Generated.SolutionCodec.\n'
               'Open Scope string_scope.')
MODEL_TARGETS = ['theories/Generated/SolutionCodec.vo']
SIZES = {'quick': 700, 'thorough': 6000, 'search': 3000}
SHARD = 60
RULE = ('documents are generated from the schema extracted from the Rust model files: canonical documents (exactly what the '
        'serialiser emits: every optional field present/absent, every enum variant round-robin, empty and non-empty '
        'collections, boundary integers, integer-valued and dyadic floats), loose documents (aliases, null for optional, '
        'omitted defaulted fields, unknown keys, shuffled keys, tag in any position, positional arrays, {"variant": null}), '
        'and a separate malformed stream (missing required field, duplicate key, wrong type, null for required, integer out '
        'of range, float literal for integer, unknown variant / tag). non-trivial = distinct accepted documents.')
TRUSTED = ['tools/serde2coq.py (translation of serde attributes into the codec combinators of Model/SerdeSem.v; validated on every '
           'run by comparing enc(dec(doc)) with the real serialize(deserialize(doc)) on generated documents)',
           'serde_json text layer (tokenizer, escapes, shortest float printing / float parsing): not modelled, float text round trip '
           'validated differentially (op flt) within the one-ulp tolerance the property grants']
ASSUMPTIONS = ['floats in documents are finite (serde_json cannot parse a non-finite number; a non-finite f64 built in memory is '
               'written as null and is outside the claim)',
               'integer literals used for f64 fields are below 2^53 in magnitude (exact conversion)',
               'documents nest less deeply than serde_json\'s recursion limit (128)']

REPO = os.environ.get('VERIF_REPO', '/repo')
_SCHEMA = None
_GEN_ERROR = None


def schema():
    global _SCHEMA
    if _SCHEMA is None:
        items, _ = serde2coq.load(REPO)
        irs_p, _ = serde2coq.build(items, serde2coq.ROOTS_PROBLEM)
        irs_s, _ = serde2coq.build(items, serde2coq.ROOTS_SOLUTION)
        irs = dict(irs_s)
        irs.update(irs_p)
        _SCHEMA = irs
    return _SCHEMA


STUB = '''(* GENERATED stub: tools/serde2coq.py could not translate the Rust model files:
   %s *)
Lemma translator_failed : False.
Proof. Qed.
'''


def regenerate(repo, outdir):
    global REPO, _SCHEMA, _GEN_ERROR
    REPO = repo
    _SCHEMA = None
    try:
        info = serde2coq.translate(repo, outdir)
        _GEN_ERROR = None
        return info
    except serde2coq.TranslateError as e:
        # fail loudly: the obligation "the model is the translation of the code" cannot be discharged
        _GEN_ERROR = str(e)
        os.makedirs(outdir, exist_ok=True)
        for f in ('ProblemCodec.v', 'SolutionCodec.v'):
            with open(os.path.join(outdir, f), 'w') as fh:
                fh.write(STUB % str(e).replace('*)', '* )'))
        return {'translator': 'tools/serde2coq.py', 'error': str(e)}


# ------------------------------------------------------------------ JSON trees with ordered, repeatable keys
# node: ('o', [(k, node)]) | ('a', [node]) | ('s', str) | ('i', int) | ('f', (m, e)) | ('b', bool) | ('n',)
def text_of(n):
    k = n[0]
    if k == 'o':
        return '{' + ','.join(json.dumps(a) + ':' + text_of(b) for a, b in n[1]) + '}'
    if k == 'a':
        return '[' + ','.join(text_of(x) for x in n[1]) + ']'
    if k == 's':
        return json.dumps(n[1])
    if k == 'i':
        return str(n[1])
    if k == 'f':
        m, e = n[1]
        x = Fraction(m, 2 ** e)
        r = repr(float(x))
        if Fraction(float(x)) != x:
            raise ValueError('float not exact')
        if 'e' not in r and '.' not in r and 'inf' not in r:
            r += '.0'
        return r
    if k == 'b':
        return 'true' if n[1] else 'false'
    return 'null'


def tree_of_text(text):
    """parse JSON text keeping key order / duplicates and the integer / float literal distinction (as serde_json classifies)"""
    def pint(s):
        z = int(s)
        if -2 ** 63 <= z < 2 ** 64 and s != '-0':
            return ('i', z)
        return pfloat(s)

    def pfloat(s):
        m, d = float(s).as_integer_ratio()
        return ('f', (m, d.bit_length() - 1))

    def conv(v):
        if isinstance(v, tuple):
            return v
        if isinstance(v, list):
            return ('a', [conv(x) for x in v])
        if isinstance(v, str):
            return ('s', v)
        if v is True or v is False:
            return ('b', v)
        if v is None:
            return ('n',)
        raise ValueError(v)
    return conv(json.loads(text, object_pairs_hook=lambda ps: ('o', [(k, conv(v)) for k, v in ps]), parse_int=pint, parse_float=pfloat))


def cstr(s):
    return '"' + s.replace('"', '""') + '"'


def coq_of(n):
    k = n[0]
    if k == 'o':
        return 'JObj [' + '; '.join('(%s, %s)' % (cstr(a), coq_of(b)) for a, b in n[1]) + ']'
    if k == 'a':
        return 'JArr [' + '; '.join(coq_of(x) for x in n[1]) + ']'
    if k == 's':
        return 'JStr ' + cstr(n[1])
    if k == 'i':
        return 'JInt (%d)' % n[1]
    if k == 'f':
        return 'JFlt (%d) %d%%nat' % n[1]
    if k == 'b':
        return 'JBool ' + ('true' if n[1] else 'false')
    return 'JNull'


class Fl(Fraction):
    """a number written as a float literal / held in an f64 field"""


def canon_of_tree(n):
    """value with numbers as numbers, objects as dicts"""
    k = n[0]
    if k == 'o':
        return {a: canon_of_tree(b) for a, b in n[1]}
    if k == 'a':
        return [canon_of_tree(x) for x in n[1]]
    if k == 's':
        return n[1]
    if k == 'i':
        return Fraction(n[1])
    if k == 'f':
        return Fl(n[1][0], 2 ** n[1][1])
    if k == 'b':
        return bool(n[1])
    return None


def canon_of_py(v):
    if isinstance(v, dict):
        return {a: canon_of_py(b) for a, b in v.items()}
    if isinstance(v, list):
        return [canon_of_py(x) for x in v]
    if isinstance(v, bool) or v is None or isinstance(v, str):
        return v
    return Fl(v) if isinstance(v, float) else Fraction(v)


def canon_of_model(t):
    """value printed by Coq for a json term"""
    if t == 'JNull':
        return None
    tag = t[0]
    if tag == 'JObj':
        return {kv[0]: canon_of_model(kv[1]) for kv in t[1]}
    if tag == 'JArr':
        return [canon_of_model(x) for x in t[1]]
    if tag == 'JStr':
        return t[1]
    if tag == 'JInt':
        return Fraction(t[1])
    if tag == 'JFlt':
        return Fl(t[1], 2 ** t[2])
    if tag == 'JBool':
        return t[1] == 'true'
    raise ValueError('unexpected model value %r' % (t,))


def fbits(x):
    return struct.unpack('<Q', struct.pack('<d', float(x)))[0]


def first_diff(a, b, path='', ulp=0):
    """first path where two values differ; ulp = tolerated distance in units of the last place for numbers that are not
    both integers (the property: "numbers compared as numbers, to the last but one bit")"""
    if type(a) != type(b) and not (isinstance(a, Fraction) and isinstance(b, Fraction)):
        return path or '.'
    if ulp and isinstance(a, Fraction) and a != b:
        if not (isinstance(a, Fl) or isinstance(b, Fl)):
            return path or '.'
        fa, fb = float(a), float(b)
        if Fraction(fa) == a and Fraction(fb) == b and ulp_dist(fbits(fa), fbits(fb)) <= ulp:
            return None
        return path or '.'
    if isinstance(a, dict):
        for k in sorted(set(a) | set(b)):
            if k not in a or k not in b:
                return path + '.' + k
            d = first_diff(a[k], b[k], path + '.' + k, ulp)
            if d:
                return d
        return None
    if isinstance(a, list):
        if len(a) != len(b):
            return path + '[]'
        for x, y in zip(a, b):
            d = first_diff(x, y, path + '[]', ulp)
            if d:
                return d
        return None
    return None if a == b else (path or '.')


# ------------------------------------------------------------------ schema-driven document generator
STRS = ['job1', 'job2', 'v1', 'vehicle_1', 'car', 'truck', 'normal_car', '2019-07-04T09:00:00Z', '2019-07-04T18:00:00Z',
        '2020-05-01T00:00:00+02:00', 'x', '', 'a b', 'pickup', 'delivery', 'departure', 'arrival', 'break', 'unknown',
        'NO_REASON_FOUND', "it's", 'tag/1', 'A-b_c.d', '{}', '[1]', 'null', '0']
INT_RANGES = {'i64': (-2 ** 63, 2 ** 63 - 1), 'i32': (-2 ** 31, 2 ** 31 - 1), 'usize': (0, 2 ** 64 - 1)}


class Gen:
    def __init__(self, rng, mode, rr=None):
        self.rng = rng
        self.mode = mode          # 'canon' | 'loose' | 'bad'
        self.rr = rr if rr is not None else {}
        self.mutations = 1 if mode == 'bad' else 0
        self.mutated = None
        self.irs = schema()
        self.full = None           # None | 'all' | 'none'  (corpus documents)

    def loose(self, num=1, den=4):
        return self.mode != 'canon' and self.rng.chance(num, den)

    def want_mutation(self):
        if self.mutations > 0 and self.rng.chance(1, 6):
            self.mutations -= 1
            return True
        return False

    # ---- scalars
    def g_string(self):
        if self.rng.chance(1, 6):
            n = self.rng.below(6)
            return ''.join(self.rng.choice('abcXYZ019 _-.:/+#@!?*()[]{}<>=,;~^&|') for _ in range(n))
        return self.rng.choice(STRS)

    def g_int(self, p):
        lo, hi = INT_RANGES[p]
        r = self.rng.below(10)
        if r == 0:
            return hi
        if r == 1:
            return lo
        if r == 2:
            return 0
        if r == 3:
            return max(lo, min(hi, self.rng.range(-2 ** 40, 2 ** 40)))
        return max(lo, min(hi, self.rng.range(-3, 1000)))

    def g_float(self):
        # only values whose decimal text serde_json parses exactly (its fast path: < 2^53 mantissa, few digits); the
        # inexact tail of its float parser (off by one ulp) is exercised by the `flt` stream, where the property's
        # "last but one bit" tolerance applies
        r = self.rng.below(8)
        if r == 0:
            return ('f', (0, 0))
        if r == 1:
            return ('f', (self.rng.range(-10 ** 9, 10 ** 9), 0))
        if r == 2:
            return ('f', (self.rng.range(-2 ** 20, 2 ** 20), self.rng.range(0, 8)))
        if r == 3:
            return ('f', (self.rng.choice([1, -1]) * (9 * 10 ** 14 - self.rng.below(3)), 0))
        return ('f', (self.rng.range(-4000, 4000), self.rng.range(0, 3)))

    def g_prim(self, p):
        if p == 'string':
            return ('s', self.g_string())
        if p == 'bool':
            return ('b', self.rng.chance(1, 2))
        if p == 'f64':
            f = self.g_float()
            m, e = f[1]
            if self.loose(1, 5) and e == 0 and abs(m) < 2 ** 53:
                return ('i', m)          # integer literal for a float field
            return f
        return ('i', self.g_int(p))

    def bad_scalar(self, p):
        """a value the scalar type must reject"""
        alts = [('n',), ('o', []), ('a', [])]
        if p == 'string':
            alts += [('i', 5), ('f', (5, 1)), ('b', True)]
        elif p == 'bool':
            alts += [('i', 1), ('s', 'true')]
        elif p == 'f64':
            alts += [('s', '1.5'), ('b', False)]
        else:
            lo, hi = INT_RANGES[p]
            alts += [('s', '5'), ('f', (10, 1)), ('f', (3, 1)), ('i', hi + 1), ('b', True)]
            if lo - 1 >= -2 ** 63:
                alts += [('i', lo - 1)]
        return self.rng.choice(alts)

    # ---- types
    def g_type(self, t, depth):
        k = t[0]
        if k == 'prim':
            if self.want_mutation():
                self.mutated = 'scalar:' + t[1]
                return self.bad_scalar(t[1])
            return self.g_prim(t[1])
        if k == 'list':
            if self.want_mutation():
                self.mutated = 'list'
                return self.rng.choice([('n',), ('o', []), ('s', 'x'), ('i', 0)])
            n = 0 if self.full == 'none' else (self.rng.range(1, 2) if self.full == 'all' else self.rng.choice([0, 1, 1, 2, 3]))
            if depth > 6:
                n = min(n, 1)
            return ('a', [self.g_type(t[1], depth + 1) for _ in range(n)])
        if k == 'opt':
            if self.full == 'none' or (self.full is None and self.rng.chance(1, 3)):
                return ('n',)
            return self.g_type(t[1], depth)
        if k == 'pair':
            if self.want_mutation():
                self.mutated = 'pair-arity'
                return ('a', [self.g_type(t[1], depth + 1)] * self.rng.choice([0, 1, 3]))
            return ('a', [self.g_type(t[1], depth + 1), self.g_type(t[2], depth + 1)])
        if k == 'smap':
            ks = self.rng.shuffle(['a', 'b', 'marker-color', 'name', 'stroke'])[:self.rng.below(4)]
            return ('o', [(x, ('s', self.g_string())) for x in sorted(ks)])
        return self.g_named(t[1], depth)

    def g_fields(self, fields, depth, tag=None, tag_first=True):
        """object for a struct / struct variant"""
        items = []
        for f in fields:
            ty = f['ty']
            name = f['ser']
            if self.mode != 'canon' and len(f['de']) > 1 and self.rng.chance(1, 2):
                name = self.rng.choice(f['de'])
            elif self.mode != 'canon':
                name = f['de'][0]
            if ty[0] == 'opt':
                present = self.full == 'all' or (self.full is None and self.rng.chance(2, 3))
                if present:
                    items.append((name, self.g_type(ty[1], depth + 1)))
                elif f['skip_none']:
                    if self.loose(1, 3):
                        items.append((name, ('n',)))
                else:
                    if not self.loose(1, 3):
                        items.append((name, ('n',)))
            elif f.get('default') is not None and self.loose(1, 2):
                pass        # defaulted field omitted
            else:
                items.append((name, self.g_type(ty, depth + 1)))
        if tag is not None:
            pos = 0 if (self.mode == 'canon' or tag_first) else self.rng.below(len(items) + 1)
            items.insert(pos, tag)
        if self.loose(1, 6):
            items.insert(self.rng.below(len(items) + 1), ('zzUnknown', self.rng.choice([('i', 1), ('n',), ('o', []), ('s', 'u')])))
        if self.loose(1, 6):
            items = self.rng.shuffle(items)
        if self.want_mutation() and items:
            r = self.rng.below(4)
            i = self.rng.below(len(items))
            if r == 0:
                self.mutated = 'drop-field'
                items.pop(i)
            elif r == 1:
                self.mutated = 'dup-field'
                items.insert(self.rng.below(len(items) + 1), items[i])
            elif r == 2:
                self.mutated = 'null-field'
                items[i] = (items[i][0], ('n',))
            else:
                self.mutated = 'retype-field'
                items[i] = (items[i][0], self.rng.choice([('s', 'x'), ('i', 7), ('a', []), ('o', []), ('b', False)]))
        return ('o', items)

    def g_seq(self, fields, depth):
        """positional form of a struct (visit_seq)"""
        out = []
        for f in fields:
            out.append(self.g_type(f['ty'], depth + 1))
        return ('a', out)

    def g_named(self, name, depth):
        ir = self.irs[name]
        if ir['kind'] == 'struct':
            if self.loose(1, 25):
                return self.g_seq(ir['fields'], depth)
            tag = None
            if ir['tag'] and not self.loose(1, 3):
                tag = (ir['tag'][0], ('s', ir['tag'][1]))
            return self.g_fields(ir['fields'], depth, tag)
        vs = ir['variants']
        k = self.rr.get(name, 0)
        self.rr[name] = k + 1
        if ir['recursive'] and depth > 4:
            cands = [v for v in vs if v['shape'] == 'unit']
            v = cands[k % len(cands)]
        else:
            v = vs[k % len(vs)]
        rep = ir['rep']
        if rep == 'external':
            nm = v['ser'] if self.mode == 'canon' else self.rng.choice(v['de'])
            if self.want_mutation():
                self.mutated = 'unknown-variant'
                return self.rng.choice([('s', nm + 'X'), ('s', nm.upper() + '_'), ('i', 0), ('n',), ('o', [(nm, ('i', 1))])])
            if self.loose(1, 8):
                return ('o', [(nm, ('n',))])
            return ('s', nm)
        if rep == 'internal':
            nm = v['ser'] if self.mode == 'canon' else self.rng.choice(v['de'])
            tagv = ('s', nm)
            if self.want_mutation():
                r = self.rng.below(3)
                self.mutated = 'bad-tag'
                if r == 0:
                    tagv = ('s', nm + '-x')
                elif r == 1:
                    tagv = self.rng.choice([('i', 0), ('n',), ('a', [])])
                else:
                    fields = v.get('fields', [])
                    return self.g_fields(fields, depth, None)          # tag missing
            fields = v.get('fields', [])
            return self.g_fields(fields, depth, (ir['tag'], tagv), tag_first=not self.loose(1, 2))
        # untagged
        if v['shape'] == 'newtype':
            return self.g_type(v['ty'], depth)
        return self.g_fields(v['fields'], depth)


def gen_doc(rng, kind, mode, rr, full=None):
    root = {'problem': 'Problem', 'matrix': 'Matrix', 'solution': 'Solution'}[kind]
    for _ in range(20):
        g = Gen(rng, mode, rr)
        g.full = full
        tree = g.g_named(root, 0)
        if mode == 'bad' and g.mutated is None:
            continue
        try:
            text = text_of(tree)
        except ValueError:
            continue
        if len(text) > 60000:
            continue
        c = {'op': 'rt', 'kind': kind, 'mode': mode, 'doc': text}
        if g.mutated:
            c['mutation'] = g.mutated
        return c
    return None


# ------------------------------------------------------------------ float text stream
def f64_bits(x):
    return struct.unpack('<Q', struct.pack('<d', x))[0]


def gen_flt(rng):
    n = rng.range(1, 12)
    bits = []
    for _ in range(n):
        r = rng.below(6)
        if r == 0:
            b = rng.next()
        elif r == 1:
            b = f64_bits(float(rng.range(-10 ** 9, 10 ** 9)) / 10 ** rng.range(0, 9))
        elif r == 2:
            b = rng.choice([0, 1 << 63, 1, 0x000FFFFFFFFFFFFF, 0x0010000000000000, 0x7FEFFFFFFFFFFFFF, 0x3FF0000000000001,
                            0x4340000000000000, 0x4340000000000001, 0x3FB999999999999A])
        elif r == 3:
            b = f64_bits(float(rng.range(1, 10 ** 17)) * 10.0 ** rng.range(-320, 290))
        else:
            b = (rng.next() & 0x800FFFFFFFFFFFFF) | (rng.range(1, 2046) << 52)
        exp = (b >> 52) & 0x7FF
        if exp == 0x7FF:
            b = b & ~(1 << 62)      # keep it finite
        bits.append(str(b))
    return {'op': 'flt', 'bits': bits}


def generate(rng, tier, n):
    cases = []
    rr = {}
    kinds = ['problem'] * 5 + ['solution'] * 4 + ['matrix']
    for k in range(n):
        r = rng.below(100)
        if r < 4:
            cases.append(gen_flt(rng))
            continue
        kind = rng.choice(kinds)
        mode = 'canon' if r < 45 else ('loose' if r < 80 else 'bad')
        c = gen_doc(rng, kind, mode, rr)
        if c:
            cases.append(c)
    return cases


def corpus():
    import verif  # noqa  (SplitMix)
    rng = verif.SplitMix(11)
    out = []
    for kind in ('problem', 'matrix', 'solution'):
        for full in ('all', 'none'):
            c = gen_doc(rng, kind, 'canon', {}, full=full)
            if c:
                c['corpus'] = 'every optional field %s' % ('present' if full == 'all' else 'absent / every collection empty')
                out.append(c)
    return out


# ------------------------------------------------------------------ model / compare / oracle
def model_term(c):
    if c['op'] == 'rt':
        return 'run_%s (%s)' % (c['kind'], coq_of(tree_of_text(c['doc'])))
    return None


def compare(c, impl, model):
    if 'panic' in impl:
        return 'implementation panicked: %s' % impl['panic']
    if c['op'] == 'rt':
        if model == 'None':
            return None if not impl['ok'] else 'model rejects the document, implementation accepts it'
        if not impl['ok']:
            return 'model accepts the document, implementation rejects it: %s' % impl.get('err')
        m = canon_of_model(model[1])
        i = canon_of_py(impl['v1'])
        d = first_diff(i, m)
        return None if d is None else 'serialize(deserialize(doc)) differs from enc(dec(doc)) at %s' % d
    return None


def ulp_dist(a, b):
    def key(x):
        return x if x < (1 << 63) else -(x - (1 << 63))
    return abs(key(a) - key(b))


def oracle(c, impl):
    if 'panic' in impl:
        return [{'class': 'panic:' + c['op'], 'what': 'panicked: ' + impl['panic']}]
    v = []
    if c['op'] == 'rt':
        kind = c['kind']
        if not impl['ok']:
            if c['mode'] == 'canon':
                v.append({'class': 'canonical-document-rejected:' + kind, 'what': 'a document in serialised form is rejected: %s' % impl.get('err')})
            return v
        if 'reparse_err' in impl:
            v.append({'class': 'own-output-rejected:' + kind, 'what': 'the serialised form of a parsed document does not parse: %s' % impl['reparse_err']})
            return v
        d = first_diff(canon_of_py(impl['v1']), canon_of_py(impl['v2']), ulp=1)
        if d:
            v.append({'class': 'reserialise-differs:%s:%s' % (kind, d.replace('[]', '')), 'what': 'ser(parse(ser(d))) != ser(d) at %s' % d})
        if c['mode'] == 'canon':
            d = first_diff(canon_of_tree(tree_of_text(c['doc'])), canon_of_py(impl['v1']), ulp=1)
            if d:
                v.append({'class': 'serialised-document-changed:%s:%s' % (kind, d.replace('[]', '')),
                          'what': 'a document in serialised form comes back different from parse+serialise at %s' % d})
    elif c['op'] == 'flt':
        if not impl['ok']:
            v.append({'class': 'float-text-rejected', 'what': 'serialised finite floats do not parse: %s' % impl.get('err')})
            return v
        for b, y, z in zip(c['bits'], impl['back'], impl['back2']):
            if ulp_dist(int(b), int(y)) > 1:
                v.append({'class': 'float-text-roundtrip', 'what': 'f64 %s comes back as %s (more than the last bit)' % (b, y)})
                break
            if ulp_dist(int(y), int(z)) > 1:
                v.append({'class': 'float-text-roundtrip', 'what': 'f64 %s comes back as %s after another round trip' % (y, z)})
                break
    return v


def nontrivial_key(c, impl):
    if 'panic' in impl:
        return None
    if c['op'] == 'rt':
        return ('rt', c['kind'], c['doc']) if impl['ok'] and len(c['doc']) > 150 else None
    if c['op'] == 'flt':
        return ('flt', tuple(c['bits']))
    return None


def classify(c, impl):
    labs = ['op=' + c['op']]
    if c['op'] == 'rt':
        labs.append('rt:%s:%s' % (c['kind'], c['mode']))
        if 'panic' not in impl:
            labs.append('rt:%s:%s' % (c['mode'], 'accepted' if impl['ok'] else 'rejected'))
        if c.get('mutation'):
            labs.append('malformed:' + c['mutation'])
    return labs


def extra_coverage():
    return {'translator_error': _GEN_ERROR} if _GEN_ERROR else {}


MANIFEST_TEXT = 'TODO'
MANIFEST_NOTE = 'TODO'
MANIFEST_TECHNIQUE = 'Coq proof over executable model + vm_compute differential correspondence with the Rust implementation'
