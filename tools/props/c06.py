"""C06 — insertion evaluation agrees with brute-force simulation (plugin for tools/verif.py)."""
from coqterm import z, zlist, lst, nat
from props import corelib as K
from props.corelib import tz, INF

ID = 'C06'
HARNESS = 'c06'
COQ_IMPORTS = 'From VRP Require Import Base.Tac Model.Core Spec.Feasible Model.Eval.'
MODEL_TARGETS = ['theories/Model/Eval.vo']
MODEL_NEEDS_IMPL = True
SHARD = 60
SIZES = {'quick': 700, 'thorough': 12000, 'search': 6000}
SUBSTREAMS = ['c06_limits', 'c06_multitrip', 'c06_multi', 'c06_time']
RULE = ('cases: random worlds (3-6 locations, metric and non-metric asymmetric integer matrices, open/closed tours, finite and '
        'unbounded shift ends, all five vehicle cost rates), tours of 0-5 activities generated around the simulated arrival times '
        '(tight windows, waiting, occasionally infeasible), mixed static and dynamic (shipment) demand; candidate = single job '
        '(1-2 places x 1-3 windows, windows near the horizon / after the shift end) or a pickup-delivery pair; position Any / '
        'Concrete i / Last. non-trivial = distinct cases whose tour has >= 1 activity and whose alternatives are not all infeasible '
        'or all feasible.')
TRUSTED = ['the Python simulation oracle in tools/props/corelib.py (cross-checked against the Coq `feasible` on every alternative of every case)',
           'routing is time-independent (SimpleTransportCost); SimpleActivityCost; parent stream: SingleDimLoad with a defined vehicle capacity, no reload intervals (sub-stream c06_multitrip: reload intervals, MultiDimLoad)']
ASSUMPTIONS = ['integer-valued data below 2^40: every f64 operation of the evaluator is exact',
               'Float::MAX is represented by INF = 2^60 in the model; the `== Float::MAX` branch of update_states is the same function as the min-formula under float absorption']


def generate(rng, tier, n):
    cases = []
    for k in range(n):
        w = K.gen_world(rng)
        tour = K.gen_tour(rng, w, tight=rng.chance(1, 3))
        c = dict(w)
        c['tour'] = tour
        c['goal'] = 'cost'
        if rng.chance(1, 5):
            c['job'] = K.gen_multi(rng, w, tour)
            c['pos'] = 'any'
        else:
            c['job'] = K.gen_boundary_single(rng, w, tour) if rng.chance(2, 5) else K.gen_single(rng, w, tour)
            r = rng.below(10)
            c['pos'] = 'any' if r < 6 else ('last' if r < 7 else ['concrete', rng.below(len(tour) + 3)])
        cases.append(c)
    return cases


def corpus():
    # DESIGN.md section 7.1: first window starts after the shift end, second one is feasible
    base = {'n': 3, 'dur': [0, 10, 10, 10, 0, 10, 10, 10, 0], 'dist': [0, 10, 10, 10, 0, 10, 10, 10, 0],
            'veh': {'start': 0, 'end': 0, 'shift_start': 0, 'shift_end': 100, 'cap': 10, 'costs': [0, 1, 1, 0, 0]},
            'tour': [], 'goal': 'cost', 'pos': 'any'}
    c1 = dict(base)
    c1['job'] = {'id': 90, 'places': [{'loc': 1, 'svc': 0, 'tws': [[200, 300], [0, 50]]}], 'dem': [0, 0, 1, 0]}
    c2 = dict(base)
    c2['job'] = {'id': 90, 'places': [{'loc': 1, 'svc': 0, 'tws': [[0, 50], [200, 300]]}], 'dem': [0, 0, 1, 0]}
    # open tour, last leg, positive service time
    c3 = dict(base)
    c3['veh'] = dict(base['veh'], end=None, shift_end='inf')
    c3['job'] = {'id': 90, 'places': [{'loc': 1, 'svc': 5, 'tws': [[0, 12]]}], 'dem': [0, 0, 1, 0]}
    return [c1, c2, c3]


def steps_of(c, impl):
    """certificate of a multi insertion as Gallina: list (nat * tact)"""
    subs = {('j%d' % s['id']): s for s in c['job']['multi']}
    out = []
    for a in impl['eval']['acts']:
        s = subs[a['job']]
        out.append('(%s, (%s, %s, %s, %s, %s, %s))' % (nat(a['index']), z(s['id']), z(a['loc']), z(tz(a['svc'])), z(tz(a['tws'])),
                                                      z(tz(a['twe'])), K.g_demand(s['dem'])))
    return '[' + '; '.join(out) + ']'


def model_term(c, impl):
    w = K.g_world(c)
    acts = lst(c['tour'], K.g_tact)
    if 'multi' in c['job']:
        if 'panic' in impl or not impl['eval']['ok']:
            return 'run_multi_cert %s %s []' % (w, acts)
        return 'run_multi_cert %s %s %s' % (w, acts, steps_of(c, impl))
    return 'run_single %s %s %s %s' % (w, acts, K.g_single(c['job']), K.g_pos(c['pos']))


def canon_t(x):
    return 'inf' if x == 'inf' or (isinstance(x, int) and x >= INF // 2) else x


def state_mismatch(digest, states):
    """cached tour state of the real route (hook RouteState::verif_digest: sorted renderings of every cached value, keys are
    private types) vs. the model's state vectors: latest arrival + future waiting (Vec<f64>), current / max-past / max-future
    load (Vec<SingleDimLoad>)"""
    if digest is None:
        return 'harness reported no state digest'
    import ast
    vf, vl = [], []
    for s in digest:
        if s.startswith('vf:'):
            xs = ast.literal_eval(s[3:].replace('inf', '1e999'))
            vf.append(['inf' if x >= 1e300 else (int(x) if x == int(x) else x) for x in xs])
        elif s.startswith('vl1:'):
            vl.append(list(ast.literal_eval(s[4:])))
    latest, waiting, cur, past, fut = [[canon_t(x) for x in v] for v in states]
    if sorted(map(str, vf)) != sorted(map(str, [latest, waiting])):
        return 'cached latest-arrival / waiting states: impl %s model %s' % (vf, [latest, waiting])
    if sorted(map(str, vl)) != sorted(map(str, [cur, past, fut])):
        return 'cached load states: impl %s model %s' % (vl, [cur, past, fut])
    return None


def compare(c, impl, model):
    if 'panic' in impl:
        return 'implementation panicked: %s' % impl['panic']
    isched = [[canon_t(a), canon_t(b)] for a, b in impl['before']['sched']]
    if 'multi' in c['job']:
        sched, feas0, cert_ok, feas1, mcost = model
        msched = [[canon_t(a), canon_t(b)] for a, b in sched]
        if msched != isched:
            return 'schedule: impl %s model %s' % (isched, msched)
        if impl['eval']['ok'] and feas0 == 1 and cert_ok != 1:
            return 'multi insertion certificate rejected by the model: some step does not pass the modelled evaluation'
        if impl['eval']['ok'] and impl['eval']['cost'][0] != mcost:
            return 'multi insertion cost: impl %s, model (route estimate + per-step estimates on the shadow tours) %s' % (impl['eval']['cost'][0], mcost)
        return None
    sched, totals, res, feas0, alts, states = model
    d = state_mismatch(impl.get('digest'), states)
    if d:
        return d
    msched = [[canon_t(a), canon_t(b)] for a, b in sched]
    if msched != isched:
        return 'schedule: impl %s model %s' % (isched, msched)
    if [impl['before']['dist'], canon_t(impl['before']['dur'])] != [totals[0], canon_t(totals[1])]:
        return 'totals: impl %s model %s' % ([impl['before']['dist'], impl['before']['dur']], totals)
    e = impl['eval']
    if e['ok']:
        a = e['acts'][0]
        got = [1, a['index'], a['place'], a['loc'], canon_t(a['svc']), canon_t(a['tws']), canon_t(a['twe']), e['cost'][0]]
        exp = [canon_t(x) for x in res]
        if got != exp:
            return 'eval: impl %s model %s' % (got, exp)
    else:
        got = [0, e['code'], 1 if e['stopped'] else 0]
        if got != list(res):
            return 'eval: impl %s model %s' % (got, list(res))
    # python oracle vs Coq spec on every alternative
    t = K.full_tour(c, c['tour'])
    palts = K.alternatives(c, t, c['job'])
    calts = [(a[0], a[1], a[2], a[3], a[4] == 1) for a in alts]
    if [(i, p, canon_t(a), canon_t(b), f) for i, p, a, b, f in palts] != [(i, p, canon_t(a), canon_t(b), f) for i, p, a, b, f in calts]:
        return 'python simulation oracle disagrees with the Coq spec `feasible` on the alternatives'
    if (feas0 == 1) != K.feasible(c, t):
        return 'python simulation oracle disagrees with the Coq spec `feasible` on the tour'
    return None


def inserted_tour(c, impl):
    t = K.full_tour(c, c['tour'])
    if 'multi' in c['job']:
        subs = {('j%d' % s['id']): s for s in c['job']['multi']}
    for a in impl['eval']['acts']:
        dem = subs[a['job']]['dem'] if 'multi' in c['job'] else (c['job']['dem'] or [0, 0, 0, 0])
        x = {'loc': a['loc'], 'svc': tz(a['svc']), 'tws': tz(a['tws']), 'twe': tz(a['twe']), 'dem': dem, 'term': False}
        t = t[:a['index'] + 1] + [x] + t[a['index'] + 1:]
    return t


def oracle(c, impl):
    if 'panic' in impl:
        return [{'class': 'panic', 'what': 'evaluator panicked: ' + impl['panic']}]
    t = K.full_tour(c, c['tour'])
    if not K.feasible(c, t):
        return []          # the property speaks about feasible tours
    v = []
    e = impl['eval']
    multi = 'multi' in c['job']
    if e['ok']:
        t2 = inserted_tour(c, impl)
        if not K.feasible(c, t2):
            v.append({'class': 'unsound-multi' if multi else 'unsound-single',
                      'what': 'evaluator accepted an insertion the step-by-step simulation finds infeasible'})
        if multi:
            idx = [a['index'] for a in e['acts']]
            names = [a['job'] for a in e['acts']]
            if names != ['j%d' % s['id'] for s in c['job']['multi']] or idx != sorted(idx):
                v.append({'class': 'multi-order', 'what': 'sub-jobs of a multi job placed out of order'})
    elif not multi and c['pos'] == 'any':
        alts = K.alternatives(c, t, c['job'])
        feas = [a for a in alts if a[4]]
        if feas:
            nalt = sum(len(p['tws']) for p in c['job']['places'])
            se = tz(c['veh']['shift_end'])
            last = len(t) - 1
            stopped_tw = (e['code'] == 1 and e['stopped'])
            order = [(pi, wi) for pi, p in enumerate(c['job']['places']) for wi in range(len(p['tws']))]
            wins = [c['job']['places'][pi]['tws'][wi] for pi, wi in order]
            # first alternative (iteration order) whose window starts after the shift end
            k_after = next((k for k, w in enumerate(wins) if tz(w[0]) > se), None)
            n = c['n']
            def arr_last(pi):
                p = c['job']['places'][pi]
                loc = t[last]['loc'] if p['loc'] is None else p['loc']
                return K.simulate(c, t)[2][last][1] + c['dur'][t[last]['loc'] * n + loc]
            if stopped_tw and nalt > 1 and k_after is not None and \
                    not any(a[0] == 0 and order.index((a[1], [i for i, w in enumerate(c['job']['places'][a[1]]['tws']) if (tz(w[0]), tz(w[1])) == (a[2], a[3])][0])) < k_after for a in feas):
                cls = 'incomplete-alternative-after-shift-end'
            elif c['veh']['end'] is None and all(a[0] == last for a in feas) and e['code'] == 1 and \
                    all(tz(c['job']['places'][a[1]]['svc']) > 0 for a in feas) and \
                    all(arr_last(a[1]) > a[3] - tz(c['job']['places'][a[1]]['svc']) for a in feas):
                cls = 'incomplete-open-end-service-time'
            elif c['veh']['end'] is None and nalt > 1 and stopped_tw and all(a[0] == last for a in feas) and \
                    any(arr_last(pi) > tz(w[1]) for pi, p in enumerate(c['job']['places']) for w in p['tws']):
                cls = 'incomplete-open-end-multi-alternative'
            else:
                cls = 'incomplete-single'
            v.append({'class': cls, 'what': 'exhaustive scan failed (code %s) although position %s is feasible' % (e['code'], feas[0][:4])})
    return v


def nontrivial_key(c, impl):
    if 'panic' in impl or not c['tour']:
        return None
    return (str(c['tour']), str(c['job']), str(c['pos']), str(c['veh']))


def classify(c, impl):
    labs = ['tour_len=%d' % len(c['tour']), 'closed' if c['veh']['end'] is not None else 'open',
            'job=' + ('multi' if 'multi' in c['job'] else 'single'), 'pos=' + (c['pos'] if isinstance(c['pos'], str) else 'concrete')]
    if 'panic' not in impl:
        e = impl['eval']
        labs.append('verdict=' + ('success' if e['ok'] else 'fail(code=%s,stopped=%s)' % (e['code'], e['stopped'])))
        labs.append('tour_feasible=%s' % K.feasible(c, K.full_tour(c, c['tour'])))
    return labs


def shrink_candidates(c):
    for i in range(len(c['tour'])):
        d = dict(c)
        d['tour'] = c['tour'][:i] + c['tour'][i + 1:]
        yield d
    if 'multi' not in c['job']:
        for pi, p in enumerate(c['job']['places']):
            if len(c['job']['places']) > 1:
                d = dict(c)
                d['job'] = dict(c['job'], places=c['job']['places'][:pi] + c['job']['places'][pi + 1:])
                yield d
            for wi in range(len(p['tws'])):
                if len(p['tws']) > 1:
                    d = dict(c)
                    ps = [dict(q) for q in c['job']['places']]
                    ps[pi]['tws'] = p['tws'][:wi] + p['tws'][wi + 1:]
                    d['job'] = dict(c['job'], places=ps)
                    yield d


MANIFEST_TEXT = ('Machine-checked proof (Coq) over an executable model of the insertion evaluator (TransportConstraint::evaluate_activity, '
                 'has_demand_violation, the cached latest-arrival / load-profile state, the places x windows x legs scan): an accepted '
                 'position always yields a tour the independent simulation finds feasible (single activities; multi-jobs via a verified '
                 'step certificate), and for one place / one window at inner legs the O(1) tests are exact (complete). The model is tied to '
                 '/repo on every run: the real eval_job_insertion_in_route and the model are run on the same generated tours/jobs and must '
                 'agree on verdict, code, stopped flag, index, place, window and cost; the simulation oracle is applied to the implementation output. '
                 'Sub-stream c06_limits (Model/Limits.v): the tour-limit (max distance / max duration), tour-size, skills and strict-lock '
                 'constraints are inside the model: an accepted insertion keeps the tour within all of them for the extended step-by-step '
                 'simulation (any matrix, open/closed; whole single-job evaluation; any history of applied insertions); the distance, size and '
                 'skills tests are exact, the duration test is sound and exact when nothing behind the next activity waits (otherwise '
                 'conservative - witness theorem); the real tour_limits.rs / travel_info.rs / skills.rs / locked_jobs.rs run against the model on '
                 'every check and the oracle re-simulates the really applied tour. Sub-stream c06_multitrip (Model/CapacityMT.v): route '
                 'intervals, reload marker rules, per-interval load states and MultiDimLoad are modelled generically in the load type; proved: '
                 'cached per-interval states are exact, an accepted insertion keeps every reload interval within capacity in every dimension '
                 '(static demand and shipments carried across reloads), exactness for static demand, the d-dimensional test is the conjunction '
                 'of one-dimensional tests; tied to /repo on every run (intervals, cached states, verdict at every leg, evaluator results, '
                 'accept_solution_state) with an independent per-interval simulation as oracle; finding C06-F4. '
                 'Sub-stream c06_multi (Model/MultiSearch.v + the eval_multi search of Model/ObjectivesX.v): the greedy sequential search '
                 'for multi-task jobs is inside the model as a program (permutations, sub-job by sub-job on the shadow tour from the advancing '
                 'start index, failure handling, best permutation by cost, every InsertionPosition): proved for all inputs that whatever it '
                 'returns as Success gives a feasible tour when carried out, in increasing positions that follow a declared permutation; a '
                 'witness that it may miss feasible combinations (allowed); the real result (verdict, cost, (index, place) list) is compared '
                 'with the modelled search on every run. Sub-stream c06_time (Model/TimeDep.v, Spec/FeasibleT.v): the transport constraint '
                 'generic in the cost providers, instantiated with reserved times (required breaks: lookup closure, DynamicTransportCost, '
                 'DynamicActivityCost) and time-dependent matrices: one generic soundness theorem; soundness for time-dependent routing '
                 'under FIFO + arrival-consistency and exactness of the cached latest arrival under the converse; for one reserved time the '
                 'forward pass IS the physical break simulation and accepted insertions at inner legs of closed tours are feasible for it; '
                 'refuted witnesses = findings C06-F5 (f64::MAX departure accepted), C06-F6 (two breaks in one segment), C06-F7 (decreasing '
                 'time-dependent durations, FIFO or not), replayed on the real code.')
MANIFEST_NOTE = ('Trusted: Coq kernel+vm_compute; harness/generators; python simulation oracle (cross-checked against the Coq spec each run). '
                 'Not modelled: shared reload resources, recharge, optional breaks as conditional jobs, notify_failure / departure rescheduling, lazy locks (reload intervals and MultiDimLoad are in the sub-stream c06_multitrip, limits / skills / strict locks in c06_limits, the eval_multi search in c06_multi, reserved times and time-dependent routing in c06_time; the parent stream is single-interval SingleDimLoad); '
                 'reserved times: theorems for ONE reserved time, closed tours, inner legs (more is false: C06-F5/F6); Completeness is proved per position; '
                 'known incompleteness classes are listed in known_findings.json.')
MANIFEST_TECHNIQUE = 'Coq proof (soundness/completeness of O(1) insertion tests incl. limits, skills, locks, reload intervals, multi-dimensional loads, the eval_multi search, reserved times, time-dependent routing vs simulation) + vm_compute differential correspondence (five harness binaries)'
