"""C09 — order laws of Goal::total_order and InsertionCost (plugin for tools/verif.py)."""
from coqterm import zlist
from props.floats import bits, of_bits, any_bits, SPECIAL, SIGN

ID = 'C09'
HARNESS = 'c09'
COQ_IMPORTS = 'From VRP Require Import Base.Tac Base.TotalCmp Model.CostOrder.'
MODEL_TARGETS = ['theories/Model/CostOrder.vo']
SIZES = {'quick': 1500, 'thorough': 30000, 'search': 30000}
RULE = ('cases: InsertionCost pairs/triples (lengths 0-8, components from the float corpus: +-0, denormals, +-inf, NaN '
        'payloads, 2^53+-1, random bit patterns; second operand often a perturbed/padded copy of the first), exact-domain '
        'add/sub pairs (integer values < 2^50), goals (1-5 layers, single and dominance layers) with fitness vectors from '
        'the corpus, dominance_order on random comparison lists. non-trivial = distinct (op, operands) whose comparison '
        'is decided after the first component or involves a zero/NaN/padding.')
TRUSTED = ['f64::total_cmp is modelled by the integer key of Base/TotalCmp.v (validated against the implementation on every run)',
           'InsertionCost +/- modelled over Z on the exact sub-domain (integer-valued components below 2^53); f64 exactness there is validated, not proved']
ASSUMPTIONS = ['float arithmetic on integer-valued doubles below 2^53 is exact (IEEE-754); outside that domain (x+y)-y==x is not claimed']


def vec(rng, maxlen=8):
    n = rng.below(maxlen + 1)
    return [any_bits(rng) for _ in range(n)]


def perturb(rng, x):
    y = list(x)
    k = rng.below(6)
    if k == 0:
        return y + [rng.choice([0, SIGN, 0, 0]) for _ in range(rng.range(1, 3))]
    if k == 1 and y:
        return y[:rng.below(len(y))]
    if k == 2 and y:
        i = rng.below(len(y))
        y[i] = any_bits(rng)
        return y
    if k == 3 and y:
        i = rng.below(len(y))
        y[i] = y[i] ^ SIGN
        return y
    if k == 4 and y:
        i = rng.below(len(y))
        y[i] = (y[i] + rng.choice([1, -1])) & 0xFFFFFFFFFFFFFFFF
        return y
    return y


def s(xs):
    return [str(x) for x in xs]


def generate(rng, tier, n):
    cases = []
    for k in range(n):
        r = rng.below(100)
        if r < 35:
            a = vec(rng)
            b = perturb(rng, a) if rng.chance(2, 3) else vec(rng)
            cases.append({'op': 'icost', 'a': s(a), 'b': s(b), 'exact': False})
        elif r < 50:
            # lengths 0-9: InsertionCost keeps up to 6 components inline and spills longer vectors to the heap, and the
            # operands of + and - may have any two lengths (the shorter one is padded with zeros)
            la, lb = rng.below(10), rng.below(10)
            if rng.chance(1, 4):
                la, lb = rng.range(0, 6), rng.range(7, 9)      # right operand strictly longer and beyond the inline size
            elif rng.chance(1, 6):
                la, lb = rng.range(7, 9), rng.range(0, 6)
            va = [rng.range(-2**rng.range(1, 50), 2**rng.range(1, 50)) for _ in range(la)]
            vb = [rng.range(-2**rng.range(1, 50), 2**rng.range(1, 50)) for _ in range(lb)]
            if rng.chance(1, 4) and va:
                va[rng.below(len(va))] = 0
            cases.append({'op': 'icost', 'a': s(bits(float(v)) for v in va), 'b': s(bits(float(v)) for v in vb),
                          'exact': True, 'va': s(va), 'vb': s(vb)})
        elif r < 62:
            a = vec(rng, 5)
            b = perturb(rng, a)
            c = perturb(rng, b) if rng.chance(1, 2) else vec(rng, 5)
            cases.append({'op': 'icost3', 'a': s(a), 'b': s(b), 'c': s(c)})
        elif r < 92:
            nl = rng.range(1, 5)
            layers = [1 if rng.chance(2, 3) else rng.range(2, 3) for _ in range(nl)]
            if rng.chance(1, 10):
                layers[rng.below(nl)] = -1   # a dominance layer over a single objective
            w = sum(abs(l) for l in layers)
            a = [any_bits(rng) for _ in range(w)]
            b = list(a)
            for _ in range(rng.below(3)):
                i = rng.below(w)
                b[i] = rng.choice([any_bits(rng), a[i] ^ SIGN, (a[i] + 1) & 0xFFFFFFFFFFFFFFFF])
            cases.append({'op': 'goal', 'layers': layers, 'a': s(a), 'b': s(b)})
        else:
            cases.append({'op': 'dominance', 'orders': [rng.range(-1, 1) for _ in range(rng.below(6))]})
    return cases


def corpus():
    z, nz, one = 0, SIGN, bits(1.0)
    nan = 0x7FF8000000000000
    return [
        {'op': 'icost', 'a': s([nz]), 'b': s([]), 'exact': False},
        {'op': 'icost', 'a': s([z, z]), 'b': s([]), 'exact': False},
        {'op': 'icost', 'a': s([one, nan]), 'b': s([one, nan | SIGN]), 'exact': False},
        {'op': 'goal', 'layers': [1, 1], 'a': s([z, one]), 'b': s([nz, one])},
        {'op': 'goal', 'layers': [1, 1], 'a': s([z, one]), 'b': s([nz, bits(2.0)])},
        {'op': 'goal', 'layers': [2], 'a': s([z, one]), 'b': s([nz, one])},
        {'op': 'goal', 'layers': [1], 'a': s([nan]), 'b': s([nan | SIGN])},
        {'op': 'goal', 'layers': [2, 1], 'a': s([1, 3, 7]), 'b': s([0, 5, 6])},
    ]


def ints(xs):
    return [int(x) for x in xs]


def model_term(c):
    op = c['op']
    if op == 'icost':
        t = '(run_icost %s %s, run_icost %s %s' % (zlist(ints(c['a'])), zlist(ints(c['b'])), zlist(ints(c['b'])), zlist(ints(c['a'])))
        if c.get('exact'):
            t += ', run_icost_arith %s %s)' % (zlist(ints(c['va'])), zlist(ints(c['vb'])))
        else:
            t += ', @nil (list Z))'
        return t
    if op == 'icost3':
        a, b, cc = (zlist(ints(c[k])) for k in 'abc')
        return '(run_icost %s %s ++ run_icost %s %s ++ run_icost %s %s ++ run_icost %s %s ++ run_icost %s %s)' % (a, b, b, cc, a, cc, b, a, a, a)
    if op == 'goal':
        return 'run_goal %s %s %s' % (zlist(c['layers']), zlist(ints(c['a'])), zlist(ints(c['b'])))
    if op == 'dominance':
        return 'run_dominance %s' % zlist(c['orders'])


def fvals(bs):
    out = []
    for b in bs:
        x = of_bits(int(b))
        if x != x or x in (float('inf'), float('-inf')) or x != int(x):
            return None
        out.append(int(x))
    return out


def compare(c, impl, model):
    if 'panic' in impl:
        return 'implementation panicked: %s' % impl['panic']
    op = c['op']
    if op == 'icost':
        ab, ba, arith = model
        if [impl['cmp']] != ab:
            return 'cmp: impl %s model %s' % (impl['cmp'], ab)
        if impl['eq'] != (ab == [0]):
            return 'eq: impl %s but model cmp %s' % (impl['eq'], ab)
        if c.get('exact'):
            for k, name in enumerate(['add', 'sub', 'addsub', 'subadd']):
                got = fvals(impl[name])
                if got != arith[k]:
                    return '%s: impl %s model %s' % (name, got, arith[k])
        if not impl.get('owned_same', True):
            return 'the by-value + / - operators differ from the by-reference ones'
        return None
    if op == 'icost3':
        got = [impl['ab'], impl['bc'], impl['ac'], impl['ba'], impl['aa']]
        return None if got == model else 'impl %s model %s' % (got, model)
    if op == 'goal':
        got = [impl['ab'], impl['ba'], impl['aa']]
        if got != model:
            return 'impl %s model %s' % (got, model)
        if impl['ab_ctx'] != impl['ab']:
            return 'GoalContext::total_order differs from Goal::total_order'
        if impl['fit_a'] != c['a'] or impl['fit_b'] != c['b']:
            return 'fitness vector not reported in layer order'
        return None
    if op == 'dominance':
        return None if impl['ord'] == model else 'impl %s model %s' % (impl['ord'], model)


def oracle(c, impl):
    """the order laws evaluated directly on the implementation's answers"""
    if 'panic' in impl:
        return {'class': 'panic', 'what': 'comparison panicked: ' + impl['panic']}
    op = c['op']
    v = []
    if op == 'icost':
        if c.get('exact') and impl['addsub_cmp'] != 0:
            v.append({'class': 'addsub', 'what': '(x+y)-y != x on integer-valued cost vectors'})
        if c.get('exact') and impl.get('subadd_cmp', 0) != 0:
            v.append({'class': 'subadd', 'what': '(x-y)+y != x on integer-valued cost vectors'})
        if c['a'] == c['b'] and impl['cmp'] != 0:
            v.append({'class': 'icost-refl', 'what': 'cmp(x,x) != Equal'})
    if op == 'icost3':
        if impl['aa'] != 0:
            v.append({'class': 'icost-refl', 'what': 'cmp(a,a) != Equal'})
        if impl['ab'] != -impl['ba']:
            v.append({'class': 'icost-antisym', 'what': 'cmp(a,b) != reverse cmp(b,a)'})
        if impl['ab'] == impl['bc'] and impl['ac'] != impl['ab']:
            v.append({'class': 'icost-trans', 'what': 'cmp not transitive on (a,b,c)'})
        if impl['ab'] == 0 and impl['ac'] != impl['bc']:
            v.append({'class': 'icost-trans', 'what': 'cmp(a,b)=Equal but cmp(a,c) != cmp(b,c)'})
    if op == 'goal':
        if impl['aa'] != 0:
            v.append({'class': 'goal-refl', 'what': 'total_order(a,a) != Equal'})
        if impl['ab'] != -impl['ba']:
            v.append({'class': 'goal-antisym', 'what': 'total_order(a,b) != reverse total_order(b,a)'})
        if all(l == 1 for l in c['layers']):
            # single layers: must equal lexicographic comparison of the reported fitness, +0 == -0
            def zk(b):
                b = int(b)
                if b in (0, SIGN):
                    return 0
                return b if b < SIGN else -(b - SIGN) - 1
            ka, kb = [zk(x) for x in impl['fit_a']], [zk(x) for x in impl['fit_b']]
            lex = (ka > kb) - (ka < kb)
            if lex != impl['ab']:
                v.append({'class': 'goal-lex', 'what': 'single-layer goal order differs from lexicographic fitness order'})
    return v


def nontrivial_key(c, impl):
    if 'panic' in impl:
        return None
    if c['op'] in ('icost', 'icost3'):
        a, b = c['a'], c['b']
        if a and b and a[0] == b[0] or len(a) != len(b) or c.get('exact'):
            return (c['op'], tuple(a), tuple(b), tuple(c.get('c', [])))
        return None
    if c['op'] == 'goal':
        return ('goal', tuple(c['layers']), tuple(c['a']), tuple(c['b'])) if len(c['layers']) > 1 else None
    return ('dom', tuple(c['orders'])) if len(c['orders']) > 1 else None


def classify(c, impl):
    labs = ['op=' + c['op']]
    if c['op'] == 'goal':
        labs.append('goal:' + ('single-only' if all(l == 1 for l in c['layers']) else 'with-multi'))
        if 'panic' not in impl:
            labs.append('goal-order=%s' % impl['ab'])
    if c['op'] == 'icost' and 'panic' not in impl:
        labs.append('icost-order=%s' % impl['cmp'])
        labs.append('icost-lens=%s' % ('equal' if len(c['a']) == len(c['b']) else 'different'))
    return labs

MANIFEST_TEXT = ('Machine-checked proof (Coq, 13 theorems, no axioms): over an executable model of InsertionCost::cmp/+/- , '
                 'Goal::total_order with single and dominance layers and f64::total_cmp as an integer key on the bit pattern, '
                 'the order laws hold for all vectors of all lengths and all 64-bit float patterns (NaNs, infinities, both zeros); '
                 'single-layer goals coincide with lexicographic fitness comparison with +0/-0 merged. The model is hand-written and '
                 'tied to /repo on every run by evaluating it inside Coq (vm_compute) on the same generated inputs as the real '
                 'InsertionCost / Goal / GoalContext / dominance_order and diffing the results; the laws are also evaluated directly on '
                 'the implementation outputs.')
MANIFEST_NOTE = ('Trusted: Coq kernel + vm_compute; the harness and generators; total_cmp key model (validated each run). '
                 '(x+y)-y==x is proved over Z (exact sub-domain of integer-valued doubles < 2^53) and validated on that domain; '
                 'it is false for general floats (absorption) and not claimed there. Modelled not verified: Rust/TinyVec semantics.')
MANIFEST_TECHNIQUE = 'Coq proof over executable model + vm_compute differential correspondence with the Rust implementation'
