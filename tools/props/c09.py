"""C09 — order laws of Goal::total_order and InsertionCost (plugin for tools/verif.py)."""
from coqterm import z, zlist
from props.floats import bits, of_bits, any_bits, SPECIAL, SIGN

ID = 'C09'
HARNESS = 'c09'
COQ_IMPORTS = 'From VRP Require Import Base.Tac Base.TotalCmp Model.CostOrder Model.InsCost Model.GoalCtx.'
MODEL_TARGETS = ['theories/Model/CostOrder.vo', 'theories/Model/InsCost.vo', 'theories/Model/GoalCtx.vo']
SUBSTREAMS = ['c09_reader']      # goals read by the real pragmatic reader from the `objectives` section (every multi-objective strategy)
SHARD = 100
SIZES = {'quick': 1500, 'thorough': 30000, 'search': 30000}
RULE = ('cases: InsertionCost pairs/triples (lengths 0-8, components from the float corpus: +-0, denormals, +-inf, NaN '
        'payloads, 2^53+-1, random bit patterns; second operand often a perturbed/padded copy of the first): cmp, ==, !=, partial_cmp, '
        '<, <=, >, >=, x[idx] (also out of range), iter / from_iter / into_iter, max_value, Default, select_cost, and + / - '
        '(by reference and by value, also against Default) compared BIT FOR BIT with the f64 model on every pattern (NaN results '
        'canonical); exact-domain add/sub pairs (integer values < 2^50, lengths 0-9); candidate insertion results folded by '
        'choose_best_result / BestResultSelector; goals (1-5 layers, single and dominance layers) with fitness vectors from '
        'the corpus; goal contexts built by GoalContextBuilder (single, `sum` and `weighted-sum` layers, alternatives) observed along '
        'scripted maybe_new paths: total_order, fitness, and estimate for scripted per-objective estimates; dominance_order on random '
        'comparison lists. non-trivial = distinct (op, operands) whose comparison is decided after the first component or involves a '
        'zero/NaN/padding.')
TRUSTED = ['f64::total_cmp is modelled by the integer key of Base/TotalCmp.v (validated against the implementation on every run)',
           'f64 + - * are modelled by Coq.Floats.SpecFloat (SFadd / SFsub / SFmul, binary64, round to nearest even) between a decoder / '
           'encoder of bit patterns (Model/InsCost.v); validated bit for bit against the real operators on the whole float corpus on '
           'every run; the sign / payload of a NaN PRODUCED by an operation is not modelled (both sides report one canonical NaN)',
           'GoalContext::get_alternatives is crate-private: its model (a map of get_alternative over the indices) is tied to the code only '
           'through Alternative::maybe_new, which reaches every get_alternative(idx)',
           'the multi-layer closures of the core stream (harness/src/bin/c09.rs) are copies of the ones goal_reader.rs installs; the real '
           'ones are exercised by the sub-stream c09_reader']
ASSUMPTIONS = ['(x+y)-y==x is claimed on the exact sub-domain only: integer-valued components (and -0.0) of magnitude below 2^52, where the '
               'exactness of IEEE-754 + and - is PROVED for the SpecFloat model (C09_f64_add/sub_exact_on_integers); outside it the law '
               'is false for any IEEE arithmetic (C09_icost_add_sub_all_doubles_refuted: absorption / overflow / inf-inf)',
               'impl Sum for f64 folds from -0.0 (core::iter, Rust >= 1.83; observed: the estimate of a `sum` layer over no objective is -0.0)']


def vec(rng, maxlen=8):
    n = rng.below(maxlen + 1)
    return [any_bits(rng) for _ in range(n)]


def perturb(rng, x):
    y = list(x)
    k = rng.below(6)
    if k == 0:
        return y + [rng.choice([0, SIGN, 0, 0]) for _ in range(rng.range(1, 3))]
    if k == 1 and y:
        return y[:rng.below(len(y))]
    if k == 2 and y:
        i = rng.below(len(y))
        y[i] = any_bits(rng)
        return y
    if k == 3 and y:
        i = rng.below(len(y))
        y[i] = y[i] ^ SIGN
        return y
    if k == 4 and y:
        i = rng.below(len(y))
        y[i] = (y[i] + rng.choice([1, -1])) & 0xFFFFFFFFFFFFFFFF
        return y
    return y


def s(xs):
    return [str(x) for x in xs]


POOL = [0, SIGN, bits(1.0), bits(-1.0), bits(2.5), bits(2.0), 0x7FF8000000000000]


def gen_goal_spec(rng, nf, flags):
    """{'via': 0 (Goal::subset_of) | 1 (GoalBuilder), 'layers': [[kind, [feature indices]], ..]}"""
    withobj = [i for i in range(nf) if flags[i]] or [0]
    if rng.chance(2, 3):
        idxs = rng.shuffle(withobj)[:rng.range(1, len(withobj))]
        if rng.chance(1, 25):
            idxs.insert(rng.below(len(idxs) + 1), rng.choice([i for i in range(nf) if not flags[i]] or [nf + 1]))   # no objective / unknown
        if rng.chance(1, 40):
            idxs = []
        if rng.chance(1, 12) and idxs:
            idxs.append(rng.choice(idxs))          # the same objective twice
        return {'via': 0, 'layers': [[0, [i]] for i in idxs]}
    layers = []
    for _ in range(rng.range(0 if rng.chance(1, 30) else 1, 4)):
        if rng.chance(3, 5):
            layers.append([0, [rng.below(nf)]])
        elif rng.chance(1, 2):
            # add_multi with the comparator / estimate of strategy `sum` (rarely over no objective at all)
            layers.append([1, [rng.below(nf) for _ in range(rng.range(0 if rng.chance(1, 8) else 1, 3))]])
        else:
            # ... of strategy `weighted-sum`; rarely fewer weights than objectives (weights[idx] panics inside estimate)
            idxs = [rng.below(nf) for _ in range(rng.range(1, 3))]
            nw = len(idxs) + (rng.choice([-1, 1]) if rng.chance(1, 10) else 0)
            layers.append([2, idxs, s(gen_weight(rng) for _ in range(nw))])
    return {'via': 1, 'layers': layers}


def gen_weight(rng):
    k = rng.below(8)
    if k < 5:
        return bits(rng.choice([0.1, 0.3, 0.5, 0.7, 1.0, 2.0, 10.0, -1.0, 1e-3, 1e6]))
    if k < 6:
        return rng.choice([0, SIGN, bits(1.0)])
    return any_bits(rng)


def gen_estimates(rng, nf):
    k = rng.below(4)
    if k == 0:
        return [bits(float(rng.range(-1000, 1000))) for _ in range(nf)]
    if k == 1:
        return [bits(rng.range(-10**9, 10**9) / 1024.0) for _ in range(nf)]
    if k == 2:
        return [bits(rng.choice([0.1, 0.2, 0.3, 1e16, 1.0, -1e16, 1e308, -1e308, 5e-324, 3.3])) for _ in range(nf)]
    return [any_bits(rng) for _ in range(nf)]


def spec_single_only(spec):
    return spec is None or all(l[0] == 0 for l in spec['layers'])


def gen_choose(rng):
    """candidate insertion results folded by InsertionResult::choose_best_result: [kind, tag | code, cost]"""
    base = vec(rng, 4)

    def one():
        if rng.chance(1, 4):
            return [0, rng.choice([-1, -1, 1, 2, 7]), []]
        c = base if rng.chance(1, 3) else (perturb(rng, base) if rng.chance(1, 2) else vec(rng, 4))
        return [1, rng.below(8), s(c)]
    return {'op': 'choose', 'init': [0, -1, []] if rng.chance(1, 2) else one(), 'rs': [one() for _ in range(rng.range(0, 6))]}


def gen_gctx(rng):
    """a GoalContext built by GoalContextBuilder (with_features / set_main_goal / add_alternative_goal), the contexts handed out
    by Alternative::maybe_new along scripted paths, two solutions given by the fitness every objective reads"""
    nf = rng.range(1, 5)
    flags = [0 if rng.chance(1, 8) else 1 for _ in range(nf)]
    if not any(flags) and not rng.chance(1, 10):
        flags[rng.below(nf)] = 1
    main = None if rng.chance(1, 5) else gen_goal_spec(rng, nf, flags)
    alts = [gen_goal_spec(rng, nf, flags) for _ in range(rng.below(4))]
    na = 1 + len(alts)
    paths = [[], [[0, rng.below(na)]]] + [[[1, i]] for i in range(na)]
    for _ in range(2):
        paths.append([[1, rng.below(na)], [rng.below(2), rng.below(na)]])
    a = [rng.choice(POOL) if rng.chance(3, 4) else any_bits(rng) for _ in range(nf)]
    b = list(a)
    for _ in range(rng.range(0, 3)):
        i = rng.below(nf)
        b[i] = rng.choice([rng.choice(POOL), any_bits(rng), a[i] ^ SIGN, (a[i] + 1) & 0xFFFFFFFFFFFFFFFF])
    return {'op': 'gctx', 'flags': flags, 'main': main, 'alts': alts, 'paths': paths, 'a': s(a), 'b': s(b),
            'e': s(gen_estimates(rng, nf))}


def generate(rng, tier, n):
    cases = []
    for k in range(n):
        r = rng.below(100)
        if r < 32:
            a = vec(rng)
            b = perturb(rng, a) if rng.chance(2, 3) else vec(rng)
            cases.append({'op': 'icost', 'a': s(a), 'b': s(b), 'exact': False, 'idx': rng.below(len(a) + 2)})
        elif r < 47:
            # lengths 0-9: InsertionCost keeps up to 6 components inline and spills longer vectors to the heap, and the
            # operands of + and - may have any two lengths (the shorter one is padded with zeros)
            la, lb = rng.below(10), rng.below(10)
            if rng.chance(1, 4):
                la, lb = rng.range(0, 6), rng.range(7, 9)      # right operand strictly longer and beyond the inline size
            elif rng.chance(1, 6):
                la, lb = rng.range(7, 9), rng.range(0, 6)
            va = [rng.range(-2**rng.range(1, 50), 2**rng.range(1, 50)) for _ in range(la)]
            vb = [rng.range(-2**rng.range(1, 50), 2**rng.range(1, 50)) for _ in range(lb)]
            if rng.chance(1, 4) and va:
                va[rng.below(len(va))] = 0
            cases.append({'op': 'icost', 'a': s(bits(float(v)) for v in va), 'b': s(bits(float(v)) for v in vb),
                          'exact': True, 'va': s(va), 'vb': s(vb), 'idx': rng.below(la + 2)})
        elif r < 58:
            a = vec(rng, 5)
            b = perturb(rng, a)
            c = perturb(rng, b) if rng.chance(1, 2) else vec(rng, 5)
            cases.append({'op': 'icost3', 'a': s(a), 'b': s(b), 'c': s(c)})
        elif r < 80:
            cases.append(gen_gctx(rng))
        elif r < 95:
            nl = rng.range(1, 5)
            layers = [1 if rng.chance(2, 3) else rng.range(2, 3) for _ in range(nl)]
            if rng.chance(1, 10):
                layers[rng.below(nl)] = -1   # a dominance layer over a single objective
            w = sum(abs(l) for l in layers)
            a = [any_bits(rng) for _ in range(w)]
            b = list(a)
            for _ in range(rng.below(3)):
                i = rng.below(w)
                b[i] = rng.choice([any_bits(rng), a[i] ^ SIGN, (a[i] + 1) & 0xFFFFFFFFFFFFFFFF])
            cases.append({'op': 'goal', 'layers': layers, 'a': s(a), 'b': s(b)})
        elif r < 98:
            cases.append(gen_choose(rng))
        else:
            cases.append({'op': 'dominance', 'orders': [rng.range(-1, 1) for _ in range(rng.below(6))]})
    return cases


def corpus():
    z, nz, one = 0, SIGN, bits(1.0)
    nan = 0x7FF8000000000000
    return [
        {'op': 'icost', 'a': s([nz]), 'b': s([]), 'exact': False},
        {'op': 'icost', 'a': s([z, z]), 'b': s([]), 'exact': False},
        {'op': 'icost', 'a': s([one, nan]), 'b': s([one, nan | SIGN]), 'exact': False},
        {'op': 'goal', 'layers': [1, 1], 'a': s([z, one]), 'b': s([nz, one])},
        {'op': 'goal', 'layers': [1, 1], 'a': s([z, one]), 'b': s([nz, bits(2.0)])},
        {'op': 'goal', 'layers': [2], 'a': s([z, one]), 'b': s([nz, one])},
        {'op': 'goal', 'layers': [1], 'a': s([nan]), 'b': s([nan | SIGN])},
        {'op': 'goal', 'layers': [2, 1], 'a': s([1, 3, 7]), 'b': s([0, 5, 6])},
        # main (f0,f1,f2), alternatives (f2,f0) and (f1,f2,f0) as in vrp-scientific's readers: every context orders by ITS goal and
        # reports ITS fitness vector
        {'op': 'gctx', 'flags': [1, 1, 1], 'main': {'via': 0, 'layers': [[0, [0]], [0, [1]], [0, [2]]]},
         'alts': [{'via': 0, 'layers': [[0, [2]], [0, [0]]]}, {'via': 0, 'layers': [[0, [1]], [0, [2]], [0, [0]]]}],
         'paths': [[], [[0, 0]], [[1, 0]], [[1, 1]], [[1, 2]], [[1, 1], [1, 2]]],
         'a': s([bits(-1.0), bits(-1.0), bits(-1.0)]), 'b': s([bits(-1.0), nz, bits(-1.0)])},
        {'op': 'gctx', 'flags': [1, 1, 1], 'main': None, 'alts': [{'via': 1, 'layers': [[1, [1, 2]], [0, [0]]]}],
         'paths': [[], [[1, 0]], [[1, 1]]], 'a': s([one, bits(2.0), one]), 'b': s([one, one, bits(2.0)])},
        # estimates: a `sum` layer over nothing (-0.0), over one -0.0, a weighted layer (0.1*3 + 0.2*10 in f64), too few weights
        {'op': 'gctx', 'flags': [1, 1, 1],
         'main': {'via': 1, 'layers': [[1, []], [1, [0]], [2, [1, 2], s([bits(3.0), bits(10.0)])], [0, [2]], [2, [0, 1], s([one])]]},
         'alts': [], 'paths': [[], [[1, 0]]], 'a': s([one, one, one]), 'b': s([one, one, bits(2.0)]), 'e': s([nz, bits(0.1), bits(0.2)])},
        # InsertionCost: not IEEE equality (NaN == NaN, -0.0 != +0.0, [] == [+0.0] but [] != [-0.0]); max_value is not a top element
        {'op': 'icost', 'a': s([nan]), 'b': s([nan]), 'exact': False, 'idx': 0},
        {'op': 'icost', 'a': s([nz]), 'b': s([z]), 'exact': False, 'idx': 1},
        {'op': 'icost', 'a': s([0x7FF0000000000000]), 'b': s([0x7FEFFFFFFFFFFFFF]), 'exact': False, 'idx': 0},
        {'op': 'icost', 'a': s([0x7FEFFFFFFFFFFFFF, 1]), 'b': s([0x7FEFFFFFFFFFFFFF]), 'exact': False, 'idx': 5},
        {'op': 'icost', 'a': s([bits(1e16), nz, bits(0.1)]), 'b': s([one, z, bits(0.2), bits(-3.5)]), 'exact': False, 'idx': 2},
        # choose_best_result: ties keep the left result, an unknown failure on the right never replaces the left one
        {'op': 'choose', 'init': [0, -1, []], 'rs': [[1, 0, s([one])], [1, 1, s([one, z])], [1, 2, s([one, nz])], [0, 3, []]]},
        {'op': 'choose', 'init': [0, 5, []], 'rs': [[0, -1, []], [0, 7, []]]},
    ]


def ints(xs):
    return [int(x) for x in xs]


def model_term(c):
    op = c['op']
    if op == 'icost':
        # every literal is written once (parsing a 64-bit literal costs Coq about a millisecond)
        t = '((fun a b : list Z => (run_icost a b, run_icost b a'
        if c.get('exact'):
            t += ', run_icost_arith %s %s' % (zlist(ints(c['va'])), zlist(ints(c['vb'])))
        else:
            t += ', @nil (list Z)'
        # the whole API on the bit patterns and f64 + / - on every pattern
        t += ', (run_icost_api a b %d, run_icost_arithF a b, run_icost_ident a, run_select a b))) %s %s)' % (
            c.get('idx', 0), zlist(ints(c['a'])), zlist(ints(c['b'])))
        return t
    if op == 'choose':
        def ir(r):
            return '(%d, %s, %s)' % (r[0], z(r[1]), zlist(ints(r[2])))
        return 'run_choose %s [%s]' % (ir(c['init']), '; '.join(ir(r) for r in c['rs']))
    if op == 'icost3':
        a, b, cc = (zlist(ints(c[k])) for k in 'abc')
        return ('((fun a b c : list Z => run_icost a b ++ run_icost b c ++ run_icost a c ++ run_icost b a ++ run_icost a a) '
                '%s %s %s)' % (a, b, cc))
    if op == 'goal':
        return 'run_goal %s %s %s' % (zlist(c['layers']), zlist(ints(c['a'])), zlist(ints(c['b'])))
    if op == 'dominance':
        return 'run_dominance %s' % zlist(c['orders'])
    if op == 'gctx':
        def spec(g):
            return '(%d, [%s])' % (g['via'], '; '.join('(%d, %s, %s)' % (l[0], zlist(l[1]), zlist(ints(l[2])) if len(l) > 2 else '[]')
                                                       for l in g['layers']))
        main = 'None' if c['main'] is None else '(Some %s)' % spec(c['main'])
        paths = '[' + '; '.join('[' + '; '.join('(%d, %d)' % (h, d) for h, d in p) + ']' for p in c['paths']) + ']'
        alts = '(%s : list gspec)' % ('[' + '; '.join(spec(g) for g in c['alts']) + ']')
        return ('((fun (fl : list Z) (mn : option gspec) (al : list gspec) (ps : list (list (Z * Z))) => '
                '(run_gctx fl mn al ps %s %s, run_gctx_est fl mn al ps %s)) %s %s %s %s)' % (
                    zlist(ints(c['a'])), zlist(ints(c['b'])), zlist(ints(c.get('e', []))), zlist(c['flags']), main, alts, paths))


def fvals(bs):
    out = []
    for b in bs:
        x = of_bits(int(b))
        if x != x or x in (float('inf'), float('-inf')) or x != int(x):
            return None
        out.append(int(x))
    return out


def compare(c, impl, model):
    if 'panic' in impl:
        return 'implementation panicked: %s' % impl['panic']
    op = c['op']
    if op == 'choose':
        got = [int(x) for x in impl['chosen']]
        if got != model:
            return 'choose_best_result: impl %s model %s' % (got, model)
        if impl['via_selector'] != impl['chosen']:
            return 'BestResultSelector::select_insertion differs from choose_best_result'
        return None
    if op == 'icost':
        ab, ba, arith, (api, arithf, ident, select) = model
        iapi = [[int(x) for x in row] for row in impl['api']]
        if iapi != api:
            k = next(i for i in range(len(api)) if iapi[i] != api[i])
            return ('api field %d ([cmp,eq,ne,partial_cmp,lt,le,gt,ge] / x[idx] / cmp with max_value, default / iter(from_iter) / max_value / '
                    'default): impl %s model %s' % (k, iapi[k], api[k]))
        if [int(x) for x in impl['into_iter']] != ints(c['a']):
            return 'into_iter does not give back the components'
        for k, name in enumerate(['x+y', 'x-y', '(x+y)-y', '(x-y)+y']):
            got = [int(x) for x in impl['arith'][k]]
            if got != arithf[k]:
                return 'f64 %s: impl %s model %s' % (name, got, arithf[k])
        for k, name in enumerate(['x+default', 'x-default', 'default+x', 'default-x']):
            got = [int(x) for x in impl['ident'][k]]
            if got != ident[k]:
                return 'f64 %s: impl %s model %s' % (name, got, ident[k])
        ow = impl['owned']
        if ow[0] != impl['arith'][0] or ow[2] != impl['arith'][0] or ow[4] != impl['arith'][0] or \
           ow[1] != impl['arith'][1] or ow[3] != impl['arith'][1] or ow[5] != impl['arith'][1]:
            return 'the by-value + / - operators differ bitwise from the by-reference ones'
        if impl['select'] != select:
            return 'select_cost: impl %s model %s' % (impl['select'], select)
        if [impl['cmp']] != ab:
            return 'cmp: impl %s model %s' % (impl['cmp'], ab)
        if impl['eq'] != (ab == [0]):
            return 'eq: impl %s but model cmp %s' % (impl['eq'], ab)
        if c.get('exact'):
            for k, name in enumerate(['add', 'sub', 'addsub', 'subadd']):
                got = fvals(impl[name])
                if got != arith[k]:
                    return '%s: impl %s model %s' % (name, got, arith[k])
        if not impl.get('owned_same', True):
            return 'the by-value + / - operators differ from the by-reference ones'
        return None
    if op == 'icost3':
        got = [impl['ab'], impl['bc'], impl['ac'], impl['ba'], impl['aa']]
        return None if got == model else 'impl %s model %s' % (got, model)
    if op == 'goal':
        got = [impl['ab'], impl['ba'], impl['aa']]
        if got != model:
            return 'impl %s model %s' % (got, model)
        if impl['ab_ctx'] != impl['ab']:
            return 'GoalContext::total_order differs from Goal::total_order'
        if impl['fit_a'] != c['a'] or impl['fit_b'] != c['b']:
            return 'fitness vector not reported in layer order'
        return None
    if op == 'dominance':
        return None if impl['ord'] == model else 'impl %s model %s' % (impl['ord'], model)
    if op == 'gctx':
        model, mest = model
        got = [[int(x) for x in row] for row in impl['obs']]
        if 'err' not in impl:
            gest = [[int(x) for x in row] for row in impl['est']]
            if gest != mest:
                k = next((i for i in range(min(len(gest), len(mest))) if gest[i] != mest[i]), 0)
                return 'estimate, path %s: impl %s model %s' % (c['paths'][k] if k < len(c['paths']) else '?', gest[k:k + 1], mest[k:k + 1])
        if got != model:
            if len(got) != len(model):
                return 'builder: impl %s (%s) model %s' % (got[:1], impl.get('err', ''), model[:1])
            k = next(i for i in range(len(got)) if got[i] != model[i])
            return 'path %s field %d ([ab,ba,aa] / fitness a / fitness b): impl %s model %s' % (c['paths'][k // 3], k % 3, got[k], model[k])
        return None


def oracle(c, impl):
    """the order laws evaluated directly on the implementation's answers"""
    if 'panic' in impl:
        return [{'class': 'panic', 'what': 'comparison panicked: ' + impl['panic']}]
    op = c['op']
    v = []
    if op == 'choose':
        v += oracle_choose(c, impl)
    if op == 'icost':
        v += oracle_icost_api(c, impl)
        if c.get('exact') and impl['addsub_cmp'] != 0:
            v.append({'class': 'addsub', 'what': '(x+y)-y != x on integer-valued cost vectors'})
        if c.get('exact') and impl.get('subadd_cmp', 0) != 0:
            v.append({'class': 'subadd', 'what': '(x-y)+y != x on integer-valued cost vectors'})
        if c['a'] == c['b'] and impl['cmp'] != 0:
            v.append({'class': 'icost-refl', 'what': 'cmp(x,x) != Equal'})
    if op == 'icost3':
        if impl['aa'] != 0:
            v.append({'class': 'icost-refl', 'what': 'cmp(a,a) != Equal'})
        if impl['ab'] != -impl['ba']:
            v.append({'class': 'icost-antisym', 'what': 'cmp(a,b) != reverse cmp(b,a)'})
        if impl['ab'] == impl['bc'] and impl['ac'] != impl['ab']:
            v.append({'class': 'icost-trans', 'what': 'cmp not transitive on (a,b,c)'})
        if impl['ab'] == 0 and impl['ac'] != impl['bc']:
            v.append({'class': 'icost-trans', 'what': 'cmp(a,b)=Equal but cmp(a,c) != cmp(b,c)'})
    if op == 'goal':
        if impl['aa'] != 0:
            v.append({'class': 'goal-refl', 'what': 'total_order(a,a) != Equal'})
        if impl['ab'] != -impl['ba']:
            v.append({'class': 'goal-antisym', 'what': 'total_order(a,b) != reverse total_order(b,a)'})
        if all(l == 1 for l in c['layers']):
            # single layers: must equal lexicographic comparison of the reported fitness, +0 == -0
            ka, kb = [zk(x) for x in impl['fit_a']], [zk(x) for x in impl['fit_b']]
            lex = (ka > kb) - (ka < kb)
            if lex != impl['ab']:
                v.append({'class': 'goal-lex', 'what': 'single-layer goal order differs from lexicographic fitness order'})
    if op == 'gctx' and 'err' not in impl:
        goals = [c['main'], None] + c['alts']        # index 0 the main goal, 1 the built-in heuristic goal, 2.. the configured alternatives
        for qi, path in enumerate(c['paths']):
            cur = 0
            for hit, draw in path:
                if hit:
                    cur = 1 + draw
            who = 'main' if cur == 0 else 'alternative'
            (ab, ba, aa), fa, fb = impl['obs'][3 * qi:3 * qi + 3]
            if aa != 0:
                v.append({'class': 'goal-refl/%s' % who, 'what': 'total_order(a,a) != Equal under the %s goal context' % who})
            if ab != -ba:
                v.append({'class': 'goal-antisym/%s' % who, 'what': 'total_order(a,b) != reverse total_order(b,a) under the %s goal context' % who})
            if spec_single_only(goals[cur]):
                ka, kb = [zk(x) for x in fa], [zk(x) for x in fb]
                lex = (ka > kb) - (ka < kb)
                if len(ka) != len(kb) or lex != ab:
                    v.append({'class': 'goal-lex/%s' % who,
                              'what': 'the %s goal context (single layers, reached by %s) orders %d but the fitness vectors it reports '
                                      'compare %d: %s vs %s' % (who, path, ab, lex, fa, fb)})
    return v


def small_ints(bs):
    """the integer values of the components when all of them are integer-valued doubles of magnitude <= 2^51 (both zeros allowed)"""
    out = []
    for b in bs:
        x = of_bits(int(b))
        if x != x or abs(x) > 2.0**51 or x != int(x):
            return None
        out.append(int(x))
    return out


def pad(xs, n):
    return list(xs) + [0] * (n - len(xs))


def keyvec(bs, n):
    return [tkey(int(b)) for b in pad([int(b) for b in bs], n)]


def tkey(b):
    return b if b < SIGN else -(b - SIGN) - 1


def pycmp(a, b):
    """reference: lexicographic comparison of the total_cmp keys, the shorter vector padded with +0.0"""
    n = max(len(a), len(b))
    ka, kb = keyvec(a, n), keyvec(b, n)
    return (ka > kb) - (ka < kb)


def oracle_icost_api(c, impl):
    v = []
    cmp_, eq, ne, pc, lt, le, gt, ge = [int(x) for x in impl['api'][0]]
    shape = 'equal-length' if len(c['a']) == len(c['b']) else 'different-length'
    if eq != (1 if cmp_ == 0 else 0) or ne != 1 - eq:
        v.append({'class': 'icost-eq-vs-cmp/' + shape, 'what': '== / != of InsertionCost disagree with cmp: cmp %d, eq %d, ne %d' % (cmp_, eq, ne)})
    if pc != cmp_ or [lt, le, gt, ge] != [int(cmp_ < 0), int(cmp_ <= 0), int(cmp_ > 0), int(cmp_ >= 0)]:
        v.append({'class': 'icost-partial-ord-vs-cmp/' + shape,
                  'what': 'partial_cmp / < / <= / > / >= disagree with cmp: cmp %d, partial_cmp %d, [lt,le,gt,ge] %s' % (cmp_, pc, [lt, le, gt, ge])})
    if cmp_ != pycmp(c['a'], c['b']):
        v.append({'class': 'icost-lex/' + shape, 'what': 'cmp is not the lexicographic comparison with missing trailing components counted as zero'})
    if impl['select'][0] != int(cmp_ < 0):
        v.append({'class': 'select-cost-vs-cmp', 'what': 'select_cost prefers the left cost although it is not smaller (or the converse)'})
    # addition and subtraction are inverse up to the sign of zero: integer-valued components (also -0.0) below 2^51
    va, vb = small_ints(c['a']), small_ints(c['b'])
    if va is not None and vb is not None:
        n = max(len(va), len(vb))
        for k, name in ((2, '(x+y)-y'), (3, '(x-y)+y')):
            got = [zk(x) for x in impl['arith'][k]]
            if len(got) != n or got != [zk(x) for x in pad([int(x) for x in c['a']], n)]:
                v.append({'class': 'addsub-signed-zero' if k == 2 else 'subadd-signed-zero',
                          'what': '%s differs from x by more than the sign of a zero on integer-valued cost vectors' % name})
    # Default (no components) is neutral: x - default is x bit for bit, x + default is x up to the sign of zero (NaN-free x)
    if not any(isnan_bits(int(x)) for x in c['a']):
        xa = [int(x) for x in c['a']]
        if [int(x) for x in impl['ident'][1]] != xa:
            v.append({'class': 'default-not-neutral/sub', 'what': 'x - InsertionCost::default() is not x'})
        if [zk(x) for x in impl['ident'][0]] != [zk(x) for x in xa] or [zk(x) for x in impl['ident'][2]] != [zk(x) for x in xa]:
            v.append({'class': 'default-not-neutral/add', 'what': 'x + default (or default + x) differs from x by more than the sign of a zero'})
    return v


def isnan_bits(b):
    return (b & 0x7FFFFFFFFFFFFFFF) > 0x7FF0000000000000


def oracle_choose(c, impl):
    """the chosen result is a success whenever one is offered, and then no offered success is strictly cheaper; among the cheapest the
    first offered one wins"""
    v = []
    offered = [c['init']] + c['rs']
    succ = [r for r in offered if r[0] == 1]
    got = [int(x) for x in impl['chosen']]
    if succ:
        if got[0] != 1:
            return [{'class': 'choose-failure-over-success', 'what': 'a failure was chosen although a success was offered'}]
        cost = got[2:]
        if any(pycmp(r[2], cost) < 0 for r in succ):
            v.append({'class': 'choose-not-minimal', 'what': 'an offered success is strictly cheaper than the chosen one'})
        else:
            first = next(r for r in succ if pycmp(r[2], cost) == 0)
            if first[1] != got[1]:
                v.append({'class': 'choose-tie-order', 'what': 'among equally cheap successes not the first offered one was chosen'})
    elif got[0] != 0:
        v.append({'class': 'choose-success-from-nothing', 'what': 'a success was chosen although none was offered'})
    return v


def zk(b):
    b = int(b)
    if b in (0, SIGN):
        return 0
    return b if b < SIGN else -(b - SIGN) - 1


def nontrivial_key(c, impl):
    if 'panic' in impl:
        return None
    if c['op'] in ('icost', 'icost3'):
        a, b = c['a'], c['b']
        if a and b and a[0] == b[0] or len(a) != len(b) or c.get('exact'):
            return (c['op'], tuple(a), tuple(b), tuple(c.get('c', [])))
        return None
    if c['op'] == 'goal':
        return ('goal', tuple(c['layers']), tuple(c['a']), tuple(c['b'])) if len(c['layers']) > 1 else None
    if c['op'] == 'choose':
        return ('choose', str(c['init']), str(c['rs'])) if sum(1 for r in c['rs'] if r[0] == 1) > 1 else None
    if c['op'] == 'gctx':
        if 'err' in impl:
            return None
        orders = {tuple(impl['obs'][3 * qi]) for qi in range(len(c['paths']))}
        return ('gctx', str(c['main']), str(c['alts']), tuple(c['a']), tuple(c['b'])) if len(orders) > 1 else None
    return ('dom', tuple(c['orders'])) if len(c['orders']) > 1 else None


def classify(c, impl):
    labs = ['op=' + c['op']]
    if c['op'] == 'goal':
        labs.append('goal:' + ('single-only' if all(l == 1 for l in c['layers']) else 'with-multi'))
        if 'panic' not in impl:
            labs.append('goal-order=%s' % impl['ab'])
    if c['op'] == 'gctx' and 'panic' not in impl:
        if 'err' in impl:
            labs.append('gctx:builder-error=%s' % impl['obs'][0][1])
        else:
            labs.append('gctx:alternatives=%d' % (1 + len(c['alts'])))
            if len({tuple(impl['obs'][3 * qi]) for qi in range(len(c['paths']))}) > 1:
                labs.append('gctx:contexts-order-differently')
    if c['op'] == 'icost' and 'panic' not in impl:
        labs.append('icost-order=%s' % impl['cmp'])
        labs.append('icost-lens=%s' % ('equal' if len(c['a']) == len(c['b']) else 'different'))
    return labs

MANIFEST_TEXT = ('Machine-checked proof (Coq, 77 theorems, no axioms) over an executable model of (a) InsertionCost completely: cmp, '
                 'Eq/PartialEq/PartialOrd (all operators), Index, max_value, Default, + and - by value and by reference with f64 '
                 'arithmetic = Coq.Floats.SpecFloat on bit patterns, InsertionResult::choose_best_result, select_cost; (b) every way the '
                 'code configures a goal and hands out a goal context: GoalBuilder add_single/add_multi, Goal simple/subset_of/total_order/'
                 'fitness/estimate, GoalContextBuilder, alternatives (maybe_new, get_alternatives), the pragmatic goal_reader (single '
                 'objectives, multi-objective with `sum` / `weighted-sum`: comparator and estimate) and the vrp-scientific goal contexts. '
                 'Proved for all inputs / all 64-bit patterns: every goal is reflexive and antisymmetric; total_order is a function of '
                 'the reported fitness vector in layer order; goals of single layers (hence every context of the scientific readers, '
                 'every default context, every alternative of a pragmatic context) are total preorders equal to the lexicographic '
                 'comparison of the fitness THEY report with +0/-0 merged; Pareto layers are transitive on their strict part only '
                 '(cycle witness for goals continuing behind such a layer); InsertionCost is a lexicographic zero-padded total order, '
                 '== and the comparison operators agree with cmp; + / - are componentwise with +0.0 padding, Default is neutral at the '
                 'f64 level; IEEE + and - are exact on integer-valued doubles below 2^53 (proved on SpecFloat without real numbers), so '
                 'the f64 operators refine the Z model and (x+y)-y==x, (x-y)+y==x hold bit for bit on integer-valued vectors below 2^52 '
                 'and up to the sign of zero with -0.0 components (refuted for all doubles: absorption); choose_best_result keeps the '
                 'leftmost cheapest success. The model is hand-written and tied to /repo on '
                 'every run by evaluating it inside Coq (vm_compute) on the same generated inputs as the real code (core API, real '
                 'pragmatic and scientific readers on small documents) and diffing bit patterns; the laws are also evaluated '
                 'directly on the implementation outputs.')
MANIFEST_NOTE = ('Trusted: Coq kernel + vm_compute; the harness and generators; total_cmp key model and the SpecFloat model of f64 + - * '
                 '(both validated bit for bit each run). (x+y)-y==x is proved over Z and at the f64 level on integer-valued doubles below 2^52 '
                 '(exactness of + and - proved for the SpecFloat model); it is false for general floats (absorption) and not claimed there. '
                 'Observations recorded, not findings: a multi-objective layer over ONE objective keeps -0.0 below +0.0 (add_single merges '
                 'them); max_value is not a top element (+inf, NaN, [MAX, x>0] are above it); == of InsertionCost is bit-pattern equality '
                 'after zero padding. Modelled not verified: Rust/TinyVec semantics, get_alternatives (crate-private).')
MANIFEST_TECHNIQUE = 'Coq proof over executable model + vm_compute differential correspondence with the Rust implementation'
