"""Shared pieces for the properties built on the core tour model (C06, C20, C15, C01, ...):
case generation (world, tour, job), Gallina rendering, and an independent Python re-implementation of the
step-by-step simulation (the oracle; cross-checked against the Coq `feasible` on every case)."""
from coqterm import z, zlist, lst, nat

INF = 2 ** 60


def tz(x):
    """time value from a case: int or 'inf'"""
    return INF if x == 'inf' else int(x)


def tout(x):
    """canonical form of a model-side time: values >= INF/2 mean 'inf'"""
    return 'inf' if isinstance(x, int) and x >= INF // 2 else x


# ---------------------------------------------------------------- generation
def gen_world(rng, nmax=6, metric=None):
    n = rng.range(3, nmax)
    if metric is None:
        metric = rng.chance(2, 3)
    if metric:
        xs = [(rng.range(0, 30), rng.range(0, 30)) for _ in range(n)]
        base = [[abs(xs[i][0] - xs[j][0]) + abs(xs[i][1] - xs[j][1]) for j in range(n)] for i in range(n)]
        dur = [base[i][j] for i in range(n) for j in range(n)]
        dist = [2 * base[i][j] + (1 if i < j else 0) * (base[i][j] > 0) for i in range(n) for j in range(n)]
    else:
        dur = [0 if i == j else rng.range(0, 40) for i in range(n) for j in range(n)]
        dist = [0 if i == j else rng.range(0, 60) for i in range(n) for j in range(n)]
    closed = rng.chance(7, 10)
    shift_start = rng.choice([0, 0, 50, 100])
    if closed:
        shift_end = rng.choice(['inf', shift_start + rng.range(60, 500), shift_start + rng.range(150, 400)])
        end = rng.choice([0, 0, rng.below(n)])
    else:
        shift_end = 'inf'
        end = None
    costs = [rng.range(0, 50), rng.range(0, 3), rng.range(0, 3), rng.range(0, 2), rng.range(0, 2)]
    veh = {'start': 0, 'end': end, 'shift_start': shift_start, 'shift_end': shift_end, 'cap': rng.range(4, 20),
           'costs': costs}
    return {'n': n, 'dur': dur, 'dist': dist, 'veh': veh}


def gen_tour(rng, w, maxlen=5, tight=False):
    """mostly feasible tour: windows are placed around the simulated arrival"""
    n = w['n']
    k = rng.below(maxlen + 1)
    acts = []
    loc, dep = w['veh']['start'], w['veh']['shift_start']
    pend = []   # pending dynamic deliveries
    jid = 1
    for _ in range(k):
        l = rng.below(n)
        arr = dep + w['dur'][loc * n + l]
        svc = rng.choice([0, 0, 3, 10])
        kind = rng.below(10)
        if kind < 3:
            tws, twe = 0, 'inf'
        elif kind < 7:
            slack = rng.range(0, 6 if tight else 40)
            tws = max(0, arr - rng.range(0, 30))
            twe = arr + slack
        elif kind < 9:
            tws = arr + rng.range(1, 25)      # waiting
            twe = tws + rng.range(0, 40)
        else:
            tws = max(0, arr - 40)
            twe = max(tws, arr - rng.range(1, 10)) if rng.chance(1, 3) else arr    # sometimes late (infeasible tour)
        d = rng.below(10)
        if pend and rng.chance(1, 2):
            dem = [0, 0, 0, pend.pop()]
        elif d < 4:
            dem = [0, 0, rng.range(1, 5), 0]
        elif d < 7:
            dem = [rng.range(1, 5), 0, 0, 0]
        elif d < 8:
            q = rng.range(1, 4)
            dem = [0, q, 0, 0]
            pend.append(q)
        else:
            dem = [0, 0, 0, 0]
        acts.append({'job': jid, 'loc': l, 'svc': svc, 'tws': tws, 'twe': twe, 'dem': dem})
        jid += 1
        loc, dep = l, max(arr, tws) + svc
    return acts


def gen_single(rng, w, tour, jid=90, multi_alt=True):
    n = w['n']
    horizon = w['veh']['shift_start'] + 60 * (len(tour) + 1)
    se = w['veh']['shift_end']
    nplaces = 1 if (not multi_alt or rng.chance(7, 10)) else 2
    places = []
    for _ in range(nplaces):
        nw = 1 if (not multi_alt or rng.chance(6, 10)) else rng.range(2, 3)
        tws = []
        for _ in range(nw):
            k = rng.below(10)
            if k < 3:
                tws.append([0, 'inf'])
            elif k < 8:
                a = rng.range(0, horizon)
                tws.append([a, a + rng.range(0, 80)])
            elif se != 'inf':
                a = se + rng.range(1, 50)     # starts after the shift end
                tws.append([a, a + rng.range(0, 50)])
            else:
                a = rng.range(0, horizon)
                tws.append([a, 'inf'])
        loc = None if rng.chance(1, 10) else rng.below(n)
        places.append({'loc': loc, 'svc': rng.choice([0, 0, 4, 12]), 'tws': tws})
    k = rng.below(12)
    if k < 4:
        dem = [0, 0, rng.range(1, 8), 0]
    elif k < 8:
        dem = [rng.range(1, 8), 0, 0, 0]
    elif k < 10:
        dem = [0, 0, 0, 0]
    else:
        dem = [rng.range(1, 8), 0, rng.range(1, 8), 0]    # exchange stop: static pickup and static delivery (as merged jobs have)
    return {'id': jid, 'places': places, 'dem': dem}


def latest_list(c, t):
    """python twin of the cached latest-arrival values, per activity index (None for the start)"""
    n = c['n']
    L = [None] * len(t)
    for i in range(len(t) - 1, 0, -1):
        if i == len(t) - 1:
            L[i] = t[i]['twe']
        else:
            L[i] = min(t[i]['twe'], L[i + 1] - c['dur'][t[i]['loc'] * n + t[i + 1]['loc']] - t[i]['svc'])
    return L


def gen_boundary_single(rng, w, tour, jid=90):
    """single place / single window job whose window edges sit on the decision boundaries of one leg"""
    c = dict(w)
    t = full_tour(c, tour)
    n = w['n']
    _, _, sched, _ = simulate(c, t)
    idx = rng.below(leg_count(c, t))
    loc = rng.below(n)
    svc = rng.choice([0, 3, 7])
    arr = sched[idx][1] + w['dur'][t[idx]['loc'] * n + loc]
    cands = [arr]
    if idx + 1 < len(t):
        L = latest_list(c, t)[idx + 1]
        if L < INF // 2:
            crit = L - w['dur'][loc * n + t[idx + 1]['loc']] - svc
            cands += [crit, crit, crit]
    base = rng.choice(cands)
    tws = max(0, base + rng.range(-2, 2))
    twe = max(tws, rng.choice([arr, base, tws]) + rng.range(-2, 3)) if rng.chance(3, 4) else 'inf'
    # demand near the capacity boundary
    cap = w['veh']['cap']
    loads = []
    load = sum(a['dem'][2] for a in t)
    for a in t:
        load += a['dem'][0] + a['dem'][1] - a['dem'][2] - a['dem'][3]
        loads.append(load)
    k = rng.below(4)
    if k == 0:
        q = max(1, cap - max([0] + loads[:idx + 1]) + rng.range(-1, 1))
        dem = [0, 0, q, 0]
    elif k == 1:
        q = max(1, cap - max(loads[idx:]) + rng.range(-1, 1))
        dem = [q, 0, 0, 0]
    elif k == 2:
        dem = [0, 0, 0, 0]
    else:
        # exchange stop with both amounts at their own boundary
        qd = max(1, cap - max([0] + loads[:idx + 1]) + rng.range(-1, 0))
        qp = max(1, cap - max(loads[idx:]) + rng.range(-1, 1))
        dem = [qp, 0, qd, 0]
    return {'id': jid, 'places': [{'loc': loc, 'svc': svc, 'tws': [[tws, twe]]}], 'dem': dem}


def gen_multi(rng, w, tour, jid=95):
    q = rng.range(1, 6)
    a = gen_single(rng, w, tour, jid * 10 + 1, multi_alt=False)
    b = gen_single(rng, w, tour, jid * 10 + 2, multi_alt=False)
    a['dem'] = [0, q, 0, 0]
    b['dem'] = [0, 0, 0, q]
    for s in (a, b):
        for p in s['places']:
            if p['loc'] is None:
                p['loc'] = rng.below(w['n'])
    return {'id': jid, 'multi': [a, b]}


# ---------------------------------------------------------------- Gallina rendering
def g_demand(d):
    return '(mkDemand %s %s %s %s)' % tuple(z(x) for x in d)


def g_tact(a):
    return '(%s, %s, %s, %s, %s, %s)' % (z(a['job']), z(a['loc']), z(tz(a['svc'])), z(tz(a['tws'])), z(tz(a['twe'])),
                                         g_demand(a['dem']))


def g_world(c):
    v = c['veh']
    veh = '(mkVeh %s %s %s %s %s %s %s)' % (z(tz(v['shift_end'])), z(v['cap']), *[z(x) for x in v['costs']])
    end = 'None' if v['end'] is None else '(Some %s)' % z(v['end'])
    return '(mkWorld %s %s %s %s %s %s %s)' % (z(c['n']), zlist(c['dur']), zlist(c['dist']), veh, z(v['start']), end,
                                               z(v['shift_start']))


def g_place(p):
    loc = 'None' if p['loc'] is None else '(Some %s)' % z(p['loc'])
    return '(mkPlace %s %s %s)' % (loc, z(tz(p['svc'])), lst(p['tws'], lambda w: '(%s, %s)' % (z(tz(w[0])), z(tz(w[1])))))


def g_single(j):
    return '(mkSingle %s %s %s)' % (z(j['id']), lst(j['places'], g_place), g_demand(j['dem'] or [0, 0, 0, 0]))


def g_pos(p):
    if p == 'any':
        return 'PAny'
    if p == 'last':
        return 'PLast'
    return '(PConcrete %s)' % nat(p[1])


# ---------------------------------------------------------------- independent simulation (oracle)
def full_tour(c, acts):
    """list of dicts loc, svc, tws, twe, dem for start + acts (+ end)"""
    v = c['veh']
    t = [{'loc': v['start'], 'svc': 0, 'tws': v['shift_start'], 'twe': v['shift_start'], 'dem': [0, 0, 0, 0], 'term': True}]
    for a in acts:
        t.append({'loc': a['loc'], 'svc': tz(a['svc']), 'tws': tz(a['tws']), 'twe': tz(a['twe']), 'dem': a['dem'],
                  'term': False})
    if v['end'] is not None:
        t.append({'loc': v['end'], 'svc': 0, 'tws': 0, 'twe': tz(v['shift_end']), 'dem': [0, 0, 0, 0], 'term': True})
    return t


def simulate(c, t):
    """step-by-step: returns (time_ok, load_ok, schedule[(arr, dep)], total distance)"""
    n = c['n']
    loc, dep = t[0]['loc'], c['veh']['shift_start']
    sched = [(dep, dep)]
    time_ok = True
    dist = 0
    for a in t[1:]:
        arr = dep + c['dur'][loc * n + a['loc']]
        dist += c['dist'][loc * n + a['loc']]
        if arr > a['twe']:
            time_ok = False
        dep = max(arr, a['tws']) + a['svc']
        sched.append((arr, dep))
        loc = a['loc']
    cap = c['veh']['cap']
    load = sum(a['dem'][2] for a in t)
    load_ok = load <= cap
    for a in t:
        load += a['dem'][0] + a['dem'][1] - a['dem'][2] - a['dem'][3]
        if load > cap:
            load_ok = False
    return time_ok, load_ok, sched, dist


def feasible(c, t):
    a, b, _, _ = simulate(c, t)
    return a and b


def leg_count(c, t):
    if len(t) == 1:
        return 1
    return len(t) - 1 if c['veh']['end'] is not None else len(t)


def target_of(job, prev, place, win):
    return {'loc': prev['loc'] if place['loc'] is None else place['loc'], 'svc': tz(place['svc']), 'tws': tz(win[0]),
            'twe': tz(win[1]), 'dem': job['dem'] or [0, 0, 0, 0], 'term': False}


def alternatives(c, t, job):
    """[(idx, place idx, tws, twe, feasible)] in the evaluator's iteration order"""
    out = []
    for idx in range(leg_count(c, t)):
        for pi, p in enumerate(job['places']):
            for w in p['tws']:
                x = target_of(job, t[idx], p, w)
                t2 = t[:idx + 1] + [x] + t[idx + 1:]
                out.append((idx, pi, tz(w[0]), tz(w[1]), feasible(c, t2)))
    return out
