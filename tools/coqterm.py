"""Parser for the terms Coq prints after `Eval vm_compute in ...` (lists, tuples, numbers,
constructor applications, strings) into Python values, and renderers from Python values to Gallina.

parse: numbers -> int; [a; b] -> list; (a, b, c) -> tuple; "s" -> str;
       bare identifier -> str (e.g. 'true', 'None', 'Eq'); application `C a b` -> ('C', a, b).
"""
import re

_scope = re.compile(r'%(Z|N|nat|positive|string|float|Q|char|list|type)\b')
_tok = re.compile(r'\s*(?:(-?\d+)|("(?:[^"]|"")*")|([A-Za-z_][A-Za-z0-9_\'.]*)|(.))', re.S)


def tokenize(s):
    s = _scope.sub('', s)
    out = []
    pos = 0
    while pos < len(s):
        m = _tok.match(s, pos)
        if not m:
            break
        pos = m.end()
        if m.group(1) is not None:
            out.append(('num', int(m.group(1))))
        elif m.group(2) is not None:
            out.append(('str', m.group(2)[1:-1].replace('""', '"')))
        elif m.group(3) is not None:
            out.append(('id', m.group(3)))
        elif m.group(4) is not None and not m.group(4).isspace():
            out.append(('p', m.group(4)))
    return out


class _P:
    def __init__(self, toks):
        self.t = toks
        self.i = 0

    def peek(self):
        return self.t[self.i] if self.i < len(self.t) else ('eof', None)

    def eat(self, kind=None, val=None):
        k, v = self.peek()
        if kind and (k != kind or (val is not None and v != val)):
            raise ValueError('parse error at token %d: expected %s %s got %s %s' % (self.i, kind, val, k, v))
        self.i += 1
        return v

    def atom_start(self):
        k, v = self.peek()
        return k in ('num', 'str', 'id') or (k == 'p' and v in '([-')

    def term(self):
        head = self.atom()
        args = []
        while self.atom_start() and not (self.peek() == ('p', '-')):
            args.append(self.atom())
        if args:
            return tuple([head] + args)
        return head

    def atom(self):
        k, v = self.peek()
        if k == 'num':
            self.i += 1
            return v
        if k == 'str':
            self.i += 1
            return v
        if k == 'id':
            self.i += 1
            return v
        if k == 'p' and v == '-':
            self.i += 1
            n = self.eat('num')
            return -n
        if k == 'p' and v == '(':
            self.i += 1
            items = [self.term()]
            while self.peek() == ('p', ','):
                self.i += 1
                items.append(self.term())
            self.eat('p', ')')
            return items[0] if len(items) == 1 else tuple(['#tuple'] + items)
        if k == 'p' and v == '[':
            self.i += 1
            items = []
            if self.peek() != ('p', ']'):
                items.append(self.term())
                while self.peek() == ('p', ';'):
                    self.i += 1
                    items.append(self.term())
            self.eat('p', ']')
            return items
        raise ValueError('unexpected token %s %s at %d' % (k, v, self.i))


def _untuple(x):
    if isinstance(x, tuple):
        if x and x[0] == '#tuple':
            return tuple(_untuple(y) for y in x[1:])
        return tuple(_untuple(y) for y in x)
    if isinstance(x, list):
        return [_untuple(y) for y in x]
    return x


def parse(s):
    p = _P(tokenize(s))
    v = p.term()
    if p.peek()[0] != 'eof':
        raise ValueError('trailing tokens in %r' % s[:200])
    return _untuple(v)


def parse_eval_output(text):
    """Split coqc stdout into the values of successive `Eval ... in` commands."""
    vals = []
    cur = None
    for line in text.splitlines():
        if line.startswith('     = '):
            if cur is not None:
                vals.append(cur)
            cur = line[7:]
        elif line.startswith('     : '):
            if cur is not None:
                vals.append(cur)
                cur = None
        elif cur is not None:
            cur += ' ' + line.strip()
    if cur is not None:
        vals.append(cur)
    return [parse(v) for v in vals]


# ---------- rendering Python -> Gallina ----------
def z(n):
    n = int(n)
    return '(%d)' % n if n < 0 else '%d' % n


def zlist(xs):
    return '[' + '; '.join(z(x) for x in xs) + ']'


def lst(xs, f=str):
    return '[' + '; '.join(f(x) for x in xs) + ']'


def nat(n):
    return '%d%%nat' % int(n)


def boolean(b):
    return 'true' if b else 'false'


def opt(x, f=str):
    return 'None' if x is None else '(Some %s)' % f(x)


def string(s):
    return '"' + s.replace('"', '""') + '"%string'
