#!/usr/bin/env python3
"""Driver of the /verif checks.  usage:
     verif.py --setup
     verif.py Cxx quick|thorough
     verif.py Cxx --replay FILE
See DESIGN.md section 1 for the life of one check and section 4 for the verdict rules."""
import sys, os, json, time, subprocess, hashlib, importlib, fcntl, re, glob, shutil, traceback
from concurrent.futures import ThreadPoolExecutor

ROOT = os.path.dirname(os.path.dirname(os.path.abspath(__file__)))
sys.path.insert(0, os.path.join(ROOT, 'tools'))
import coqterm  # noqa

REPO = os.environ.get('VERIF_REPO', '/repo')
# the VERIF_* overrides exist only for tools/mutant.sh (sensitivity runs against a scratch copy of /repo)
BUILD = os.environ.get('VERIF_BUILD', os.path.join(ROOT, 'build'))
COQ = os.environ.get('VERIF_COQ', os.path.join(ROOT, 'coq'))
HARNESS = os.environ.get('VERIF_HARNESS', os.path.join(ROOT, 'harness'))
CARGO_TARGET = os.path.join(BUILD, 'cargo')
EVIDENCE = os.environ.get('VERIF_EVIDENCE', os.path.join(ROOT, 'evidence'))
REPLAY = os.environ.get('VERIF_REPLAY', os.path.join(ROOT, 'replay'))
GUARD = 'reinterpretcat_vrp_verif'
ALLOWED_AXIOMS = {
    # standard-library axioms a theorem may depend on (each use is listed in the evidence);
    # the development itself declares none
    'FunctionalExtensionality.functional_extensionality_dep',
    'functional_extensionality_dep',
    'Eqdep.Eq_rect_eq.eq_rect_eq', 'eq_rect_eq',
    'ProofIrrelevance.proof_irrelevance', 'proof_irrelevance',
    'JMeq.JMeq_eq', 'JMeq_eq',
    'Classical_Prop.classic', 'classic',
    # the standard library's axioms of the classical real numbers (Reals / Flocq; used by the f64-level theorems of C18)
    'ClassicalDedekindReals.sig_forall_dec', 'sig_forall_dec',
    'ClassicalDedekindReals.sig_not_dec', 'sig_not_dec',
}
FORBIDDEN = re.compile(r'\b(Admitted|admit|Axiom|Axioms|Parameter|Parameters|Conjecture|Conjectures|Admit Obligations|'
                       r'Unset Guard Checking|Unset Positivity Checking|Unset Universe Checking|bypass_check|'
                       r'type-in-type|impredicative-set|give_up)\b')


class SplitMix:
    """The one PRNG of the framework: every random choice derives from VERIF_SEED through it."""

    def __init__(self, seed):
        self.s = seed & 0xFFFFFFFFFFFFFFFF

    def next(self):
        self.s = (self.s + 0x9E3779B97F4A7C15) & 0xFFFFFFFFFFFFFFFF
        z = self.s
        z = ((z ^ (z >> 30)) * 0xBF58476D1CE4E5B9) & 0xFFFFFFFFFFFFFFFF
        z = ((z ^ (z >> 27)) * 0x94D049BB133111EB) & 0xFFFFFFFFFFFFFFFF
        return z ^ (z >> 31)

    def below(self, n):
        return self.next() % n if n > 0 else 0

    def range(self, lo, hi):
        """inclusive"""
        return lo + self.below(hi - lo + 1)

    def choice(self, xs):
        return xs[self.below(len(xs))]

    def chance(self, num, den):
        return self.below(den) < num

    def shuffle(self, xs):
        xs = list(xs)
        for i in range(len(xs) - 1, 0, -1):
            j = self.below(i + 1)
            xs[i], xs[j] = xs[j], xs[i]
        return xs

    def fork(self, tag):
        h = int.from_bytes(hashlib.sha256(('%d/%s' % (self.s, tag)).encode()).digest()[:8], 'big')
        return SplitMix(h)


def log(*a):
    print(*a, file=sys.stderr, flush=True)


def run(cmd, cwd=None, env=None, timeout=None, capture=True):
    e = dict(os.environ)
    if env:
        e.update(env)
    p = subprocess.run(cmd, cwd=cwd, env=e, timeout=timeout, stdout=subprocess.PIPE if capture else None,
                       stderr=subprocess.STDOUT if capture else None, text=True)
    return p.returncode, (p.stdout or '')


class Lock:
    def __init__(self, name='lock'):
        os.makedirs(BUILD, exist_ok=True)
        self.path = os.path.join(BUILD, '.' + name)

    def __enter__(self):
        self.f = open(self.path, 'w')
        fcntl.flock(self.f, fcntl.LOCK_EX)

    def __exit__(self, *a):
        fcntl.flock(self.f, fcntl.LOCK_UN)
        self.f.close()


# ---------------------------------------------------------------- builds
def cargo_env():
    return {'CARGO_TARGET_DIR': CARGO_TARGET, 'RUSTFLAGS': '--cfg %s -Awarnings' % GUARD, 'CARGO_NET_OFFLINE': 'true'}


def build_harness(binname, profile='dev'):
    """Rebuild the harness (and thereby the /repo crates it depends on by path) from the current tree."""
    with Lock('cargo'):
        lockfile = os.path.join(HARNESS, 'Cargo.lock')
        src_lock = os.path.join(REPO, 'Cargo.lock')
        if not os.path.exists(lockfile):
            shutil.copy(src_lock, lockfile)
        cmd = ['cargo', 'build', '--offline', '--quiet', '--bin', binname] + (['--release'] if profile == 'release' else [])
        rc, out = run(cmd, cwd=HARNESS, env=cargo_env(), timeout=3000)
        if rc != 0 and 'lock file' in out:
            shutil.copy(src_lock, lockfile)
            rc, out = run(cmd, cwd=HARNESS, env=cargo_env(), timeout=3000)
    exe = os.path.join(CARGO_TARGET, 'release' if profile == 'release' else 'debug', binname)
    return rc, out, exe


def coq_makefile():
    """Makefile from _CoqProject restricted to the listed files that exist (a listed file that is missing - generated files before
    the first regeneration, a file another session is about to add - must not stop the targets that do not depend on it; a target
    that does depend on it fails in make as before)."""
    mk = os.path.join(COQ, 'Makefile')
    proj = os.path.join(COQ, '_CoqProject')
    eff = os.path.join(COQ, '_CoqProject.build')
    lines = [l for l in open(proj) if not l.strip().endswith('.v') or os.path.exists(os.path.join(COQ, l.strip()))]
    txt = ''.join(lines)
    if not os.path.exists(mk) or not os.path.exists(eff) or open(eff).read() != txt:
        with open(eff, 'w') as fh:
            fh.write(txt)
        rc, out = run(['coq_makefile', '-f', '_CoqProject.build', '-o', 'Makefile'], cwd=COQ)
        if rc != 0:
            raise RuntimeError('coq_makefile failed: ' + out)


def coq_make(targets, timeout=1500):
    with Lock('coq'):
        coq_makefile()
        rc, out = run(['timeout', str(timeout), 'make', '-j16'] + targets, cwd=COQ, timeout=timeout + 30)
    return rc, out


def coq_eval_file(path, timeout=600):
    rc, out = run(['timeout', str(timeout), 'coqc', '-noglob', '-Q', os.path.join(COQ, 'theories'), 'VRP',
                   '-w', '-all', path], cwd=os.path.dirname(path), timeout=timeout + 30)
    return rc, out


# ---------------------------------------------------------------- proof obligations
def property_theorems(pid):
    path = os.path.join(COQ, 'theories', 'Properties', pid + '.v')
    src = open(path).read()
    src_nc = re.sub(r'\(\*.*?\*\)', '', src, flags=re.S)
    return re.findall(r'^\s*(?:Theorem|Corollary)\s+([A-Za-z0-9_\']+)', src_nc, flags=re.M), path


def audit_sources():
    """grep audit over the whole development: no Admitted / Axiom / Parameter / unsafe flags."""
    bad = []
    for p in glob.glob(os.path.join(COQ, '**', '*.v'), recursive=True) + [os.path.join(COQ, '_CoqProject')]:
        txt = open(p).read()
        if p.endswith('.v'):
            txt = re.sub(r'\(\*.*?\*\)', '', txt, flags=re.S)
        for m in FORBIDDEN.finditer(txt):
            bad.append('%s: %s' % (os.path.relpath(p, ROOT), m.group(0)))
    return bad


def check_proofs(pid, wd, extra_targets=()):
    """make the property's .vo closure; audit; Print Assumptions of every theorem.
       returns dict(ok, obligations, discharged, failures[], assumptions{thm: [axioms]})"""
    thms, path = property_theorems(pid)
    res = {'ok': True, 'obligations': len(thms), 'discharged': 0, 'failures': [], 'assumptions': {}, 'theorems': thms}
    t0 = time.time()
    rc, out = coq_make(['theories/Properties/%s.vo' % pid] + list(extra_targets))
    res['make_s'] = round(time.time() - t0, 1)
    if rc != 0:
        res['ok'] = False
        m = re.findall(r'File "([^"]+)", line (\d+).*?\n(?:Error:|.*?Error:)\s*(.*?)(?:\n\n|\Z)', out, flags=re.S)
        res['failures'].append({'kind': 'make', 'detail': out[-3000:], 'where': m[:3]})
        return res
    bad = audit_sources()
    if bad:
        res['ok'] = False
        res['failures'].append({'kind': 'audit', 'detail': bad[:20]})
        return res
    # Print Assumptions, fresh on every run (the .vo may be cached)
    f = os.path.join(wd, 'assumptions.v')
    with open(f, 'w') as fh:
        fh.write('From VRP Require Import Properties.%s.\n' % pid)
        for t in thms:
            fh.write('Print Assumptions %s.\n' % t)
    rc, out = coq_eval_file(f)
    if rc != 0:
        res['ok'] = False
        res['failures'].append({'kind': 'assumptions', 'detail': out[-2000:]})
        return res
    blocks = re.split(r'(?=Closed under the global context|Axioms:)', out)
    blocks = [b for b in blocks if b.startswith('Closed') or b.startswith('Axioms:')]
    if len(blocks) != len(thms):
        res['ok'] = False
        res['failures'].append({'kind': 'assumptions', 'detail': 'expected %d blocks, got %d: %s' % (len(thms), len(blocks), out[-1500:])})
        return res
    for t, b in zip(thms, blocks):
        if b.startswith('Closed'):
            res['assumptions'][t] = []
            res['discharged'] += 1
        else:
            names = re.findall(r'^([A-Za-z_][A-Za-z0-9_.\']*)\s*:', b[len('Axioms:'):], flags=re.M)
            res['assumptions'][t] = names
            notallowed = [n for n in names if n not in ALLOWED_AXIOMS and not n.startswith('PrimFloat.')
                          and not n.startswith('Uint63.') and not n.startswith('FloatAxioms.')
                          and not n.startswith('PrimInt63.') and not n.startswith('Sint63.')]
            if notallowed:
                res['ok'] = False
                res['failures'].append({'kind': 'axiom', 'theorem': t, 'detail': notallowed})
            else:
                res['discharged'] += 1
    return res


# ---------------------------------------------------------------- correspondence
def run_harness(exe, name, cases, wd, tag='cases', timeout=3000):
    cf = os.path.join(wd, tag + '.jsonl')
    of = os.path.join(wd, tag + '.impl.jsonl')
    with open(cf, 'w') as fh:
        for c in cases:
            fh.write(json.dumps(c) + '\n')
    if os.path.exists(of):
        os.remove(of)
    rc, out = run([exe, cf, of], timeout=timeout, env={'RAYON_NUM_THREADS': os.environ.get('RAYON_NUM_THREADS', '4')})
    res = {}
    if os.path.exists(of):
        for line in open(of):
            r = json.loads(line)
            res[r['id']] = r
    if rc != 0:
        log('harness exit %d: %s' % (rc, out[-2000:]))
    return res, rc, out


def run_model(prop, cases, wd, tag='cases', shard=250, impl=None):
    """Evaluate the model on the cases inside Coq (vm_compute). returns {id: value or ('#error', msg)}"""
    shard = getattr(prop, 'SHARD', shard)
    if getattr(prop, 'MODEL_NEEDS_IMPL', False):
        def ires(c):
            i = (impl or {}).get(c['id'])
            if i is None:
                return {'panic': 'no result'}
            return {'panic': i['panic']} if 'panic' in i else i['res']
        items = [(c['id'], prop.model_term(c, ires(c))) for c in cases]
    else:
        items = [(c['id'], prop.model_term(c)) for c in cases]
    items = [(i, t) for i, t in items if t is not None]
    shards = [items[k:k + shard] for k in range(0, len(items), shard)]
    results = {}

    def one(k):
        f = os.path.join(wd, '%s_m%d.v' % (tag, k))
        with open(f, 'w') as fh:
            fh.write(prop.COQ_IMPORTS + '\n')
            fh.write('Set Printing Width 1000000.\nSet Printing Depth 1000000.\n')
            for _, t in shards[k]:
                fh.write('Eval vm_compute in (%s).\n' % t)
        rc, out = coq_eval_file(f)
        if rc != 0:
            return k, None, out
        try:
            vals = coqterm.parse_eval_output(out)
        except Exception as e:  # noqa
            return k, None, 'parse error: %s\n%s' % (e, out[:2000])
        if len(vals) != len(shards[k]):
            return k, None, 'expected %d values, got %d\n%s' % (len(shards[k]), len(vals), out[:2000])
        return k, vals, out

    # 16 parallel coqc on an idle machine; fewer when the machine is already loaded (several checks running at once)
    try:
        load = os.getloadavg()[0]
    except OSError:
        load = 0.0
    workers = int(os.environ.get('VERIF_JOBS') or (16 if load < 20 else 6 if load < 48 else 3))
    with ThreadPoolExecutor(max_workers=max(1, workers)) as ex:
        for k, vals, out in ex.map(one, range(len(shards))):
            if vals is None:
                for i, _ in shards[k]:
                    results[i] = ('#error', out[-1500:])
            else:
                for (i, _), v in zip(shards[k], vals):
                    results[i] = v
    return results


def jhash(x):
    return hashlib.sha256(json.dumps(x, sort_keys=True, default=str).encode()).hexdigest()[:16]


def load_known():
    p = os.path.join(ROOT, 'known_findings.json')
    if not os.path.exists(p):
        return []
    return json.load(open(p)).get('entries', [])


def write_replay(pid, payload):
    d = REPLAY
    os.makedirs(d, exist_ok=True)
    path = os.path.join(d, '%s-%s.json' % (pid, jhash(payload)))
    with open(path, 'w') as fh:
        json.dump(payload, fh, indent=1, default=str)
    return path


def load_corpus(pid):
    out = []
    for p in sorted(glob.glob(os.path.join(ROOT, 'corpus', pid, '*.json'))):
        try:
            d = json.load(open(p))
            cs = d if isinstance(d, list) else d.get('cases', [d.get('case')] if d.get('case') else [])
            for c in cs:
                if c:
                    out.append(c)
        except Exception as e:  # noqa
            log('corpus file %s unreadable: %s' % (p, e))
    return out


class Verdict:
    def __init__(self, pid):
        self.pid = pid
        self.violations = []      # (replay_path, suffix)
        self.known_hits = {}      # finding id -> count
        self.lines = []

    def violation(self, replay, nofail=False):
        self.violations.append((replay, nofail))


def campaign(prop, exe, wd, cases, tag, verdict, known, stats, do_model=True):
    """Run implementation + model on cases, compare, evaluate oracle. Returns list of disagreements."""
    for k, c in enumerate(cases):
        c['id'] = '%s%d' % (tag, k)
    impl, rc, out = run_harness(exe, prop.HARNESS, cases, wd, tag)
    if rc != 0 and not impl:
        raise RuntimeError('harness failed: ' + out[-2000:])
    model = run_model(prop, cases, wd, tag, impl=impl) if do_model else {}
    disagreements = []
    for c in cases:
        i = impl.get(c['id'])
        if i is None:
            i = {'id': c['id'], 'panic': 'harness produced no result (process died?)'}
        ires = {'panic': i['panic']} if 'panic' in i else i['res']
        stats['evaluations'] += 1
        try:
            nk = prop.nontrivial_key(c, ires)
        except Exception:
            nk = None
        if nk is not None:
            stats['nontrivial'].add(jhash(nk))
        if hasattr(prop, 'classify'):
            try:
                for lab in prop.classify(c, ires):
                    stats['dist'][lab] = stats['dist'].get(lab, 0) + 1
            except Exception:
                pass
        # property predicate on the implementation's own output
        try:
            viols = prop.oracle(c, ires) or []
        except Exception as e:  # noqa
            viols = [{'class': 'oracle-crash', 'what': 'oracle raised %r' % (e,)}]
        if isinstance(viols, dict):
            viols = [viols]
        viols = list(viols)
        # property predicate evaluated by the (verified) Coq checker on the implementation's output
        if hasattr(prop, 'oracle_model') and c['id'] in model:
            m0 = model[c['id']]
            if not (isinstance(m0, tuple) and m0 and m0[0] == '#error'):
                try:
                    mv = prop.oracle_model(c, ires, m0) or []
                except Exception as e:  # noqa
                    mv = [{'class': 'oracle-crash', 'what': 'oracle_model raised %r' % (e,)}]
                viols += [mv] if isinstance(mv, dict) else list(mv)
        for v in viols:
            fid = match_known(prop, known, c, ires, v)
            if fid:
                verdict.known_hits[fid] = verdict.known_hits.get(fid, 0) + 1
                stats['known_samples'].setdefault(fid, {'case': c, 'impl': ires, 'what': v})
            else:
                if len(verdict.violations) >= 25:
                    verdict.extra = getattr(verdict, 'extra', 0) + 1
                    continue
                small = shrink_case(prop, exe, wd, c, v) if len(verdict.violations) < 3 else c
                rp = write_replay(prop.ID, {'property': prop.ID, 'kind': 'oracle-violation', 'what': v, 'case': small,
                                            'original_case': c, 'impl': ires, 'seed': stats['seed'],
                                            'stream': getattr(prop, 'STREAM', None)})
                verdict.violation(rp)
        # correspondence
        if c['id'] in model:
            m = model[c['id']]
            stats['traces'] += 1
            if isinstance(m, tuple) and m and m[0] == '#error':
                d = 'model evaluation failed: ' + str(m[1])[:800]
            else:
                try:
                    d = prop.compare(c, ires, m)
                except Exception as e:  # noqa
                    d = 'compare raised %r\n%s' % (e, traceback.format_exc()[-800:])
            if d:
                disagreements.append({'case': c, 'impl': ires, 'model': m, 'diff': d, 'oracle_failed': bool(viols)})
        if len(stats['samples']) < 4 and nk is not None:
            stats['samples'].append({'case': c, 'impl': ires, 'model': model.get(c['id'])})
    return disagreements


def match_known(prop, known, case, ires, v):
    for e in known:
        if e.get('kind') != 'finding' or e.get('property') != prop.ID:
            continue
        if (e.get('class') and e['class'] == v.get('class')) or v.get('class') in e.get('classes', []):
            return e['id']
    return None


def all_violations(prop, cases, impl, wd, tag):
    """{case id: violations} from the Python oracle and, when the plugin has one, the Coq checker (`oracle_model`)
    evaluated on the implementation's output of exactly these runs."""
    model = {}
    if hasattr(prop, 'oracle_model'):
        try:
            model = run_model(prop, cases, wd, tag, impl=impl)
        except Exception as e:  # noqa
            log('model evaluation failed while re-evaluating: %r' % (e,))
    out = {}
    for c in cases:
        i = impl.get(c['id'])
        if i is None:
            continue
        ires = {'panic': i['panic']} if 'panic' in i else i['res']
        try:
            vs = prop.oracle(c, ires) or []
        except Exception:
            vs = []
        vs = [vs] if isinstance(vs, dict) else list(vs)
        m0 = model.get(c['id'])
        if m0 is not None and not (isinstance(m0, tuple) and m0 and m0[0] == '#error'):
            try:
                mv = prop.oracle_model(c, ires, m0) or []
            except Exception:
                mv = []
            vs += [mv] if isinstance(mv, dict) else list(mv)
        out[c['id']] = (ires, vs)
    return out


def shrink_case(prop, exe, wd, case, v):
    """delta-debug a failing case when the plugin offers `shrink_candidates`; re-runs the implementation."""
    if not hasattr(prop, 'shrink_candidates'):
        return case
    cur = case
    budget = 60
    improved = True
    while improved and budget > 0:
        improved = False
        cands = list(prop.shrink_candidates(cur))[:40]
        if not cands:
            break
        for k, c in enumerate(cands):
            c['id'] = 's%d' % k
        impl, rc, out = run_harness(exe, prop.HARNESS, cands, wd, 'shrink')
        budget -= 1
        res = all_violations(prop, cands, impl, wd, 'shrink')
        for c in cands:
            if c['id'] not in res:
                continue
            if any(x.get('class') == v.get('class') for x in res[c['id']][1]):
                cur = c
                improved = True
                break
    return cur


def substreams(prop):
    """sub-stream modules of a plugin (`SUBSTREAMS = ['c06_limits', ...]`, modules of tools/props with the plugin interface:
    own HARNESS binary, COQ_IMPORTS, MODEL_TARGETS, SIZES, generate, model_term, compare, oracle ...; ID = the parent's).
    They are further correspondence / oracle campaigns of the SAME property over other modelled functions."""
    subs = []
    for name in getattr(prop, 'SUBSTREAMS', ()):
        m = importlib.import_module('props.' + name)
        m.ID = prop.ID
        m.STREAM = name
        subs.append(m)
    return subs


def import_targets_of(mod):
    return ['theories/%s.vo' % m.replace('.', '/')
            for line in re.findall(r'From VRP Require Import ([^\n]*?)\.\s*(?:\n|$)', mod.COQ_IMPORTS + '\n')
            for m in line.split()] + list(getattr(mod, 'MODEL_TARGETS', ())) + list(getattr(mod, 'EXTRA_COQ_TARGETS', ()))


def main_check(pid, tier, seed):
    t0 = time.time()
    prop = importlib.import_module('props.' + pid.lower())
    subs = substreams(prop)
    wd = os.path.join(BUILD, pid)
    os.makedirs(wd, exist_ok=True)
    os.makedirs(EVIDENCE, exist_ok=True)
    evidence_path = os.path.join(EVIDENCE, pid + '.json')
    verdict = Verdict(pid)
    known = load_known()
    stats = {'evaluations': 0, 'nontrivial': set(), 'samples': [], 'traces': 0, 'dist': {}, 'seed': seed,
             'known_samples': {}}

    # 1. rebuild implementation side from the current tree
    rc, out, exe = build_harness(prop.HARNESS)
    sub_exe = {}
    for sub in subs:
        if rc == 0:
            rc, out, sub_exe[sub.STREAM] = build_harness(sub.HARNESS)
    if rc != 0:
        log(out[-4000:])
        log('INFRASTRUCTURE: harness / repository does not build; no verdict')
        return 2

    # 2. generated model parts (translators) — plugin hook
    gen_info = None
    if hasattr(prop, 'regenerate'):
        gen_info = prop.regenerate(REPO, os.path.join(COQ, 'theories', 'Generated'))

    # 3. proof obligations
    # (the model files the generated case files import are built too: they need not be in the closure of Properties/Cxx.vo)
    import_targets = ['theories/%s.vo' % m.replace('.', '/')
                      for line in re.findall(r'From VRP Require Import ([^\n]*?)\.\s*(?:\n|$)', prop.COQ_IMPORTS + '\n')
                      for m in line.split()]
    proofs = check_proofs(pid, wd, sorted(set(list(getattr(prop, 'EXTRA_COQ_TARGETS', ())) +
                                               list(getattr(prop, 'MODEL_TARGETS', ())) + import_targets +
                                               [t for sub in subs for t in import_targets_of(sub)])))
    log('[%s] proofs: %d/%d discharged (make %.1fs)' % (pid, proofs['discharged'], proofs['obligations'], proofs.get('make_s', 0)))
    model_ok = True
    if not proofs['ok']:
        # the models may still compile (they contain no proofs): try to build just them for the search
        rc2, _ = coq_make(list(getattr(prop, 'MODEL_TARGETS', ())))
        model_ok = (rc2 == 0) and bool(getattr(prop, 'MODEL_TARGETS', ()))

    # 4/5. correspondence + oracle
    rng = SplitMix(seed).fork(pid)
    n = prop.SIZES[tier]
    corpus = load_corpus(pid) + list(prop.corpus() if hasattr(prop, 'corpus') else [])
    disagreements = []
    try:
        if corpus:
            disagreements += campaign(prop, exe, wd, corpus, 'k', verdict, known, stats, do_model=model_ok or proofs['ok'])
        cases = prop.generate(rng, tier, n)
        disagreements += campaign(prop, exe, wd, cases, 'g', verdict, known, stats, do_model=model_ok or proofs['ok'])
        if hasattr(prop, 'extra_checks'):
            prop.extra_checks(dict(exe=exe, wd=wd, tier=tier, rng=rng, verdict=verdict, known=known, stats=stats,
                                   write_replay=write_replay, run_harness=run_harness, repo=REPO))
        for sub in subs:
            swd = os.path.join(wd, sub.STREAM)
            os.makedirs(swd, exist_ok=True)
            srng0 = SplitMix(seed).fork(pid + '/' + sub.STREAM)
            sstats = dict(stats, evaluations=0, traces=0, dist={}, samples=[])
            scorpus = load_corpus(os.path.join(pid, sub.STREAM)) + list(sub.corpus() if hasattr(sub, 'corpus') else [])
            sdis = []
            if scorpus:
                sdis += campaign(sub, sub_exe[sub.STREAM], swd, scorpus, sub.STREAM + '_k', verdict, known, sstats,
                                 do_model=model_ok or proofs['ok'])
            sdis += campaign(sub, sub_exe[sub.STREAM], swd, sub.generate(srng0, tier, sub.SIZES[tier]), sub.STREAM + '_g',
                             verdict, known, sstats, do_model=model_ok or proofs['ok'])
            for d in sdis:
                d['stream'] = sub.STREAM
            disagreements += sdis
            stats['evaluations'] += sstats['evaluations']
            stats['traces'] += sstats['traces']
            for lab, cnt in sstats['dist'].items():
                stats['dist'][sub.STREAM + ':' + lab] = cnt
            stats.setdefault('streams', {})[sub.STREAM] = {
                'evaluations': sstats['evaluations'], 'traces_validated_against_impl': sstats['traces'],
                'disagreements': len(sdis), 'rule': getattr(sub, 'RULE', ''), 'samples': sstats['samples'][:2],
                'harness': sub.HARNESS}
    except Exception as e:  # noqa
        log('INFRASTRUCTURE: %r\n%s' % (e, traceback.format_exc()))
        return 2

    # verdict (DESIGN.md section 4)
    broken = []
    if not proofs['ok']:
        broken.append({'kind': 'proof-obligation', 'failures': proofs['failures']})
    if disagreements:
        broken.append({'kind': 'correspondence', 'count': len(disagreements), 'first': disagreements[:3]})
    if broken and not verdict.violations:
        # search for a concrete failing input on the implementation: escalated oracle campaign
        found = False
        for r in range(getattr(prop, 'SEARCH_ROUNDS', 3)):
            srng = SplitMix(seed * 1000003 + r + 1).fork(pid + '/search')
            cases = prop.generate(srng, 'thorough', prop.SIZES.get('search', prop.SIZES['thorough']))
            before = len(verdict.violations)
            campaign(prop, exe, wd, cases, 's%d_' % r, verdict, known, stats, do_model=hasattr(prop, 'oracle_model') and model_ok)
            for sub in subs:
                swd = os.path.join(wd, sub.STREAM)
                scases = sub.generate(srng.fork(sub.STREAM), 'thorough', sub.SIZES.get('search', sub.SIZES['thorough']))
                campaign(sub, sub_exe[sub.STREAM], swd, scases, '%s_s%d_' % (sub.STREAM, r), verdict, known, stats,
                         do_model=hasattr(sub, 'oracle_model') and model_ok)
            if len(verdict.violations) > before:
                found = True
                break
        if not found:
            rp = write_replay(pid, {'property': pid, 'kind': 'no-failing-input-found', 'broken': broken,
                                    'note': 'a proof obligation or the model/implementation correspondence no longer checks; '
                                            'the escalated search on the implementation found no input violating the property',
                                    'seed': seed})
            verdict.violation(rp, nofail=True)
    elif broken and verdict.violations:
        # attach what broke to the first replay for the reader
        pass

    # evidence
    known_lines = []
    for e in known:
        if e.get('kind') == 'finding' and e.get('property') == pid:
            hits = verdict.known_hits.get(e['id'], 0)
            known_lines.append('KNOWN-FINDING: property=%s %s%s' % (pid, e.get('what', e['id']),
                                                                  '' if hits else ' (not re-observed in this run)'))
    trusted = ['Coq 8.16.1 kernel + vm_compute (no native_compute)',
               'correspondence harness /verif/harness (Rust) + generators + comparison in tools/props/%s.py' % pid.lower(),
               'Print Assumptions: ' + json.dumps(proofs['assumptions'])]
    trusted += list(getattr(prop, 'TRUSTED', []))
    cov = {
        'obligations': proofs['obligations'], 'discharged': proofs['discharged'],
        'checker_cmd': 'make -C /verif/coq theories/Properties/%s.vo && coqc assumptions.v (Print Assumptions of every theorem) && source audit' % pid,
        'trusted_base': trusted,
        'evaluations': stats['evaluations'], 'distinct_nontrivial': len(stats['nontrivial']),
        'rule': getattr(prop, 'RULE', ''), 'samples': stats['samples'][:4],
        'traces_validated_against_impl': stats['traces'],
        'disagreements': len(disagreements), 'input_distribution': stats['dist'],
        'theorems': proofs['theorems'], 'known_findings_observed': verdict.known_hits,
        'proof_failures': proofs['failures'],
    }
    if gen_info:
        cov['generated'] = gen_info
    if stats.get('streams'):
        cov['streams'] = stats['streams']
        trusted += [t for sub in subs for t in getattr(sub, 'TRUSTED', [])]
    if hasattr(prop, 'extra_coverage'):
        cov.update(prop.extra_coverage())
    ev = {'property_id': pid, 'tier': tier, 'seed': seed, 'level': 'proof', 'coverage': cov,
          'assumptions': list(getattr(prop, 'ASSUMPTIONS', [])), 'wall_s': round(time.time() - t0, 2),
          'violations': len(verdict.violations)}
    with open(evidence_path, 'w') as fh:
        json.dump(ev, fh, indent=1, default=str)
    for l in known_lines:
        print(l)
    for rp, nofail in verdict.violations[:10]:
        print('VIOLATION property=%s replay=%s%s' % (pid, rp, ' no-failing-input-found' if nofail else ''))
    sys.stdout.flush()
    log('[%s] %s: %d evaluations, %d nontrivial, %d model traces, %d disagreements, %d violations, %.1fs' % (
        pid, tier, stats['evaluations'], len(stats['nontrivial']), stats['traces'], len(disagreements),
        len(verdict.violations), time.time() - t0))
    return 1 if verdict.violations else 0


def main_replay(pid, path, stream=None):
    prop = importlib.import_module('props.' + pid.lower())
    wd = os.path.join(BUILD, pid)
    d = json.load(open(path))
    # a case of a sub-stream (recorded in the replay file, or the corpus file lies in corpus/<ID>/<stream>/)
    stream = stream or (d.get('stream') if isinstance(d, dict) else None)
    for sub in substreams(prop):
        if stream == sub.STREAM or os.path.basename(os.path.dirname(os.path.abspath(path))) == sub.STREAM:
            prop, stream = sub, sub.STREAM
            wd = os.path.join(wd, sub.STREAM)
    if isinstance(d, dict) and d.get('kind') == 'no-failing-input-found':
        st = (d.get('broken', [{}])[-1].get('first', [{}]) or [{}])[0].get('stream')
        for sub in substreams(prop) if st else []:
            if st == sub.STREAM:
                prop, stream = sub, sub.STREAM
                wd = os.path.join(wd, sub.STREAM)
    os.makedirs(wd, exist_ok=True)
    rc, out, exe = build_harness(prop.HARNESS)
    if rc != 0:
        log(out[-3000:])
        return 2
    if isinstance(d, dict) and d.get('cases') and not d.get('case'):      # a corpus file: replay every case of it
        worst = 0
        for k, c in enumerate(d['cases']):
            tmp = os.path.join(wd, 'replay_case_%d.json' % k)
            json.dump({'case': c}, open(tmp, 'w'))
            worst = max(worst, main_replay(pid, tmp, stream))
        return worst
    case = d.get('case') or ([b for b in d.get('broken', [{}]) if b.get('first')] or [{'first': [{}]}])[0]['first'][0].get('case')
    if not case:
        print('replay file names no concrete case:', json.dumps(d.get('broken'), indent=1)[:3000])
        return 0
    case['id'] = 'r0'
    impl, rc, out = run_harness(exe, prop.HARNESS, [case], wd, 'replay')
    i = impl.get('r0', {})
    ires = {'panic': i['panic']} if 'panic' in i else i.get('res')
    model = run_model(prop, [case], wd, 'replay', impl=impl)
    print('case :', json.dumps(case))
    print('impl :', json.dumps(ires))
    print('model:', model.get('r0'))
    v = all_violations(prop, [case], impl, wd, 'replay').get('r0', (None, []))[1]
    print('oracle:', v)
    known = load_known()
    fresh = [x for x in v if not match_known(prop, known, case, ires, x)]
    for x in v:
        if x not in fresh:
            print('KNOWN-FINDING: property=%s %s' % (pid, x.get('class')))
    if fresh:
        print('VIOLATION property=%s replay=%s' % (pid, path))
    return 1 if fresh else 0


def main_setup():
    """build everything the claimed checks need (tools/claimed.json), from files on disk only"""
    os.makedirs(BUILD, exist_ok=True)
    t0 = time.time()
    claimed = json.load(open(os.path.join(ROOT, 'tools', 'claimed.json')))
    mods = []
    for pid in claimed:
        mod = importlib.import_module('props.' + pid.lower())
        mods.append(mod)
        mods += substreams(mod)
        if hasattr(mod, 'regenerate'):
            mod.regenerate(REPO, os.path.join(COQ, 'theories', 'Generated'))
    coq_makefile()
    targets = []
    for mod in mods:
        targets.append('theories/Properties/%s.vo' % mod.ID)
        targets += import_targets_of(mod)
    rc, out = coq_make(sorted(set(targets)), timeout=3000)
    if rc != 0:
        print(out[-5000:])
        return 1
    log('coq build %.1fs' % (time.time() - t0))
    with Lock('cargo'):
        if not os.path.exists(os.path.join(HARNESS, 'Cargo.lock')):
            shutil.copy(os.path.join(REPO, 'Cargo.lock'), os.path.join(HARNESS, 'Cargo.lock'))
        cmd = ['cargo', 'build', '--offline', '--quiet']
        for mod in mods:
            cmd += ['--bin', mod.HARNESS]
        rc, out = run(cmd, cwd=HARNESS, env=cargo_env(), timeout=3000)
    if rc != 0:
        print(out[-5000:])
        return 1
    log('setup done %.1fs' % (time.time() - t0))
    return 0


if __name__ == '__main__':
    a = sys.argv[1:]
    if not a:
        print(__doc__)
        sys.exit(2)
    if a[0] == '--setup':
        sys.exit(main_setup())
    pid = a[0].upper()
    if len(a) >= 3 and a[1] == '--replay':
        sys.exit(main_replay(pid, a[2]))
    tier = a[1] if len(a) > 1 else os.environ.get('VERIF_TIER', 'quick')
    seed = int(os.environ.get('VERIF_SEED', '1'))
    # two checks of one property share build/<ID>/ (case files, model shards): serialise them
    with Lock('check-' + pid):
        rc = main_check(pid, tier, seed)
    sys.exit(rc)
