#!/bin/bash
# Confirm a seeded change produced by an independent sub-agent and record it under /verif/seeded/<ID>-<n>/.
#   tools/seed_confirm.sh <ID> <n> <demo file (abs)> <destination relative to the worktree> "<cargo test command for the demo>" [skip-suite]
# Steps (all in the sub-agent's scratch worktree /tmp/rt-<ID>, which has a warm target dir):
#   1. demo on the unchanged code must PASS   2. apply patch; demo must FAIL   3. existing test suite with the patch must PASS
#   4. our own check (tools/mutant.sh, isolated) must print VIOLATION
# Writes seeded/<ID>-<n>/{patch.diff,demo/*,meta.json,confirm.log}
ID=$1; N=$2; DEMO=$3; DEST=$4; CMD=$5; SKIP=${6:-}
WT=/tmp/rt-$ID; OUT=/tmp/rt-$ID-out; S=/verif/seeded/$ID-$N
mkdir -p "$S/demo"; LOG=$S/confirm.log; : > "$LOG"
cd "$WT" || exit 2
git checkout -- . >/dev/null 2>&1; git clean -fd >/dev/null 2>&1
cp "$DEMO" "$WT/$DEST" || exit 2
echo "== demo without patch" >> "$LOG"
( eval "$CMD" ) >> "$LOG" 2>&1; R0=$?
git apply "$OUT/patch$N.diff" || { echo "patch does not apply" | tee -a "$LOG"; exit 2; }
echo "== demo with patch" >> "$LOG"
( eval "$CMD" ) >> "$LOG" 2>&1; R1=$?
R2=skipped
if [ -z "$SKIP" ]; then
  echo "== existing test suite with patch (demo file removed)" >> "$LOG"
  rm -f "$WT/$DEST"
  cargo test --workspace --no-fail-fast --offline 2>&1 | grep -E "^test result|FAILED|failed" > "$S/suite.log"
  cat "$S/suite.log" >> "$LOG"
  if grep -E "^test result: FAILED|[1-9][0-9]* failed" "$S/suite.log" >/dev/null; then R2=fail; else R2=pass; fi
  if [ "$(grep -c '^test result: ok' "$S/suite.log")" -lt 10 ]; then R2=incomplete; fi
  if [ "$R2" = fail ]; then
    # a failing test may be a load-sensitive (flaky) one: re-run each failed test alone 5 times, with the patch still applied
    FAILED=$(grep -E '^test .* \.\.\. FAILED' "$S/suite.log" | sed -E 's/^test (.*) \.\.\. FAILED/\1/' | sort -u)
    ALLOK=yes
    for t in $FAILED; do
      okc=0
      for i in 1 2 3 4 5; do
        if cargo test --workspace --offline -- --exact "$t" 2>&1 | grep -q "test $t ... ok"; then okc=$((okc+1)); fi
      done
      echo "rerun $t: $okc/5 passed" >> "$LOG"
      [ "$okc" -ge 3 ] || ALLOK=no
    done
    if [ -n "$FAILED" ] && [ "$ALLOK" = yes ]; then R2="pass"; echo "suite: only load-sensitive tests failed once and pass on re-run: $FAILED" >> "$LOG"; fi
  fi
fi
git checkout -- . >/dev/null 2>&1; git clean -fd >/dev/null 2>&1
echo "== our check against the patch" >> "$LOG"
cd /verif
MUTANT_KEEP=$S/check tools/mutant.sh "$OUT/patch$N.diff" "$ID" quick > "$S/check.log" 2>&1; R3=$?
grep -E "VIOLATION|KNOWN-FINDING|quick:" "$S/check.log" | cut -c1-200 >> "$LOG"
cp "$OUT/patch$N.diff" "$S/patch.diff"; cp -r "$OUT/demo$N/." "$S/demo/" 2>/dev/null
python3 - "$ID" "$N" "$R0" "$R1" "$R2" "$R3" "$CMD" "$DEST" <<'E'
import json, sys
ID, N, R0, R1, R2, R3, CMD, DEST = sys.argv[1:9]
src = json.load(open('/tmp/rt-%s-out/meta.json' % ID))
m = src.get('patch%s' % N, src)
m.update({'property': ID, 'produced_by': 'independent sub-agent given only the property text and a scratch worktree',
          'confirmed': {'demo_without_patch_exit': int(R0), 'demo_with_patch_exit': int(R1), 'existing_suite_with_patch': R2,
                        'demo_command': CMD, 'demo_file_destination': DEST},
          'our_check': {'command': 'tools/mutant.sh seeded/%s-%s/patch.diff %s quick' % (ID, N, ID), 'exit': int(R3),
                        'caught': int(R3) == 1,
                        'verif_rev': __import__('subprocess').run(['git', '-C', __import__('os').environ.get('VERIF_ROOT', '/verif'), 'rev-parse', '--short', 'HEAD'],
                                                                  capture_output=True, text=True).stdout.strip()}})
json.dump(m, open('/verif/seeded/%s-%s/meta.json' % (ID, N), 'w'), indent=1)
print('%s-%s: demo without=%s with=%s suite=%s check_exit=%s' % (ID, N, R0, R1, R2, R3))
E
