(* Entry points that assemble a tour from the flat case description used by the correspondence checks
   (C06, C20, C15, C01 ...) and run the Core model on it.  No proofs. *)
From VRP Require Import Base.Tac Model.Core Spec.Feasible.

(* SimpleTransportCost: durations.get(from * size + to).unwrap_or(0) *)
Definition mat (n : Z) (m : list Z) (i j : Z) : Z := nth (Z.to_nat (i * n + j)) m 0.

Record world := mkWorld {
  w_n : Z; w_dur : list Z; w_dist : list Z;
  w_veh : vehicle; w_start : Z; w_end : option Z; w_shift_start : Z
}.
Definition wdur (w : world) := mat (w_n w) (w_dur w).
Definition wdist (w : world) := mat (w_n w) (w_dist w).

(* tour activity description: job id, loc, svc, tws, twe, demand *)
Definition tact := (Z * Z * Z * Z * Z * demand)%type.
Definition act_of (d : tact) : act :=
  let '(j, l, s, a, b, dm) := d in mkAct j l s a b dm 0 0.

Definition start_act (w : world) : act :=
  mkAct (-1) (w_start w) 0 (w_shift_start w) (w_shift_start w) dzero (w_shift_start w) (w_shift_start w).
Definition end_acts (w : world) : list act :=
  match w_end w with Some e => [mkAct (-1) e 0 0 (v_shift_end (w_veh w)) dzero 0 0] | None => [] end.
Definition closed (w : world) : bool := match w_end w with Some _ => true | None => false end.

(* Tour::new + insert_last of every activity + accept_route_state *)
Definition build_tour (w : world) (acts : list tact) : list act :=
  reschedule (wdur w) (start_act w :: map act_of acts ++ end_acts w).

Definition sched_out (t : list act) : list (Z * Z) := map (fun a => (a_arr a, a_dep a)) t.

Definition res_out (r : eval_result) : list Z :=
  match r with
  | ESuccess idx (pi, l, s, a, b) c => [1; Z.of_nat idx; Z.of_nat pi; l; s; a; b; c]
  | EFailure code st => [0; code; if st then 1 else 0]
  end.

(* feasibility (simulation) of inserting every (leg, place, window) alternative of a single job *)
Definition alternatives (w : world) (t : list act) (j : single) : list (list Z) :=
  let n := leg_count (closed w) t in
  flat_map (fun idx =>
    let prev := nth idx t (start_act w) in
    flat_map (fun pp : nat * place =>
      map (fun win : Z * Z =>
        let target := mk_target j prev (snd pp) win in
        [Z.of_nat idx; Z.of_nat (fst pp); fst win; snd win;
         if feasible (wdur w) (w_veh w) (insert_after t idx target) then 1 else 0;
         match eval_activity (wdur w) (w_veh w) t idx target with None => 1 | Some _ => 0 end])
      (p_tws (snd pp)))
    (combine (seq 0 (length (s_places j))) (s_places j)))
  (seq 0 n).

Definition run_single (w : world) (acts : list tact) (j : single) (pos : position) :=
  let t := build_tour w acts in
  (sched_out t, [total_distance (wdist w) t; total_duration t],
   res_out (eval_single_job (wdur w) (wdist w) (w_veh w) (w_shift_start w) (closed w) t j pos),
   (if feasible (wdur w) (w_veh w) t then 1 else 0), alternatives w t j,
   (* the cached state vectors as the features store them (compared with RouteState::verif_digest of the real route) *)
   [latest_states (wdur w) t; waiting_states t; cur_states t; past_states t; fut_states t]).

(* multi jobs: the implementation's result is a certificate (activities with insertion indices, in order);
   each step must pass the model's evaluation on the shadow tour, as in eval_multi's ShadowContext *)
Definition eval_activity_multi (w : world) (t : list act) (idx : nat) (target : act) : option (Z * bool) :=
  let prev := nth idx t target in
  let nexts := skipn (S idx) t in
  match eval_time (wdur w) (w_veh w) prev target nexts with
  | Some s => Some (1, s)
  | None => match demand_violation (w_veh w) t idx (a_dem target) true with Some _ => Some (2, false) | None => None end
  end.

Fixpoint cert_steps (w : world) (t : list act) (steps : list (nat * act)) : bool * list act :=
  match steps with
  | [] => (true, t)
  | (idx, a) :: r =>
    if (idx <? length t)%nat then
      match eval_activity_multi w t idx a with
      | None => cert_steps w (reschedule (wdur w) (insert_after t idx a)) r
      | Some _ => (false, t)
      end
    else (false, t)
  end.

(* eval_multi's accumulated cost: route-level estimate + the activity-level estimate of every step on its shadow tour *)
Fixpoint multi_cost (w : world) (t : list act) (steps : list (nat * act)) : Z :=
  match steps with
  | [] => 0
  | (idx, a) :: r => cost_estimate_activity (wdur w) (wdist w) (w_veh w) t idx a
                     + multi_cost w (reschedule (wdur w) (insert_after t idx a)) r
  end.

Definition run_multi_cert (w : world) (acts : list tact) (steps : list (nat * tact)) :=
  let t := build_tour w acts in
  let st := map (fun s => (fst s, act_of (snd s))) steps in
  let '(ok, t') := cert_steps w t st in
  (sched_out t, (if feasible (wdur w) (w_veh w) t then 1 else 0), (if ok then 1 else 0),
   (if feasible (wdur w) (w_veh w) t' then 1 else 0), cost_estimate_route (w_veh w) t + multi_cost w t st).

(* ---------- C20: quotes vs realised objective changes on one target tour ---------- *)
From VRP Require Import Model.Objectives.
(* kind 0: last layer = cost objective; kind 1: last layer = distance objective *)
Definition run_c20 (w : world) (acts : list tact) (j : single) (kind : Z) :=
  let t := build_tour w acts in
  let v := w_veh w in
  let res := if kind =? 0
             then eval_single_job (wdur w) (wdist w) v (w_shift_start w) (closed w) t j PAny
             else eval_single_job_dist (wdur w) (wdist w) v (w_shift_start w) (closed w) t j PAny in
  match res with
  | ESuccess idx (pi, l, s, a, b) c =>
    let x := mkAct (s_id j) l s a b (s_dem j) 0 0 in
    let t' := reschedule (wdur w) (insert_after t idx x) in
    (res_out res,
     [ (if has_jobs t then 0 else 1);                                   (* tours layer quote *)
       route_distance (wdist w) t; total_distance (wdist w) t';
       route_cost (wdist w) v t; cost_fitness (wdist w) v t';
       (if no_waitb t then 1 else 0); (if no_waitb t' then 1 else 0);
       leg_estimate (wdist w) t idx x; cost_quote (wdur w) (wdist w) v t idx x ],
     sched_out t')
  | EFailure _ _ => (res_out res, [], [])
  end.

(* multi-activity candidate: the implementation's result (activities with insertion indices, in order) is replayed step by step
   on the shadow tours; returned: certificate verdict, the same numbers as run_c20 (quotes = sums over the steps), the final schedule,
   and whether every shadow tour is free of waiting (the premise of the cost clause) *)
Fixpoint shadow_nowait (w : world) (t : list act) (steps : list (nat * act)) : bool :=
  match steps with
  | [] => no_waitb t
  | (idx, a) :: r => no_waitb t && shadow_nowait w (reschedule (wdur w) (insert_after t idx a)) r
  end.

Definition run_c20_multi (w : world) (acts : list tact) (steps : list (nat * tact)) :=
  let t := build_tour w acts in
  let v := w_veh w in
  let st := map (fun s => (fst s, act_of (snd s))) steps in
  let '(ok, _) := cert_steps w t st in
  let t' := apply_steps (wdur w) t st in
  ((if ok then 1 else 0),
   [ (if has_jobs t then 0 else 1);
     route_distance (wdist w) t; total_distance (wdist w) t';
     route_cost (wdist w) v t; cost_fitness (wdist w) v t';
     (if no_waitb t then 1 else 0); (if shadow_nowait w t st then 1 else 0);
     multi_leg (wdur w) (wdist w) t st; cost_estimate_route v t + multi_cost_sum (wdur w) (wdist w) v t st ],
   sched_out t').
