(* Tour limits, tour size, skills and locked jobs: the hard constraints next to time windows and capacity, as the code
   evaluates them, and the single-job evaluation with ALL of them in the goal.
   Rust items modelled (vrp-core/src):
     construction/enablers/travel_info.rs     :: calculate_travel_leg, calculate_travel_delta
     construction/features/tour_limits.rs     :: TravelLimitConstraint::evaluate (activity level; route level = None),
                                                 ActivityLimitConstraint::evaluate (route level; activity level = success)
     construction/features/skills.rs          :: JobSkills::new, check_all_of, check_one_of, check_none_of,
                                                 SkillsConstraint::{evaluate, merge}
     construction/features/locked_jobs.rs     :: LockingConstraint::{evaluate_route, evaluate_activity, merge}, Rule::{can_insert,
                                                 is_in_rule, can_insert_after, can_insert_before}
     construction/enablers/feature_combinator.rs :: evaluate_with_constraints (first violation in feature order wins)
     construction/heuristics/evaluators.rs    :: eval_job_insertion_in_route (route-level gate), eval_single,
                                                 analyze_insertion_in_route(_leg) - the scan of Model/Core.v with the activity-level
                                                 evaluation as a parameter (`scan_*_g`; Core's scan is the instance `eval_activity`)
     models/solution/tour.rs                  :: job_activity_count
   The cached totals read by the travel limits are the tour state written by update_statistics (schedule_update.rs,
   Core.total_distance / Core.total_duration); a route without that state reads 0 (`unwrap_or(0.)`): argument `cached`.
   Feature order of the goal (as goal_reader.rs::create_goal_context pushes them, and as the harness c06_limits builds it):
     transport (code 1), capacity (2), tour_limit (distance 3, duration 4), skills (6), locked_jobs (7), activity_limit (10).
   Entry points used by the correspondence (tools/props/c06_limits.py): run_limits, run_skills, run_lock_rule, run_size.
   No proofs in this file. *)
From VRP Require Import Base.Tac Model.Core Spec.Feasible Spec.FeasibleX Model.Eval.

Definition CODE_DIST : Z := 3.
Definition CODE_DUR : Z := 4.
Definition CODE_SKILLS : Z := 6.
Definition CODE_LOCK : Z := 7.
Definition CODE_SIZE : Z := 10.

(* ------------------------------------------------------------------ skills.rs *)
(* a HashSet<String> is a list of skill ids: only membership is ever asked (is_subset, contains, is_disjoint, is_empty) *)
Record jskills := mkJS { js_all : option (list Z); js_one : option (list Z); js_none : option (list Z) }.

(* JobSkills::new: an empty list becomes None *)
Definition norm_skills (o : option (list Z)) : option (list Z) :=
  match o with Some [] => None | Some l => Some l | None => None end.
Definition js_new (a o n : option (list Z)) : jskills := mkJS (norm_skills a) (norm_skills o) (norm_skills n).

Definition is_empty (l : list Z) : bool := match l with [] => true | _ => false end.

(* vehicle_skills: actor.vehicle.dimens.get_vehicle_skills() : Option<&HashSet<String>> *)
Definition check_all_of (js : jskills) (vs : option (list Z)) : bool :=
  match js_all js, vs with
  | Some j, Some v => forallb (fun s => zmem s v) j          (* is_subset *)
  | Some j, None => is_empty j
  | _, _ => true
  end.
Definition check_one_of (js : jskills) (vs : option (list Z)) : bool :=
  match js_one js, vs with
  | Some j, Some v => existsb (fun s => zmem s v) j          (* iter().any(contains) *)
  | Some j, None => is_empty j
  | _, _ => true
  end.
Definition check_none_of (js : jskills) (vs : option (list Z)) : bool :=
  match js_none js, vs with
  | Some j, Some v => forallb (fun s => negb (zmem s v)) j   (* is_disjoint *)
  | _, _ => true
  end.

(* SkillsConstraint::evaluate, MoveContext::Route; `js` = job.dimens().get_job_skills() *)
Definition eval_route_skills (vs : option (list Z)) (js : option jskills) : option (Z * bool) :=
  match js with
  | Some s => if check_all_of s vs && check_one_of s vs && check_none_of s vs then None else Some (CODE_SKILLS, true)
  | None => None
  end.

(* SkillsConstraint::merge: true = Ok(source), false = Err(code).  all_of / none_of: the candidate's set must be a subset of the
   source's; one_of (since the repair ee5718d of finding C01-F10): the SOURCE's set must be a subset of the candidate's *)
Definition check_skill_sets (src cand : option (list Z)) : bool :=
  match src, cand with
  | _, None => true
  | None, Some _ => false
  | Some s, Some c => forallb (fun x => zmem x s) c        (* candidate.is_subset(source) *)
  end.
Definition check_one_of_sets (src cand : option (list Z)) : bool :=
  match src, cand with
  | Some s, Some c => forallb (fun x => zmem x c) s        (* source_set.is_subset(candidate_set) *)
  | _, _ => check_skill_sets src cand
  end.
Definition merge_skills (src cand : option jskills) : bool :=
  match src, cand with
  | _, None => true
  | None, Some _ => false
  | Some s, Some c => check_skill_sets (js_all s) (js_all c) && check_one_of_sets (js_one s) (js_one c)
                      && check_skill_sets (js_none s) (js_none c)
  end.
(* the function as it was before the repair (witness theorem C01_skills_merge_one_of_prefix_refuted) *)
Definition merge_skills_prefix (src cand : option jskills) : bool :=
  match src, cand with
  | _, None => true
  | None, Some _ => false
  | Some s, Some c => check_skill_sets (js_all s) (js_all c) && check_skill_sets (js_one s) (js_one c)
                      && check_skill_sets (js_none s) (js_none c)
  end.

(* the requirement a skills record stands for (Spec/FeasibleX.v) *)
Definition olist (o : option (list Z)) : list Z := match o with Some l => l | None => [] end.
Definition req_of (js : option jskills) : skillreq :=
  match js with Some s => mkReq (olist (js_all s)) (olist (js_one s)) (olist (js_none s)) | None => no_req end.

(* ------------------------------------------------------------------ tour_limits.rs: activity limit (route level) *)
(* Tour::job_activity_count: by position, not by looking at the activities *)
Definition job_activity_count (closed : bool) (t : list act) : nat :=
  match t with [] => 0%nat | _ => (length t - (if closed then 2 else 1))%nat end.

(* `job_acts`: 1 for Job::Single, multi.jobs.len() for Job::Multi *)
Definition eval_route_size (lim : limits) (closed : bool) (t : list act) (job_acts : nat) : option (Z * bool) :=
  match l_size lim with
  | Some L => if (L <? job_activity_count closed t + job_acts)%nat then Some (CODE_SIZE, true) else None
  | None => None
  end.

(* ------------------------------------------------------------------ locked_jobs.rs *)
(* `rules`: the strict rules whose condition holds for the tour's actor; `conds`: job -> value of its lock's condition for the actor *)
Definition job_of (a : act) : option Z := if is_job a then Some (a_job a) else None.   (* Activity::retrieve_job *)
Definition rule_first (r : lockrule) : Z := hd (-1) (lr_jobs r).
Definition rule_last (r : lockrule) : Z := last (lr_jobs r) (-1).
Definition rule_contains (r : lockrule) (j : Z) : bool := zmem j (lr_jobs r).

Definition can_insert_after (r : lockrule) (prev next : option Z) : bool :=
  (match prev with Some p => negb (rule_contains r p) || (p =? rule_last r) | None => false end)
  && (match next with Some n => negb (rule_contains r n) | None => true end).
Definition can_insert_before (r : lockrule) (prev next : option Z) : bool :=
  (match next with Some n => negb (rule_contains r n) || (n =? rule_first r) | None => false end)
  && (match prev with Some p => negb (rule_contains r p) | None => true end).
Definition can_insert (r : lockrule) (job prev next : option Z) : bool :=
  (match job with Some j => rule_contains r j | None => false end)
  || match lr_pos r with
     | LAny => can_insert_after r prev next || can_insert_before r prev next
     | LDeparture => can_insert_after r prev next
     | LArrival => can_insert_before r prev next
     | LFixed => false
     end.

Definition eval_act_lock (rules : list lockrule) (prev target : act) (next : option act) : option (Z * bool) :=
  if forallb (fun r => can_insert r (job_of target) (job_of prev) (match next with Some n => job_of n | None => None end)) rules
  then None else Some (CODE_LOCK, false).

Fixpoint zassoc {A} (k : Z) (l : list (Z * A)) : option A :=
  match l with [] => None | (k', x) :: r => if k =? k' then Some x else zassoc k r end.
Definition eval_route_lock (conds : list (Z * bool)) (job : Z) : option (Z * bool) :=
  match zassoc job conds with Some false => Some (CODE_LOCK, true) | _ => None end.
(* LockingConstraint::merge: a candidate that is locked cannot be merged *)
Definition merge_lock (conds : list (Z * bool)) (cand : Z) : bool :=
  match zassoc cand conds with Some _ => false | None => true end.

Section WithRouting.
Variable dur dist : Z -> Z -> Z.

(* ------------------------------------------------------------------ travel_info.rs *)
(* calculate_travel_leg: (distance, departure from `second` - `departure`) *)
Definition travel_leg (first second : act) (departure : Z) : Z * Z :=
  let d := dur (a_loc first) (a_loc second) in
  let second_arr := departure + d in
  let second_wait := Z.max (a_tws second - second_arr) 0 in
  let second_dep := second_arr + second_wait + a_svc second in
  (dist (a_loc first) (a_loc second), second_dep - departure).

(* calculate_travel_delta *)
Definition travel_delta (prev target : act) (next : option act) : Z * Z :=
  let prev_dep := a_dep prev in
  let '(prev_to_tar_dis, prev_to_tar_dur) := travel_leg prev target prev_dep in
  match next with
  | Some n =>
    let tar_dep := prev_dep + prev_to_tar_dur in
    let '(prev_to_next_dis, prev_to_next_dur) := travel_leg prev n prev_dep in
    let '(tar_to_next_dis, tar_to_next_dur) := travel_leg target n tar_dep in
    (prev_to_tar_dis + tar_to_next_dis - prev_to_next_dis, prev_to_tar_dur + tar_to_next_dur - prev_to_next_dur)
  | None => (prev_to_tar_dis, prev_to_tar_dur)
  end.

(* ------------------------------------------------------------------ tour_limits.rs: travel limits (activity level) *)
(* `cached` = (TotalDistance, TotalDuration) tour state, None when the route carries no state (then 0 is read) *)
Definition eval_act_limits (lim : limits) (cached : option (Z * Z)) (prev target : act) (next : option act) : option (Z * bool) :=
  match l_dist lim, l_dur lim with
  | None, None => None
  | _, _ =>
    let '(change_distance, change_duration) := travel_delta prev target next in
    let curr_dis := match cached with Some (d, _) => d | None => 0 end in
    let curr_dur := match cached with Some (_, d) => d | None => 0 end in
    match (match l_dist lim with
           | Some L => if L <? curr_dis + change_distance then Some (CODE_DIST, false) else None
           | None => None end) with
    | Some r => Some r
    | None => match l_dur lim with
              | Some L => if L <? curr_dur + change_duration then Some (CODE_DUR, false) else None
              | None => None
              end
    end
  end.

(* the state update_statistics leaves on a route after accept_route_state *)
Definition cached_totals (t : list act) : option (Z * Z) := Some (total_distance dist t, total_duration t).

(* ------------------------------------------------------------------ the whole goal *)
Record xgoal := mkXGoal {
  g_lim : limits;
  g_vskills : option (list Z);          (* VehicleSkills dimension of the tour's vehicle *)
  g_rules : list lockrule;              (* strict rules applying to the tour's actor *)
  g_conds : list (Z * bool)             (* locked job -> does its lock allow the tour's actor *)
}.

(* GoalContext::evaluate, MoveContext::Activity: transport, capacity (Core.eval_activity), then tour_limit, [skills: None],
   locked_jobs, [activity_limit: success] *)
Definition eval_activity_x (g : xgoal) (v : vehicle) (t : list act) (idx : nat) (target : act) : option (Z * bool) :=
  match eval_activity dur v t idx target with
  | Some r => Some r
  | None =>
    let prev := nth idx t target in
    let next := match skipn (S idx) t with n :: _ => Some n | [] => None end in
    match eval_act_limits (g_lim g) (cached_totals t) prev target next with
    | Some r => Some r
    | None => eval_act_lock (g_rules g) prev target next
    end
  end.

(* GoalContext::evaluate, MoveContext::Route for a single job: transport, capacity, [tour_limit: None], skills, locked_jobs,
   activity_limit *)
Definition eval_route_x (g : xgoal) (v : vehicle) (shift_start : Z) (closed : bool) (t : list act) (j : single)
  (js : option jskills) : option (Z * bool) :=
  if negb (eval_route_time (shift_start, v_shift_end v) j) then Some (1, true) else
  if negb (eval_route_cap v t j) then Some (2, true) else
  match eval_route_skills (g_vskills g) js with
  | Some r => Some r
  | None => match eval_route_lock (g_conds g) (s_id j) with
            | Some r => Some r
            | None => eval_route_size (g_lim g) closed t 1
            end
  end.

(* ------------------------------------------------------------------ the scan with the activity evaluation as a parameter *)
Section Scan.
Variable ev : list act -> nat -> act -> option (Z * bool).
Variable est : list act -> nat -> act -> Z.

Fixpoint scan_windows_g (t : list act) (idx : nat) (j : single) (pi : nat) (p : place) (route_cost : Z)
         (ws : list (Z * Z)) (c : sctx) : sctx * bool :=
  match ws with
  | [] => (c, false)
  | w :: ws' =>
    let prev := nth idx t (mkAct (-1) 0 0 0 0 dzero 0 0) in
    let target := mk_target j prev p w in
    match ev t idx target with
    | Some (code, stopped) =>
      let c' := mkSctx (Some (code, stopped)) (sc_index c) (sc_cost c) (sc_place c) in
      if stopped then (c', true) else scan_windows_g t idx j pi p route_cost ws' c'
    | None =>
      let costs := est t idx target + route_cost in
      let better := match sc_cost c with Some o => costs <? o | None => true end in
      let c' := if better
                then mkSctx None idx (Some costs) (Some (pi, a_loc target, a_svc target, a_tws target, a_twe target))
                else c in
      scan_windows_g t idx j pi p route_cost ws' c'
    end
  end.

Fixpoint scan_places_g (t : list act) (idx : nat) (j : single) (pi : nat) (route_cost : Z) (ps : list place) (c : sctx)
  : sctx * bool :=
  match ps with
  | [] => (c, false)
  | p :: ps' =>
    let '(c', stop) := scan_windows_g t idx j pi p route_cost (p_tws p) c in
    if stop then (c', true) else scan_places_g t idx j (S pi) route_cost ps' c'
  end.

Definition scan_leg_g (t : list act) (idx : nat) (j : single) (route_cost : Z) (c : sctx) : sctx * bool :=
  scan_places_g t idx j 0 route_cost (s_places j) c.

Fixpoint scan_legs_g (t : list act) (j : single) (route_cost : Z) (idx n : nat) (c : sctx) : sctx :=
  match n with
  | O => c
  | S n' => let '(c', stop) := scan_leg_g t idx j route_cost c in
            if stop then c' else scan_legs_g t j route_cost (S idx) n' c'
  end.

Definition analyze_g (closed : bool) (t : list act) (j : single) (pos : position) (route_cost : Z) : sctx :=
  let init := mkSctx None 0 None None in
  let n := leg_count closed t in
  match pos with
  | PAny => scan_legs_g t j route_cost 0 n init
  | PConcrete i => if (i <? n)%nat then fst (scan_leg_g t i j route_cost init) else init
  | PLast => let i := (Nat.max n 1 - 1)%nat in if (i <? n)%nat then fst (scan_leg_g t i j route_cost init) else init
  end.
End Scan.

(* eval_job_insertion_in_route for a single job (alternative = plain failure, job not in `unassigned`), goal = minimize cost *)
Definition eval_single_x (g : xgoal) (v : vehicle) (shift_start : Z) (closed : bool) (t : list act) (j : single)
  (js : option jskills) (pos : position) : eval_result :=
  match eval_route_x g v shift_start closed t j js with
  | Some (code, _) => EFailure code true                 (* make_failure_with_code(violation.code, true, ..) *)
  | None =>
    let r := analyze_g (eval_activity_x g v) (cost_estimate_activity dur dist v) closed t j pos (cost_estimate_route v t) in
    match sc_place r with
    | Some p => ESuccess (sc_index r) p (match sc_cost r with Some c => c | None => 0 end)
    | None => match sc_viol r with Some (code, st) => EFailure code st | None => EFailure (-1) false end
    end
  end.

(* the tour after really applying an answer: apply_insertion_success = tour.insert_at(activity, index + 1) + accept_insertion
   (schedules recomputed by update_route_schedule); a failure leaves no tour to look at *)
Definition apply_result (t : list act) (j : single) (r : eval_result) : list act :=
  match r with
  | ESuccess idx (_, l, s, a, b) _ => reschedule dur (insert_after t idx (mkAct (s_id j) l s a b (s_dem j) 0 0))
  | EFailure _ _ => []
  end.

End WithRouting.

(* ------------------------------------------------------------------ entry points of the correspondence *)
Definition opt_out (o : option (Z * bool)) : list Z :=
  match o with Some (c, s) => [1; c; if s then 1 else 0] | None => [0] end.

Definition req_table (l : list (Z * option jskills)) (j : Z) : skillreq :=
  match zassoc j l with Some js => req_of js | None => no_req end.

Definition applied (w : world) (t : list act) (j : single) (r : eval_result) : list act := apply_result (wdur w) t j r.

Definition opt_out3 (o : option (Z * bool)) : list Z :=
  match o with Some (c, s) => [1; c; if s then 1 else 0] | None => [0; 0; 0] end.

(* every (leg, place, window) alternative: [leg; place; window] ++ the five parts of the extended simulation of the tour
   with the alternative inserted ++ verdict of the whole modelled goal ++ of the travel-limit constraint alone ++ of the same
   on a route without cached state ++ of the locking constraint alone *)
Definition alternatives_x (w : world) (g : xgoal) (req : Z -> skillreq) (t : list act) (j : single) : list (list Z) :=
  let n := leg_count (closed w) t in
  flat_map (fun idx =>
    let prev := nth idx t (start_act w) in
    let next := match skipn (S idx) t with n :: _ => Some n | [] => None end in
    flat_map (fun pp : nat * place =>
      map (fun win : Z * Z =>
        let target := mk_target j prev (snd pp) win in
        [Z.of_nat idx; Z.of_nat (fst pp); fst win; snd win]
        ++ feasible_x_parts (wdur w) (wdist w) (w_veh w) (g_lim g) (olist (g_vskills g)) req (insert_after t idx target)
        ++ opt_out3 (eval_activity_x (wdur w) (wdist w) g (w_veh w) t idx target)
        ++ opt_out3 (eval_act_limits (wdur w) (wdist w) (g_lim g) (cached_totals (wdist w) t) prev target next)
        ++ opt_out3 (eval_act_limits (wdur w) (wdist w) (g_lim g) None prev target next)
        ++ opt_out3 (eval_act_lock (g_rules g) prev target next))
      (p_tws (snd pp)))
    (combine (seq 0 (length (s_places j))) (s_places j)))
  (seq 0 n).

(* `skills`: skills of the jobs in the tour and of the candidate (job id -> record); `js`: the candidate's *)
Definition run_limits (w : world) (g : xgoal) (skills : list (Z * option jskills)) (acts : list tact) (j : single)
  (js : option jskills) (pos : position) :=
  let t := build_tour w acts in
  let req := req_table ((s_id j, js) :: skills) in
  let vs := olist (g_vskills g) in
  let r := eval_single_x (wdur w) (wdist w) g (w_veh w) (w_shift_start w) (closed w) t j js pos in
  let t' := applied w t j r in
  (sched_out t,
   [total_distance (wdist w) t; total_duration t],
   res_out r,
   opt_out (eval_route_x g (w_veh w) (w_shift_start w) (closed w) t j js),
   feasible_x_parts (wdur w) (wdist w) (w_veh w) (g_lim g) vs req t,
   alternatives_x w g req t j,
   (* after applying the answer: schedule, cached totals, job activity count, extended feasibility *)
   (sched_out t', [total_distance (wdist w) t'; total_duration t'; Z.of_nat (job_activity_count (closed w) t')],
    feasible_x_parts (wdur w) (wdist w) (w_veh w) (g_lim g) vs req t')).

(* skills: route-level verdict for a vehicle skill set, the merge rule, JobSkills::new *)
Definition js_out (s : jskills) : list (option (list Z)) := [js_all s; js_one s; js_none s].
Definition run_skills (vs : option (list Z)) (js cand : option jskills) (raw : option (list Z) * option (list Z) * option (list Z)) :=
  (opt_out (eval_route_skills vs js), (if merge_skills js cand then 1 else 0),
   let '(a, o, n) := raw in js_out (js_new a o n)).

(* one strict rule against (job, prev, next); the merge rule for `job` as candidate (the rule's jobs are the locked ones) *)
Definition run_lock_rule (r : lockrule) (job prev next : option Z) : Z * Z :=
  (if can_insert r job prev next then 1 else 0,
   match job with Some j => if merge_lock (map (fun x => (x, true)) (lr_jobs r)) j then 1 else 0 | None => -1 end).

(* tour size, route level, for a job with `job_acts` activities (1 for a Single, the number of sub-jobs for a Multi) *)
Definition run_size (w : world) (lim : limits) (acts : list tact) (job_acts : nat) :=
  let t := build_tour w acts in
  (opt_out (eval_route_size lim (closed w) t job_acts), Z.of_nat (job_activity_count (closed w) t)).
