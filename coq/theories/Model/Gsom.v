(* Model of the LATTICE part of the growing self-organising map behind the Rosomaxa population (property C19).
     rosomaxa/src/algorithms/gsom/node.rs        :: Coordinate, Node::{new, new_hit (total_hits only), neighbours, is_boundary}
     rosomaxa/src/algorithms/gsom/network.rs     :: Network::{new, create_initial_nodes (grid, storages), store_batch, smooth, compact, find,
                                                    size, retrain, train_on_data, train_batch, update, grow_nodes, adjust_weights (dimension
                                                    guard only), insert, remove, remap, create_node}
     rosomaxa/src/algorithms/gsom/contraction.rs :: contract_graph, get_offset
     rosomaxa/src/algorithms/gsom/state.rs       :: get_network_shape
     rosomaxa/src/population/elitism.rs          :: Elitism::{add (sort_by + dedup_by + truncate), drain, set_max_population_size}  (node storage)
     rosomaxa/src/population/rosomaxa.rs         :: Rosomaxa::{new, add_all (elite part), update_phase, optimize_network (call pattern)},
                                                    IndividualStorage (add/drain/resize/size = the Elitism calls above)
   The node map (FxHashMap<Coordinate, Node>) is an association list keyed by coordinate; iteration order of the hash map is never
   relied upon (outputs are compared as sets).  Coordinates are Z (i32 overflow is not modelled).
   Weights are f64 in the code: only their DIMENSION is modelled (zip = Nat.min of dimensions).  Everything decided by float arithmetic
   is an ORACLE input recorded from the implementation: for every processed input the best matching unit (`find_bmu`) and whether the
   accumulated error reached the growing threshold at a growable node (`node.error >= growing_threshold`); the order in which drained
   individuals are re-trained (sort_unstable + dedup by weights + shuffle) is also taken from the oracle and VALIDATED by the model
   (`survivors_ok` / `perm_ok`).  A `Panic` of the model stands for a Rust panic (codes below); code 9x = oracle inconsistent with the model.
   Entry points used by the correspondence: run_net, run_phase.
   No proofs in this file. *)
From VRP Require Import Base.Tac.

Definition coord := (Z * Z)%type.
Definition coord_eqb (a b : coord) : bool := (fst a =? fst b) && (snd a =? snd b).

(* an individual: identity, objective key (total_order), dedup tag, rosomaxa weights (integer valued) *)
Record item := mkI { it_id : Z; it_key : Z; it_tag : Z; it_w : list Z }.

Inductive res (A : Type) := Ok (a : A) | Panic (code : nat).
Arguments Ok {A} a.
Arguments Panic {A} code.
Definition bind {A B} (r : res A) (f : A -> res B) : res B := match r with Ok a => f a | Panic c => Panic c end.

(* ---------- node storage = Elitism(max = capacity) with dedup |a, b| a.tag == b.tag ---------- *)
Fixpoint ins (x : item) (l : list item) : list item :=
  match l with
  | [] => [x]
  | y :: t => if it_key x <? it_key y then x :: y :: t else y :: ins x t
  end.
(* slice::sort_by is stable: insertion sort, later equal elements go behind earlier ones *)
Definition ssort (l : list item) : list item := fold_left (fun acc x => ins x acc) l [].
Definition dedupf (a last : item) : bool := it_tag a =? it_tag last.
(* Vec::dedup_by(|a, b| dd(a, b)): a = current element, b = last retained; true -> a is removed *)
Fixpoint dedup_go (dd : item -> item -> bool) (last : item) (l : list item) : list item :=
  match l with
  | [] => []
  | a :: t => if dd a last then dedup_go dd last t else a :: dedup_go dd a t
  end.
Definition dedup_by (dd : item -> item -> bool) (l : list item) : list item :=
  match l with [] => [] | x :: t => x :: dedup_go dd x t end.
(* Elitism::add_with_iter: extend; sort (sort_by + dedup_by); ensure_max_population_size (truncate) *)
Definition st_add (cap : nat) (l : list item) (x : item) : list item := firstn cap (dedup_by dedupf (ssort (l ++ [x]))).

(* ---------- nodes and the map ---------- *)
Record node := mkN { n_c : coord; n_dim : nat; n_hits : nat; n_cap : nat; n_st : list item }.
Definition nmap := list (coord * node).
Record net := mkNet { nodes : nmap; dim : nat; fcap : nat }.

Fixpoint lookup (c : coord) (l : nmap) : option node :=
  match l with
  | [] => None
  | (k, v) :: t => if coord_eqb k c then Some v else lookup c t
  end.
Definition remove (c : coord) (l : nmap) : nmap := filter (fun kv => negb (coord_eqb (fst kv) c)) l.
(* HashMap::insert: replaces an existing entry *)
Definition insert (c : coord) (nd : node) (l : nmap) : nmap := (c, nd) :: remove c l.
(* get_mut + in-place modification *)
Definition modify (c : coord) (f : node -> node) (l : nmap) : nmap :=
  map (fun kv => if coord_eqb (fst kv) c then (fst kv, f (snd kv)) else kv) l.
Definition with_nodes (n : net) (l : nmap) : net := mkNet l (dim n) (fcap n).
Definition size (n : net) : nat := length (nodes n).

(* (-radius..=radius) x (-radius..=radius) without (0,0), x outer *)
Definition range (r : Z) : list Z := map (fun i => Z.of_nat i - r) (seq 0 (Z.to_nat (2 * r + 1))).
Definition offsets (r : Z) : list (Z * Z) :=
  filter (fun o => negb ((fst o =? 0) && (snd o =? 0))) (list_prod (range r) (range r)).
(* Node::neighbours: network.find(coordinate + offset).map(|node| node.coordinate) *)
Definition neighbours (l : nmap) (nd : node) (r : Z) : list (option coord * (Z * Z)) :=
  map (fun o => (option_map n_c (lookup (fst (n_c nd) + fst o, snd (n_c nd) + snd o) l), o)) (offsets r).
Definition main_dir (o : Z * Z) : bool := Z.abs (fst o) + Z.abs (snd o) <? 2.
Definition is_none {A} (o : option A) : bool := match o with None => true | Some _ => false end.
Definition main_neighbours (l : nmap) (nd : node) := filter (fun p => main_dir (snd p)) (neighbours l nd 1).
Definition is_boundary (l : nmap) (nd : node) : bool := existsb (fun p => is_none (fst p)) (main_neighbours l nd).

Definition orelse {A} (a b : option A) : option A := match a with Some _ => a | None => b end.

(* Network::grow_nodes: coordinates to create with the dimension of their weights (zip of two weight vectors; case d: min_max) *)
Definition grow_nodes (n : net) (c : coord) : res (list (coord * nat)) :=
  match lookup c (nodes n) with
  | None => Panic 1
  | Some nd =>
    let cc := n_c nd in
    let get_node (ox oy : Z) := lookup (fst cc + ox, snd cc + oy) (nodes n) in
    Ok (map (fun o =>
               let nx := fst o in let ny := snd o in
               let w2 :=
                 if Z.abs nx =? 1
                 then orelse (get_node (nx * 2) 0) (orelse (get_node (- nx) 0) (orelse (get_node 0 1) (get_node 0 (-1))))
                 else orelse (get_node 0 (ny * 2)) (orelse (get_node 0 (- ny)) (orelse (get_node 1 0) (get_node (-1) 0))) in
               ((fst cc + nx, snd cc + ny),
                match w2 with Some m => Nat.min (n_dim nd) (n_dim m) | None => dim n end))
            (map snd (filter (fun p => is_none (fst p)) (main_neighbours (nodes n) nd))))
  end.

Definition new_node (n : net) (c : coord) (d : nat) : node := mkN c d 0 (fcap n) [].
Definition hit (nd : node) : node := mkN (n_c nd) (n_dim nd) (S (n_hits nd)) (n_cap nd) (n_st nd).
Definition store (x : item) (nd : node) : node := mkN (n_c nd) (n_dim nd) (n_hits nd) (n_cap nd) (st_add (n_cap nd) (n_st nd) x).
Definition clear (nd : node) : node := mkN (n_c nd) (n_dim nd) (n_hits nd) (n_cap nd) [].
Definition resize (k : nat) (nd : node) : node := mkN (n_c nd) (n_dim nd) (n_hits nd) k (firstn k (n_st nd)).
Definition move (c : coord) (nd : node) : node := mkN c (n_dim nd) (n_hits nd) (n_cap nd) (n_st nd).

(* Network::adjust_weights -> Node::adjust: debug_assert!(weights.len() == target.len()) on the node and its existing neighbours *)
Definition adjust_ok (l : nmap) (c : coord) (r : Z) (len : nat) : res unit :=
  match lookup c l with
  | None => Panic 2
  | Some nd =>
    if (n_dim nd =? len)%nat &&
       forallb (fun p => match fst p with
                         | Some c' => match lookup c' l with Some m => (n_dim m =? len)%nat | None => true end
                         | None => true end) (neighbours l nd r)
    then Ok tt else Panic 3
  end.

(* Network::update followed by the storage add of train_batch.  `exceeds` is the oracle for node.error >= growing_threshold. *)
Definition update (n : net) (bmu : coord) (exceeds : bool) (x : item) (is_new : bool) : res net :=
  match lookup bmu (nodes n) with
  | None => Panic 2
  | Some _ =>
    let n1 := with_nodes n (if is_new then modify bmu hit (nodes n) else nodes n) in
    let r := if is_new then 2 else 3 in
    let len := length (it_w x) in
    match lookup bmu (nodes n1) with
    | None => Panic 2
    | Some nd =>
      bind
        (if exceeds && (is_boundary (nodes n1) nd && is_new)
         then bind (grow_nodes n1 bmu) (fun news =>
                fold_left (fun acc cw => bind acc (fun m =>
                             let m' := with_nodes m (insert (fst cw) (new_node m (fst cw) (snd cw)) (nodes m)) in
                             bind (adjust_ok (nodes m') (fst cw) r len) (fun _ => Ok m')))
                          news (Ok n1))
         else if exceeds then Ok n1     (* distribute_error: errors only *)
         else bind (adjust_ok (nodes n1) bmu r len) (fun _ => Ok n1))
        (fun n2 => match lookup bmu (nodes n2) with
                   | None => Panic 4
                   | Some _ => Ok (with_nodes n2 (modify bmu (store x) (nodes n2)))
                   end)
    end
  end.

(* one processed input: the individual, its best matching unit, the threshold oracle *)
Definition obs := (item * coord * bool)%type.
Definition train_on_data (n : net) (data : list obs) (is_new : bool) : res net :=
  fold_left (fun acc o => bind acc (fun m => update m (snd (fst o)) (snd o) (fst (fst o)) is_new)) data (Ok n).

(* Network::store_batch; MinMaxWeights::update has debug_assert!(weights.len() == self.min.len()) *)
Definition store_batch (n : net) (data : list obs) : res net :=
  if forallb (fun o => (length (it_w (fst (fst o))) =? dim n)%nat) data then train_on_data n data true else Panic 5.

(* ---------- retrain: drain every storage, sort_unstable + dedup by weights, shuffle, train ---------- *)
Definition drain_all (l : nmap) : list item * nmap :=
  (flat_map (fun kv => n_st (snd kv)) l, map (fun kv => (fst kv, clear (snd kv))) l).
Definition oobs := (Z * coord * bool)%type.      (* the oracle names individuals by id *)
Definition find_item (id : Z) (pool : list item) : option item := find (fun it => it_id it =? id) pool.
Fixpoint resolve (pool : list item) (os : list oobs) : option (list obs) :=
  match os with
  | [] => Some []
  | o :: t => match find_item (fst (fst o)) pool, resolve pool t with
              | Some it, Some r => Some ((it, snd (fst o), snd o) :: r)
              | _, _ => None
              end
  end.
Fixpoint zl_eqb (a b : list Z) : bool :=
  match a, b with
  | [], [] => true
  | x :: a', y :: b' => (x =? y) && zl_eqb a' b'
  | _, _ => false
  end.
Fixpoint nodupb {A} (eqb : A -> A -> bool) (l : list A) : bool :=
  match l with [] => true | x :: t => negb (existsb (eqb x) t) && nodupb eqb t end.
(* what dedup_by(compare_input == Equal) after a sort leaves: one individual per distinct weight vector *)
Definition survivors_ok (pool : list item) (sv : list obs) : bool :=
  nodupb Z.eqb (map (fun o => it_id (fst (fst o))) sv) &&
  nodupb zl_eqb (map (fun o => it_w (fst (fst o))) sv) &&
  forallb (fun p => existsb (fun o => zl_eqb (it_w (fst (fst o))) (it_w p)) sv) pool.
(* the re-trained data of contract_graph: every drained individual exactly once *)
Definition perm_ok (pool : list item) (sv : list obs) : bool :=
  nodupb Z.eqb (map (fun o => it_id (fst (fst o))) sv) && (length sv =? length pool)%nat.

Definition retrain_round (n : net) (allow_growth : bool) (os : list oobs) : res net :=
  let (pool, l') := drain_all (nodes n) in
  match resolve pool os with
  | None => Panic 91
  | Some sv => if survivors_ok pool sv then train_on_data (with_nodes n l') sv allow_growth else Panic 92
  end.
Definition retrain (n : net) (allow_growth : bool) (rounds : list (list oobs)) : res net :=
  fold_left (fun acc os => bind acc (fun m => retrain_round m allow_growth os)) rounds (Ok n).
(* Network::smooth(rebalance_count) *)
Definition smooth (n : net) (rounds : list (list oobs)) : res net := retrain n false rounds.

(* ---------- contraction ---------- *)
(* get_network_shape over the KEYS, starting from (i32::MAX, i32::MIN) *)
Definition i32_max := 2147483647.
Definition i32_min := -2147483648.
Definition shape (l : nmap) : (Z * Z) * (Z * Z) :=
  fold_left (fun acc kv => let '((x0, x1), (y0, y1)) := acc in
                           ((Z.min x0 (fst (fst kv)), Z.max x1 (fst (fst kv))), (Z.min y0 (snd (fst kv)), Z.max y1 (snd (fst kv)))))
            l ((i32_max, i32_min), (i32_max, i32_min)).
(* Rust `/` and `%` on i32 truncate towards zero: Z.quot / Z.rem *)
Definition get_offset (v : Z) (mn mx : Z) (decim : Z) : Z :=
  let left := Z.abs mn in let right := Z.abs mx in
  let extra := if 0 <? v then (if left <? right then -1 else 0)
               else if v <? 0 then (if right <=? left then 1 else 0)
               else 0 (* unreachable!() in the code: v = 0 is always decimated *) in
  Z.quot (- v) decim + extra.
Definition shift (v mn mx decim : Z) : Z := v + get_offset v mn mx decim.
Definition decims (sh : (Z * Z) * (Z * Z)) (dmin dmax : Z) : Z * Z :=
  let '((x0, x1), (y0, y1)) := sh in
  if y1 - y0 <? x1 - x0 then (dmin, dmax) else if x1 - x0 <? y1 - y0 then (dmax, dmin) else (dmax, dmax).
Definition decimated (xd yd : Z) (c : coord) : bool := (Z.rem (fst c) xd =? 0) || (Z.rem (snd c) yd =? 0).
Definition remap_coord (sh : (Z * Z) * (Z * Z)) (xd yd : Z) (c : coord) : coord :=
  (shift (fst c) (fst (fst sh)) (snd (fst sh)) xd, shift (snd c) (fst (snd sh)) (snd (snd sh)) yd).
(* Network::remap: drain; node_modifier (coordinate computed from the KEY); extend keyed by node.coordinate *)
Definition remap (f : coord -> coord) (l : nmap) : nmap :=
  fold_left (fun acc kv => let nd := move (f (fst kv)) (snd kv) in insert (n_c nd) nd acc) l [].
(* removal fold of contract_graph: get_mut(coordinate).unwrap(); drain; remove *)
Definition remove_all (l : nmap) (removed : list coord) : res (list item * nmap) :=
  fold_left (fun acc c => bind acc (fun st => match lookup c (snd st) with
                                              | None => Panic 6
                                              | Some nd => Ok (fst st ++ n_st nd, remove c (snd st))
                                              end)) removed (Ok ([], l)).
Definition contract_graph (n : net) (dmin dmax : Z) (os : list oobs) : res net :=
  let sh := shape (nodes n) in
  let '(xd, yd) := decims sh dmin dmax in
  let removed := filter (decimated xd yd) (map (fun kv => n_c (snd kv)) (nodes n)) in
  if (size n - length removed <? 4)%nat then (match os with [] => Ok n | _ => Panic 93 end)
  else bind (remove_all (nodes n) removed) (fun st =>
         let l2 := remap (remap_coord sh xd yd) (snd st) in
         match resolve (fst st) os with
         | None => Panic 91
         | Some sv => if perm_ok (fst st) sv then train_on_data (with_nodes n l2) sv false else Panic 92
         end).
Definition compact (n : net) (os : list oobs) : res net := contract_graph n 3 4 os.

(* ---------- Network::new ---------- *)
Record config := mkCfg { node_size : nat }.
(* (len as f64 * 0.1).ceil().clamp(4, 16): exact for len <= 59 (the correspondence stays below that) *)
Definition sample_size (len : nat) : nat := Nat.min 16 (Nat.max 4 ((len + 9) / 10)).
(* (k as f64).sqrt().ceil() *)
Definition grid_size (k : nat) : nat := let s := Nat.sqrt k in if (s * s =? k)%nat then s else S s.
Definition grid_coord (g : nat) (i : nat) : coord := (Z.of_nat (i mod g), Z.of_nat (i / g)).
Definition initial_nodes (len d : nat) : nmap :=
  let s := sample_size len in let g := grid_size s in
  map (fun i => (grid_coord g i, mkN (grid_coord g i) d 0 len [])) (seq 0 s).
Definition rebalance_count (len : nat) : nat := Nat.min 12 (Nat.max 8 (len / 4)).

Inductive created := Created (n : net) | CreateErr | CreatePanic (code : nat).
(* assign: second pass of create_initial_nodes (node.storage.add(item) for every data item in order);
   rounds: the retrain(rebalance_count, allow_growth = true) inside Network::new *)
Definition network_new (cfg : config) (data : list item) (assign : list oobs) (rounds : list (list oobs)) : created :=
  match data with
  | [] => CreatePanic 7
  | x0 :: _ =>
    let d := length (it_w x0) in
    let len := length data in
    if negb (forallb (fun it => (length (it_w it) =? d)%nat) data) then CreatePanic 8
    else if (len <? sample_size len)%nat then CreateErr
    else
      let n0 := mkNet (initial_nodes len d) d len in
      if negb (zl_eqb (map (fun o => fst (fst o)) assign) (map it_id data)) then CreatePanic 94 else
      match resolve data assign with
      | None => CreatePanic 91
      | Some asg =>
        match fold_left (fun acc o => bind acc (fun l => match lookup (snd (fst o)) l with
                                                          | None => Panic 95
                                                          | Some _ => Ok (modify (snd (fst o)) (store (fst (fst o))) l)
                                                          end)) asg (Ok (nodes n0)) with
        | Panic c => CreatePanic c
        | Ok l1 =>
          if negb (length rounds =? rebalance_count len)%nat then CreatePanic 96 else
          match retrain (with_nodes n0 l1) true rounds with
          | Panic c => CreatePanic c
          | Ok n2 => Created (mkNet (map (fun kv => (fst kv, resize (node_size cfg) (snd kv))) (nodes n2)) (dim n2) (node_size cfg))
          end
        end
      end
  end.

(* ---------- operations after construction ---------- *)
Inductive op :=
| OStore (data : list obs)
| OSmooth (rounds : list (list oobs))
| OCompact (os : list oobs).
Definition step (n : net) (o : op) : res net :=
  match o with
  | OStore data => store_batch n data
  | OSmooth rounds => smooth n rounds
  | OCompact os => compact n os
  end.
Definition run (n : net) (ops : list op) : res net := fold_left (fun acc o => bind acc (fun m => step m o)) ops (Ok n).

(* ---------- observation: ((key, node.coordinate), (dimension, total_hits, capacity, ids in the storage)) per node ---------- *)
Definition snapshot (n : net) : list ((coord * coord) * (nat * nat * nat * list Z)) :=
  map (fun kv => ((fst kv, n_c (snd kv)), (n_dim (snd kv), n_hits (snd kv), n_cap (snd kv), map it_id (n_st (snd kv))))) (nodes n).
Definition snap_res (r : res net) := match r with Ok n => Ok (snapshot n) | Panic c => Panic c end.
Fixpoint trace (r : res net) (ops : list op) : list (res (list ((coord * coord) * (nat * nat * nat * list Z))))  :=
  match ops with
  | [] => []
  | o :: t => let r' := bind r (fun m => step m o) in snap_res r' :: trace r' t
  end.
(* result: 0 = created, 1 = Err (too few individuals), 2 = panic; then the snapshot after new and after every operation *)
Definition run_net (cfg : config) (data : list item) (assign : list oobs) (rounds : list (list oobs)) (ops : list op) :=
  match network_new cfg data assign rounds with
  | Created n => (0, Ok (snapshot n) :: trace (Ok n) ops)
  | CreateErr => (1, [])
  | CreatePanic c => (2, [Panic c])
  end.

(* ================= Rosomaxa phase machine and elite ================= *)
(* termination_estimate = t/1024, exploration_ratio = er/1024 (HeuristicSpeed Unknown/Moderate; Slow only rescales the ratio) *)
Record rconfig := mkR { r_initial : nat; r_elite : nat; r_er : Z }.
Inductive phase := PInitial (known : nat) | PExploration | PExploitation.
Record rosomaxa := mkRo { ro_cfg : rconfig; ro_elite : list item; ro_phase : phase }.
Definition phase_rank (p : phase) : nat := match p with PInitial _ => 0 | PExploration => 1 | PExploitation => 2 end.

(* Elitism::add_all on the elite (capacity elite_size), after the is_comparable_with_best_known filter *)
Definition comparable (best : option item) (x : item) : bool :=
  match best with None => true | Some b => negb (it_key b <? it_key x) end.
(* the elite's dedup function (create_dedup_fn(0.02): float distances) is a parameter `dd` *)
Definition elite_add_all (dd : item -> item -> bool) (cap : nat) (l : list item) (xs : list item) : list item :=
  match xs with [] => l | _ => firstn cap (dedup_by dd (ssort (l ++ xs))) end.
Definition ro_add_all (dd : item -> item -> bool) (s : rosomaxa) (xs : list item) : rosomaxa :=
  let el := elite_add_all dd (r_elite (ro_cfg s)) (ro_elite s) (filter (comparable (hd_error (ro_elite s))) xs) in
  mkRo (ro_cfg s) el (match ro_phase s with PInitial k => PInitial (k + length xs) | p => p end).
(* Rosomaxa::update_phase; creating the network from fewer individuals than the sample size panics ("cannot create network") *)
Definition ro_on_generation (s : rosomaxa) (t : Z) (er : Z) : res rosomaxa :=
  match ro_phase s with
  | PInitial k =>
    if er <? t then Ok (mkRo (ro_cfg s) (ro_elite s) PExploitation)
    else if (r_initial (ro_cfg s) <=? k)%nat
         then (if (k <? sample_size k)%nat then Panic 10 else Ok (mkRo (ro_cfg s) (ro_elite s) PExploration))
         else Ok s
  | PExploration => if t <? er then Ok s else Ok (mkRo (ro_cfg s) (ro_elite s) PExploitation)
  | PExploitation => Ok s
  end.
Inductive rop := RAdd (xs : list item) | RGen (t : Z) (er : Z).
Definition rstep (dd : item -> item -> bool) (s : rosomaxa) (o : rop) : res rosomaxa :=
  match o with RAdd xs => Ok (ro_add_all dd s xs) | RGen t er => ro_on_generation s t er end.
Definition rrun (dd : item -> item -> bool) (s : rosomaxa) (ops : list rop) : res rosomaxa :=
  fold_left (fun acc o => bind acc (fun m => rstep dd m o)) ops (Ok s).
(* observable: SelectionPhase rank after every operation *)
Fixpoint rtrace (dd : item -> item -> bool) (r : res rosomaxa) (ops : list rop) : list (res nat) :=
  match ops with
  | [] => []
  | o :: t => let r' := bind r (fun s => rstep dd s o) in
              (match r' with Ok s => Ok (phase_rank (ro_phase s)) | Panic c => Panic c end) :: rtrace dd r' t
  end.
Definition ro_new (c : rconfig) : rosomaxa := mkRo c [] (PInitial 0).
Definition run_phase (c : rconfig) (ops : list rop) := rtrace dedupf (Ok (ro_new c)) ops.

(* ---------- specification predicate used by Properties/C19.v (no proofs here) ---------- *)
(* unique keys; every node is filed under its own coordinate, has weights of the network dimension, the capacity handed out by the
   storage factory, and holds at most that many individuals *)
Definition wellformed (n : net) : Prop :=
  NoDup (map fst (nodes n)) /\
  forall c nd, In (c, nd) (nodes n) ->
    n_c nd = c /\ n_dim nd = dim n /\ n_cap nd = fcap n /\ (length (n_st nd) <= n_cap nd)%nat.
(* decimation steps, kept coordinates and coordinate map of Network::compact on n *)
Definition compact_decims (n : net) : Z * Z := decims (shape (nodes n)) 3 4.
Definition compact_keeps (n : net) (c : coord) : bool := negb (decimated (fst (compact_decims n)) (snd (compact_decims n)) c).
Definition compact_map (n : net) (c : coord) : coord := remap_coord (shape (nodes n)) (fst (compact_decims n)) (snd (compact_decims n)) c.

(* ---------- error dynamics of Network::distribute_error in exact arithmetic (finding C19-F1) ----------
   For a neighbour at Manhattan distance `dist` of a node that is saturated again and again, and that is not hit itself, every
   distribution performs  node.error += (distribution_factor / dist) * node.error  with distribution_factor = dfn/16; nothing but
   retrain (smooth) resets node.error.  The error is the exact fraction fst/snd. *)
Definition distribute_once (e : Z * Z) (dfn dist : Z) : Z * Z := (fst e * (16 * dist + dfn), snd e * (16 * dist)).
Fixpoint distribute_times (k : nat) (e : Z * Z) (dfn dist : Z) : Z * Z :=
  match k with O => e | S k' => distribute_times k' (distribute_once e dfn dist) dfn dist end.
Definition f64_max_bound : Z := 2 ^ 1024.      (* f64::MAX < 2^1024 *)

(* ---------- rosomaxa/src/algorithms/math/statistics.rs :: get_mean_slice, get_variance_mean, get_variance, get_stdev over IEEE
   binary64 (Coq primitive floats), and the route-derived part of vrp-core/src/solver/heuristic.rs :: RosomaxaSolution::on_init for a
   solution without routes (finding C19-F2, fixed in /repo by 7897eb0) ---------- *)
From Coq Require Import Floats.
Definition f_zero : float := 0%float.
Definition f_len (l : list float) : float := fold_left (fun a _ => (a + 1)%float) l 0%float.       (* values.len() as Float *)
(* get_mean_slice; get_mean_iter agrees with it on the empty sequence (count == 0 -> 0.) *)
Definition f_mean_slice (l : list float) : float :=
  match l with [] => 0%float | _ => (fold_left PrimFloat.add l 0 / f_len l)%float end.
(* the body of get_variance_mean behind the guard = the whole function before commit 7897eb0 (kept: seeded mutant C19-9) *)
Definition f_variance_prefix (l : list float) : float :=
  let mean := f_mean_slice l in
  let acc := fold_left (fun acc v => let dev := (v - mean)%float in ((fst acc + dev * dev)%float, (snd acc + dev)%float)) l (0%float, 0%float) in
  ((fst acc - (snd acc * snd acc / f_len l)) / f_len l)%float.
Definition f_stdev_prefix (l : list float) : float := PrimFloat.sqrt (f_variance_prefix l).
(* get_variance_mean as it is now: `if values.is_empty() { return (0., 0.); }` first *)
Definition f_variance (l : list float) : float := match l with [] => 0%float | _ => f_variance_prefix l end.
Definition f_stdev (l : list float) : float := PrimFloat.sqrt (f_variance l).
(* x is finite iff x - x == 0 (inf - inf and NaN - NaN are NaN) *)
Definition f_finite (x : float) : bool := PrimFloat.eqb (x - x)%float 0%float.
Definition f_is_zero (x : float) : bool := PrimFloat.eqb x 0%float.
(* weights()[0..11] of on_init when solution.routes is empty, for given variance / stdev functions:
   get_max_load_variance = variance [], get_max_load_mean = mean_iter [], get_full_load_ratio = 0 (total == 0 branch),
   eight more get_mean_iter over per-route values = mean_iter [], get_customers_deviation = stdev [].
   (weights()[12..14] = unassigned count, routes.len() = 0, total cost: not route statistics) *)
Definition f_route_less_features (variance stdev : list float -> float) : list float :=
  [variance []; f_mean_slice []; 0%float] ++ repeat (f_mean_slice []) 8 ++ [stdev []].
Definition f_sample3 : list float := [1%float; 2%float; 4%float].
Definition f_sample1 : list float := [3%float].
(* entry point of the correspondence: are the twelve route-derived weights of a route-less solution all zero? *)
Definition run_route_less : bool := forallb f_is_zero (f_route_less_features f_variance f_stdev).
