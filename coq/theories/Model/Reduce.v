(* C15: the reduction performed by PositionInsertionEvaluator::evaluate_all.
   Rust items modelled:
     vrp-core/src/construction/heuristics/selectors.rs  :: PositionInsertionEvaluator::evaluate_all (fold_reduce over
                                                            cartesian_product(routes, jobs)), BestResultSelector
     vrp-core/src/construction/heuristics/evaluators.rs :: eval_job_insertion_in_route (the fold step: prune by route-level
                                                            cost, otherwise evaluate with best_known_cost and select)
     vrp-core/src/construction/heuristics/insertions.rs :: InsertionResult::choose_best_result (the reducer)
     rosomaxa/src/utils/parallel.rs                     :: fold_reduce = par_iter().fold(identity, fold).reduce(identity, reduce)
   A rayon schedule is a binary tree whose leaves are contiguous chunks of the item list, in order.
   Costs are an abstract strict weak order `lt` (InsertionCost's lexicographic order, C09).  No proofs here. *)
From VRP Require Import Base.Tac.

Section Reduce.
Variable C : Type.
Variable lt : C -> C -> bool.

(* one (route, job) item: result of the full evaluation (None = failure) and the route-level cost estimate *)
Record item := mkItem { it_full : option C; it_rc : C }.

(* choose_best_result, costs only: (S,S) -> right iff lhs.cost > rhs.cost; S beats F; (F,F) -> some failure *)
Definition best (l r : option C) : option C :=
  match l, r with
  | Some a, Some b => if lt b a then Some b else Some a
  | Some a, None => Some a
  | None, _ => r
  end.

(* eval_job_insertion_in_route with alternative = acc *)
Definition step (acc : option C) (i : item) : option C :=
  match acc with
  | Some a =>
    if lt a (it_rc i) then acc                       (* select_cost(alternative, route_costs) = Left: return alternative *)
    else best acc (match it_full i with              (* scan starts from best_known_cost = a: success only if cheaper *)
                   | Some c => if lt c a then Some c else None
                   | None => None
                   end)
  | None => best None (it_full i)
  end.

Inductive tree := Leaf (xs : list item) | Node (l r : tree).
Fixpoint flatten (t : tree) : list item :=
  match t with Leaf xs => xs | Node l r => flatten l ++ flatten r end.
Fixpoint run_tree (t : tree) : option C :=
  match t with
  | Leaf xs => fold_left step xs None
  | Node l r => best (run_tree l) (run_tree r)
  end.
Definition run_seq (xs : list item) : option C := fold_left step xs None.
End Reduce.

(* instance used by the correspondence: cost vectors (integer values), lexicographic with zero padding *)
From VRP Require Import Model.CostOrder.
Definition vlt (a b : list Z) : bool := match vcost_cmp a b with Lt => true | _ => false end.
Definition mk_item (full : option (list Z)) (rc : list Z) : item (list Z) := mkItem _ full rc.
(* sequential result, and the result of every two-chunk split *)
Definition run_c15 (xs : list (item (list Z))) : option (list Z) * list (option (list Z)) :=
  (run_seq _ vlt xs,
   map (fun k => run_tree _ vlt (Node _ (Leaf _ (firstn k xs)) (Leaf _ (skipn k xs)))) (seq 0 (S (length xs)))).
