(* C04: the shipped search operators as PROGRAMS over the primitives of Model/Context.v.  Every random draw, every
   selection by cost / proximity / hash order and every answer of the insertion evaluator is an ORACLE argument; what is
   modelled is the control skeleton of each operator and every mutation of the solution context it performs.
   Rust items modelled (vrp-core/src):
     solver/search/utils/removal.rs      :: JobRemovalTracker::{new, is_limit, is_affected_actor, is_removed_job,
                                            get_affected_actors, try_remove_job, try_remove_route, can_remove_full_route,
                                            remove_whole_route, try_remove_part_route}, get_total_activities
     solver/search/ruin/random_job_removal.rs    :: RandomJobRemoval::run                     (ruin_random_job)
     solver/search/ruin/neighbour_removal.rs     :: NeighbourRemoval::run                     (ruin_neighbour)
     solver/search/ruin/cluster_removal.rs       :: ClusterRemoval::run                       (ruin_cluster)
     solver/search/ruin/worst_jobs_removal.rs    :: WorstJobRemoval::run                      (ruin_worst_jobs)
     solver/search/ruin/adjusted_string_removal.rs :: AdjustedStringRemoval::run              (ruin_asr)
     solver/search/ruin/route_removal.rs         :: RandomRouteRemoval::run, CloseRouteRemoval::run, WorstRouteRemoval::run,
                                                    remove_routes_with_actors                 (ruin_random_route, ruin_routes_by_actor)
     solver/search/ruin/mod.rs                   :: CompositeRuin::run (+ InsertionContext::restore)   (composite_ruin)
     solver/search/utils/selection.rs            :: get_route_jobs (job -> route index, last writer wins)
     construction/heuristics/insertions.rs       :: InsertionHeuristic::process (prepare / success / failure / finalize),
                                                    apply_insertion_success, apply_insertion_failure, finalize_insertion_ctx
     solver/search/recreate/*.rs                 :: every Recreate::run = process with its selectors (recreate)
     solver/search/ruin_recreate.rs              :: RuinAndRecreate::search
     solver/search/local/exchange_sequence.rs    :: get_route_indices, exchange_jobs, extract_jobs, insert_jobs
     solver/search/local/exchange_inter_route.rs :: find_best_insertion_pair (Best and Random), get_new_insertion_ctx
     solver/search/local/exchange_intra_route.rs :: ExchangeIntraRouteRandom::explore
     solver/search/local/exchange_swap_star.rs   :: try_exchange_jobs_in_routes as a list of guarded moves
     solver/search/local/reschedule_departure.rs :: RescheduleDeparture::explore
     solver/search/local/mod.rs                  :: apply_insertion_with_route, CompositeLocalOperator::explore
     solver/search/local_search.rs               :: LocalSearch::search (None = copy of the parent)
     solver/search/decompose_search.rs           :: create_multiple_insertion_contexts, create_partial_insertion_ctx,
                                                    create_empty_insertion_ctxs, refine_decomposed, merge_best
     solver/search/redistribute_search.rs        :: remove_jobs (to `unassigned`), search
   NOT modelled as programs: InfeasibleSearch, LKHSearch, repair_solution_from_unknown (the repair re-inserts activity by
   activity, a multi job is transiently split - outside the vocabulary of `step`; see notes/C04.md, findings C04-F4/F1/F5).
   Conventions.
   * Jobs an operator keeps in a LOCAL vector between `tour.remove` and the insertion attempt (exchange_sequence,
     exchange_inter_route, swap-star) live in `required` in the model; at the end of the operator both are the same
     (finalize_unassigned moves what is left of `required` to `unassigned`; a failed job is put into `unassigned`).
   * A hash-set iteration order (tour.jobs()) is the first-appearance order here; pending lists are compared as sets.
   * The ruins are TOTAL functions (for every oracle value the tracker's own guards decide).  Programs that apply an
     insertion return `option`: None = the oracle broke the evaluator's contract (`step (PInsert ..)` fails its guard:
     the new tour is not accepted by `route_ok`, the job is not pending, the group rule), which C06 proves never happens
     for the shipped transport/capacity evaluator.
   run_* entry points used by the correspondence (tools/props/c04_ops.py): run_ruin_case, run_sequence_case, run_calls.
   No proofs in this file. *)
From VRP Require Import Base.Tac Model.Core Spec.Feasible Model.Eval Spec.Inv Model.Context.

(* ================= helpers ================= *)
Definition add_set (x : Z) (l : list Z) : list Z := if memz x l then l else l ++ [x].
Definition uniq (l : list Z) : list Z := fold_left (fun acc x => add_set x acc) l [].
Definition route_jobs (r : rdump) : list Z := uniq (job_ids r).                 (* tour.jobs() *)
Definition job_count (r : rdump) : nat := length (route_jobs r).                (* tour.job_count() *)
Definition activity_count (r : rdump) : nat := length (job_ids r).              (* tour.job_activity_count() *)
Definition parts_of (P : pworld) (j : Z) : Z :=                                  (* get_total_activities *)
  match find_job P j with Some s => Z.of_nat (j_parts s) | None => 1 end.
Definition set_nth (k : nat) (x : rdump) (l : list rdump) : list rdump := firstn k l ++ x :: skipn (S k) l.
Fixpoint find_index {A} (p : A -> bool) (l : list A) : option nat :=
  match l with
  | [] => None
  | x :: r => if p x then Some 0%nat else option_map S (find_index p r)
  end.
Definition find_last_index {A} (p : A -> bool) (l : list A) : option nat :=
  option_map (fun k => (length l - 1 - k)%nat) (find_index p (rev l)).
Definition has_locked (d : dump) (r : rdump) : bool := existsb (fun j => memz j (d_locked d)) (job_ids r).

(* total versions of the unguarded primitives *)
Definition p_finalize (d : dump) : dump :=
  mkDump (d_routes d) [] (d_ignored d)
         (d_unassigned d ++ filter (fun j => negb (memz j (d_unassigned d))) (d_required d)) (d_locked d) (d_avail d).
Definition p_drop_empty (d : dump) : dump :=
  mkDump (filter nonempty (d_routes d)) (d_required d) (d_ignored d) (d_unassigned d) (d_locked d)
         (map r_actor (filter (fun r => negb (nonempty r)) (d_routes d)) ++ d_avail d).
Definition finalize_ctx (d : dump) : dump := p_drop_empty (p_finalize d).         (* finalize_insertion_ctx *)
Definition try_step (P : pworld) (p : prim) (d : dump) : dump := match step P p d with Some d' => d' | None => d end.

(* ================= JobRemovalTracker ================= *)
Record tracker := mkTr { t_acts : Z; t_routes : Z; t_actors : list Z; t_removed : list Z }.
Definition tracker_new (acts routes : Z) : tracker := mkTr acts routes [] [].
Definition is_limit (t : tracker) : bool := (t_acts t =? 0) || (t_routes t =? 0).
Definition rst := (tracker * dump)%type.

Definition try_remove_job (P : pworld) (st : rst) (idx : nat) (j : Z) : rst * bool :=
  let '(tr, d) := st in
  if t_acts tr =? 0 then (st, false) else
  if memz j (d_locked d) then (st, false) else
  match nth_error (d_routes d) idx with
  | Some r =>
    if serves r j then
      ((mkTr (Z.max (t_acts tr - parts_of P j) 0) (t_routes tr) (add_set (r_actor r) (t_actors tr)) (add_set j (t_removed tr)),
        mkDump (set_nth idx (mkRoute (r_actor r) (remove_job_acts j (r_acts r))) (d_routes d))
               (d_required d ++ [j]) (d_ignored d) (d_unassigned d) (d_locked d) (d_avail d)), true)
    else (st, false)
  | None => (st, false)
  end.

(* a run of try_remove_job calls on one route *)
Definition remove_jobs_at (P : pworld) (idx : nat) (jobs : list Z) (st : rst) : rst :=
  fold_left (fun s j => fst (try_remove_job P s idx j)) jobs st.

Definition sum_parts (P : pworld) (l : list Z) : Z := fold_right (fun j acc => parts_of P j + acc) 0 l.

Definition can_remove_full_route (st : rst) (r : rdump) (hit : bool) : bool :=
  let '(tr, d) := st in
  if (activity_count r =? 0)%nat then false
  else if has_locked d r then false
  else if Z.of_nat (activity_count r) <=? t_acts tr then true
  else hit.

(* keep_routes(actor != a): every route of the actor goes, the actor is given back to the registry *)
Definition remove_whole_route (P : pworld) (st : rst) (r : rdump) : rst :=
  let '(tr, d) := st in
  let jobs := route_jobs r in
  (mkTr (Z.max (t_acts tr - sum_parts P jobs) 0) (Z.max (t_routes tr - 1) 0)
        (add_set (r_actor r) (t_actors tr)) (fold_left (fun acc j => add_set j acc) jobs (t_removed tr)),
   mkDump (others d (r_actor r)) (d_required d ++ jobs) (d_ignored d) (d_unassigned d) (d_locked d)
          (r_actor r :: d_avail d)).

(* jobs.shuffle(); jobs.truncate(activities_left); retain(try_remove_job): `sel` = the shuffled jobs *)
Definition try_remove_part_route (P : pworld) (st : rst) (idx : nat) (sel : list Z) : rst * bool :=
  let '(tr0, d0) := st in
  let '(tr, d) := remove_jobs_at P idx (firstn (Z.to_nat (t_acts tr0)) sel) st in
  ((mkTr (t_acts tr) (Z.max (t_routes tr - 1) 0) (t_actors tr) (t_removed tr), d),
   negb (length (d_required d0) =? length (d_required d))%nat).

Definition try_remove_route (P : pworld) (st : rst) (idx : nat) (hit : bool) (sel : list Z) : rst * bool :=
  let '(tr, d) := st in
  if (t_routes tr =? 0) || (t_acts tr =? 0) then (st, false) else
  match nth_error (d_routes d) idx with
  | Some r => if can_remove_full_route st r hit then (remove_whole_route P st r, true)
              else try_remove_part_route P st idx sel
  | None => (st, false)                  (* expect("invalid route index"): not reachable from the shipped callers *)
  end.

(* ================= the ruins ================= *)
(* RandomJobRemoval: at most `lim_end` rounds while the limit is not reached; a round = the seed job picked (oracle) *)
Fixpoint ruin_random_job_loop (P : pworld) (picks : list (option (nat * Z))) (st : rst) : rst :=
  match picks with
  | [] => st
  | p :: rest =>
    if is_limit (fst st) then st
    else ruin_random_job_loop P rest (match p with Some (idx, j) => fst (try_remove_job P st idx j) | None => st end)
  end.
Definition ruin_random_job (P : pworld) (lim_end : nat) (acts routes : Z) (picks : list (option (nat * Z))) (d : dump) : dump :=
  match d_routes d with
  | [] => d
  | _ => snd (ruin_random_job_loop P (firstn lim_end picks) (tracker_new acts routes, d))
  end.

(* the route that holds a job right now: routes.iter().position(tour.contains(job)) *)
Definition route_of_job (d : dump) (j : Z) : option nat := find_index (fun r => serves r j) (d_routes d).

(* NeighbourRemoval: seed + its neighbours (oracle list), while the limit is not reached *)
Fixpoint ruin_neighbour_loop (P : pworld) (jobs : list Z) (st : rst) : rst :=
  match jobs with
  | [] => st
  | j :: rest =>
    if is_limit (fst st) then st
    else ruin_neighbour_loop P rest (match route_of_job (snd st) j with
                                     | Some idx => fst (try_remove_job P st idx j) | None => st end)
  end.
Definition ruin_neighbour (P : pworld) (acts routes : Z) (jobs : list Z) (d : dump) : dump :=
  snd (ruin_neighbour_loop P jobs (tracker_new acts routes, d)).

(* get_route_jobs: computed once, before the removals *)
Definition route_jobs_map (d0 : dump) (j : Z) : option nat := find_last_index (fun r => serves r j) (d_routes d0).

(* ClusterRemoval: shuffled clusters with shuffled members (oracle), both loops guarded by the limit *)
Fixpoint ruin_mapped_jobs (P : pworld) (d0 : dump) (jobs : list Z) (st : rst) : rst :=
  match jobs with
  | [] => st
  | j :: rest =>
    if is_limit (fst st) then st
    else ruin_mapped_jobs P d0 rest (match route_jobs_map d0 j with
                                     | Some idx => fst (try_remove_job P st idx j) | None => st end)
  end.
Fixpoint ruin_cluster_loop (P : pworld) (d0 : dump) (clusters : list (list Z)) (st : rst) : rst :=
  match clusters with
  | [] => st
  | c :: rest => if is_limit (fst st) then st else ruin_cluster_loop P d0 rest (ruin_mapped_jobs P d0 c st)
  end.
Definition ruin_cluster (P : pworld) (acts routes : Z) (clusters : list (list Z)) (d : dump) : dump :=
  snd (ruin_cluster_loop P d clusters (tracker_new acts routes, d)).

(* WorstJobRemoval: per route (shuffled) the worst job after `skip` (oracle; it must be neither locked nor unassigned)
   followed by its neighbours *)
Fixpoint ruin_worst_loop (P : pworld) (d0 : dump) (per_route : list (option (Z * list Z))) (st : rst) : rst :=
  match per_route with
  | [] => st
  | w :: rest =>
    if is_limit (fst st) then st
    else ruin_worst_loop P d0 rest
           (match w with
            | Some (j, neigh) =>
              if negb (memz j (d_locked (snd st))) && negb (memz j (d_unassigned (snd st)))
              then ruin_mapped_jobs P d0 (j :: neigh) st else st
            | None => st
            end)
  end.
Definition ruin_worst_jobs (P : pworld) (acts routes : Z) (per_route : list (option (Z * list Z))) (d : dump) : dump :=
  snd (ruin_worst_loop P d per_route (tracker_new acts routes, d)).

(* AdjustedStringRemoval: neighbours of the seed (oracle) that are not removed yet, until `ks` tours are affected; the tour
   of a neighbour must not be affected yet; the string of that tour is an oracle list *)
Definition asr_route (st : rst) (j : Z) : option nat :=
  find_index (fun r => negb (memz (r_actor r) (t_actors (fst st))) && serves r j) (d_routes (snd st)).
Fixpoint ruin_asr_loop (P : pworld) (ks : nat) (items : list (Z * list Z)) (st : rst) : rst :=
  match items with
  | [] => st
  | (j, str) :: rest =>
    if memz j (t_removed (fst st)) then ruin_asr_loop P ks rest st
    else if (length (t_actors (fst st)) =? ks)%nat then st
    else ruin_asr_loop P ks rest (match asr_route st j with Some idx => remove_jobs_at P idx str st | None => st end)
  end.
Definition ruin_asr (P : pworld) (acts routes : Z) (ks : nat) (items : list (Z * list Z)) (d : dump) : dump :=
  snd (ruin_asr_loop P ks items (tracker_new acts routes, d)).

(* RandomRouteRemoval: min(range.end, #routes) rounds; the index drawn is taken modulo the current number of routes *)
Fixpoint ruin_random_route_loop (P : pworld) (targets : list (nat * bool * list Z)) (st : rst) : rst :=
  match targets with
  | [] => st
  | (k, hit, sel) :: rest =>
    let n := length (d_routes (snd st)) in
    ruin_random_route_loop P rest (if (n =? 0)%nat then st else fst (try_remove_route P st (k mod n)%nat hit sel))
  end.
Definition ruin_random_route (P : pworld) (lim_end : nat) (acts routes : Z) (targets : list (nat * bool * list Z)) (d : dump) : dump :=
  snd (ruin_random_route_loop P (firstn (Nat.min lim_end (length (d_routes d))) targets) (tracker_new acts routes, d)).

(* CloseRouteRemoval / WorstRouteRemoval -> remove_routes_with_actors: the actors come from the oracle *)
Fixpoint ruin_actor_loop (P : pworld) (targets : list (Z * bool * list Z)) (st : rst) : rst :=
  match targets with
  | [] => st
  | (a, hit, sel) :: rest =>
    ruin_actor_loop P rest (match find_index (fun r => r_actor r =? a) (d_routes (snd st)) with
                            | Some idx => fst (try_remove_route P st idx hit sel) | None => st end)
  end.
Definition ruin_routes_by_actor (P : pworld) (acts routes : Z) (targets : list (Z * bool * list Z)) (d : dump) : dump :=
  match d_routes d with
  | [] => d
  | _ => snd (ruin_actor_loop P targets (tracker_new acts routes, d))
  end.

Inductive ruin_call :=
| RRandomJob (lim_end : nat) (acts routes : Z) (picks : list (option (nat * Z)))
| RNeighbour (acts routes : Z) (jobs : list Z)
| RCluster (acts routes : Z) (clusters : list (list Z))
| RWorstJobs (acts routes : Z) (per_route : list (option (Z * list Z)))
| RAsr (acts routes : Z) (ks : nat) (items : list (Z * list Z))
| RRandomRoute (lim_end : nat) (acts routes : Z) (targets : list (nat * bool * list Z))
| RRoutesByActor (acts routes : Z) (targets : list (Z * bool * list Z)).

Definition run_ruin (P : pworld) (c : ruin_call) (d : dump) : dump :=
  match c with
  | RRandomJob le a r picks => ruin_random_job P le a r picks d
  | RNeighbour a r jobs => ruin_neighbour P a r jobs d
  | RCluster a r cl => ruin_cluster P a r cl d
  | RWorstJobs a r pr => ruin_worst_jobs P a r pr d
  | RAsr a r ks items => ruin_asr P a r ks items d
  | RRandomRoute le a r ts => ruin_random_route P le a r ts d
  | RRoutesByActor a r ts => ruin_routes_by_actor P a r ts d
  end.

(* CompositeRuin: nothing at all on a solution without tours; otherwise the ruins that were hit, then restore *)
Definition composite_ruin (P : pworld) (cs : list ruin_call) (d : dump) : dump :=
  match d_routes d with
  | [] => d
  | _ => p_drop_empty (fold_left (fun s c => run_ruin P c s) cs d)
  end.

(* ================= insertion heuristic ================= *)
Definition isteps := list (nat * ract).
Inductive round :=
| RSuccess (job : Z) (actor : Z) (steps : isteps)         (* evaluate_all -> Success: apply_insertion_success *)
| RFailJob (job : Z) (all_unassignable : bool)            (* Failure naming a job *)
| RFailNone.                                              (* Failure without a job: no route available *)

Definition bind {A B} (x : option A) (f : A -> option B) : option B := match x with Some a => f a | None => None end.

(* apply_insertion_failure on the lists: the job goes to `unassigned` (it may be there already: prepare_insertion_ctx copied
   the keys of `unassigned` into `required`, which the model folds into the guard of PInsert) *)
Definition fail_job (P : pworld) (j : Z) (d : dump) : dump := try_step P (PFail j) d.

Fixpoint process_loop (P : pworld) (rounds : list round) (d : dump) : option dump :=
  match rounds with
  | [] => Some d
  | RSuccess j a steps :: rest => bind (step P (PInsert a j steps) d) (process_loop P rest)
  | RFailJob j all :: rest => process_loop P rest (let d1 := fail_job P j d in if all then p_finalize d1 else d1)
  | RFailNone :: rest => process_loop P rest (p_finalize d)
  end.
(* InsertionHeuristic::process = every Recreate::run *)
Definition recreate (P : pworld) (rounds : list round) (d : dump) : option dump :=
  option_map finalize_ctx (process_loop P rounds d).

(* ================= local operators ================= *)
(* ---- ExchangeSequence ---- *)
Definition unlocked_jobs (d : dump) (r : rdump) : list Z := filter (fun j => negb (memz j (d_locked d))) (route_jobs r).
Definition seq_route_indices (d : dump) : list nat :=
  map fst (filter (fun kr => (2 <=? length (unlocked_jobs d (snd kr)))%nat) (combine (seq 0 (length (d_routes d))) (d_routes d))).

(* extract_jobs: the unlocked jobs in first-appearance order, a window of `size` starting at `start` (both drawn) *)
Definition extract_jobs (P : pworld) (idx size start : nat) (d : dump) : list Z * dump :=
  match nth_error (d_routes d) idx with
  | Some r =>
    let jobs := unlocked_jobs d r in
    let size' := Nat.min size (length jobs) in
    let start' := Nat.min start (length jobs - size')%nat in
    let sel := firstn size' (skipn start' jobs) in
    (sel, fold_left (fun s j => try_step P (PRemove (r_actor r) j false) s) sel d)
  | None => ([], d)
  end.

(* insert_jobs: the jobs in the order chosen (reversed / shuffled / as they are), each with the evaluator's answer:
   Some steps = first feasible position found, None = failure (the job ends in `unassigned`) *)
Fixpoint insert_jobs (P : pworld) (a : Z) (res : list (Z * option isteps)) (d : dump) : option dump :=
  match res with
  | [] => Some d
  | (j, Some steps) :: rest => bind (step P (PInsert a j steps) d) (insert_jobs P a rest)
  | (j, None) :: rest => insert_jobs P a rest (fail_job P j d)
  end.

Definition actor_at (d : dump) (idx : nat) : Z := match nth_error (d_routes d) idx with Some r => r_actor r | None => -1 end.
Definition same_jobs (a b : list Z) : bool := forallb (fun j => memz j b) a && forallb (fun j => memz j a) b.

Record seq_oracle := mkSeq {
  so_first : nat; so_size1 : nat; so_start1 : nat;            (* position in route_indices, sequence size, window start *)
  so_second : nat; so_size2 : nat; so_start2 : nat;
  so_into_first : list (Z * option isteps);                     (* what is inserted into the first tour, in order *)
  so_into_second : list (Z * option isteps) }.

Definition exchange_sequence (P : pworld) (o : seq_oracle) (d : dump) : option dump :=
  let ris := seq_route_indices d in
  match ris with
  | [] => Some d                                                 (* explore returns None: the parent is kept *)
  | _ =>
    let i1 := nth (so_first o mod length ris) ris 0%nat in
    let i2 := nth (so_second o mod length ris) ris 0%nat in
    let a1 := actor_at d i1 in
    let a2 := actor_at d i2 in
    let '(jobs1, d1) := extract_jobs P i1 (so_size1 o) (so_start1 o) d in
    if (i1 =? i2)%nat then
      if same_jobs (map fst (so_into_first o)) jobs1
      then option_map finalize_ctx (insert_jobs P a1 (so_into_first o) d1) else None
    else
      let '(jobs2, d2) := extract_jobs P i2 (so_size2 o) (so_start2 o) d1 in
      if same_jobs (map fst (so_into_first o)) jobs2 && same_jobs (map fst (so_into_second o)) jobs1
      then option_map finalize_ctx (bind (insert_jobs P a1 (so_into_first o) d2) (insert_jobs P a2 (so_into_second o)))
      else None
  end.

(* ---- ExchangeInterRoute (Best / Random): seed job out of its tour, a test job out of another tour, each into the other's tour ---- *)
Record inter_oracle := mkInter {
  io_seed_route : nat; io_seed_job : Z;
  io_pair : option (nat * Z * isteps * isteps) }.     (* test route, test job, test job into the seed tour, seed job into the test tour *)

Definition exchange_inter_route (P : pworld) (o : inter_oracle) (d : dump) : option dump :=
  if memz (io_seed_job o) (d_locked d) then Some d else
  match nth_error (d_routes d) (io_seed_route o), io_pair o with
  | Some rs, Some (ti, tj, into_seed, into_test) =>
    match nth_error (d_routes d) ti with
    | Some rt =>
      if (ti =? io_seed_route o)%nat || memz tj (d_locked d) then Some d else
      match step P (PRemove (r_actor rs) (io_seed_job o) false) d with
      | Some d1 =>
        match step P (PRemove (r_actor rt) tj false) d1 with
        | Some d2 =>
          option_map finalize_ctx
            (bind (step P (PInsert (r_actor rs) tj into_seed) d2) (step P (PInsert (r_actor rt) (io_seed_job o) into_test)))
        | None => Some d
        end
      | None => Some d
      end
    | None => Some d
    end
  | _, _ => Some d
  end.

(* ---- ExchangeIntraRouteRandom: one unlocked job out of a tour with 2+ jobs and back into the same tour ---- *)
Definition exchange_intra_route (P : pworld) (idx : nat) (j : Z) (res : option isteps) (d : dump) : option dump :=
  match nth_error (d_routes d) idx, res with
  | Some r, Some steps =>
    if (2 <=? job_count r)%nat then
      match step P (PRemove (r_actor r) j false) d with
      | Some d1 => option_map finalize_ctx (step P (PInsert (r_actor r) j steps) d1)
      | None => Some d
      end
    else Some d
  | _, _ => Some d
  end.

(* ---- ExchangeSwapStar: per route pair the best exchange found is applied as remove/remove/insert/insert followed by
   finalize_insertion_ctx (try_exchange_jobs); a pair without two successes changes nothing ---- *)
Definition swap_move := (Z * Z * Z * isteps * Z * isteps)%type.   (* actor1, job1 (out of tour 1), actor2, job1's steps in tour 2, job2 (out of tour 2), job2's steps in tour 1 *)
Fixpoint exchange_swap_star (P : pworld) (moves : list swap_move) (d : dump) : option dump :=
  match moves with
  | [] => Some d
  | (a1, j1, a2, s1, j2, s2) :: rest =>
    match bind (step P (PRemove a1 j1 false) d) (step P (PRemove a2 j2 false)) with
    | Some d1 => bind (option_map finalize_ctx (bind (step P (PInsert a2 j1 s1) d1) (step P (PInsert a1 j2 s2))))
                      (exchange_swap_star P rest)
    | None => exchange_swap_star P rest d
    end
  end.

(* ---- RescheduleDeparture: a new departure per tour (advance / recede), then accept_solution_state ---- *)
Fixpoint reschedule_departure (P : pworld) (deps : list (Z * Z)) (d : dump) : option dump :=
  match deps with
  | [] => Some d
  | (a, dep) :: rest => bind (step P (PDeparture a dep) d) (reschedule_departure P rest)
  end.

(* ================= RedistributeSearch ================= *)
(* remove_jobs: unlocked jobs of sampled tours go straight to `unassigned`; then the recreate under the extra rule
   (part of the evaluator's answer), restore, finalize *)
Definition redistribute (P : pworld) (removals : list (Z * Z)) (rounds : list round) (d : dump) : option dump :=
  let d1 := fold_left (fun s aj => try_step P (PRemove (fst aj) (snd aj) true) s) removals d in
  option_map (fun x => finalize_ctx (p_drop_empty x)) (recreate P rounds d1).

(* ================= DecomposeSearch ================= *)
Definition memn (k : nat) (l : list nat) : bool := existsb (Nat.eqb k) l.
Definition select_routes (idxs : list nat) (rs : list rdump) : list rdump :=
  flat_map (fun k => match nth_error rs k with Some r => [r] | None => [] end) idxs.
Definition served_by (rs : list rdump) (j : Z) : bool := existsb (fun r => serves r j) rs.

(* create_multiple_insertion_contexts: walk the tours in order; a tour that is not used yet opens a group of a drawn size,
   filled with the closest tours (oracle list) that are not used yet *)
Fixpoint split_groups (n : nat) (idxs : list nat) (orc : list (nat * list nat)) (used : list nat) : list (list nat) :=
  match idxs with
  | [] => []
  | i :: rest =>
    if memn i used then split_groups n rest orc used
    else let '(size, cands, orc') := match orc with [] => (1%nat, [], []) | (s, c) :: o => (s, c, o) end in
         let g := i :: firstn (size - 1) (nodup Nat.eq_dec (filter (fun k => negb (memn k (i :: used)) && (k <? n)%nat) cands)) in
         g :: split_groups n rest orc' (g ++ used)
  end.
Definition route_groups (d : dump) (orc : list (nat * list nat)) : list (list nat) :=
  split_groups (length (d_routes d)) (seq 0 (length (d_routes d))) orc [].

(* create_partial_insertion_ctx for a non-empty group: its tours, the locked jobs they serve, a registry sliced to its actors *)
Definition group_ctx (d : dump) (idxs : list nat) : dump :=
  let rs := select_routes idxs (d_routes d) in
  mkDump rs [] [] [] (filter (served_by rs) (d_locked d)) [].
(* create_empty_insertion_ctxs: everything pending, every locked id, no tour, the whole registry (free actors stay free) *)
Definition has_leftover (d : dump) : bool :=
  match d_required d, d_unassigned d, d_ignored d, d_locked d with [], [], [], [] => false | _, _, _, _ => true end.
Definition leftover_ctx (d : dump) : dump :=
  mkDump [] (d_required d) (d_ignored d) (d_unassigned d) (d_locked d) (d_avail d).
(* create_partial_insertion_ctx for the empty index set (what merge_best compares the refined leftover with) *)
Definition leftover_partial (d : dump) : dump :=
  mkDump [] (d_required d) (d_ignored d) (d_unassigned d) (filter (fun j => negb (served_by (d_routes d) j)) (d_locked d)) [].

Definition decompose_parts (d : dump) (orc : list (nat * list nat)) : list dump :=
  map (group_ctx d) (route_groups d orc) ++ (if has_leftover d then [leftover_ctx d] else []).
(* the part merge_best falls back to when the refined one is not better *)
Definition decompose_fallbacks (d : dump) (orc : list (nat * list nat)) : list dump :=
  map (group_ctx d) (route_groups d orc) ++ (if has_leftover d then [leftover_partial d] else []).

Definition empty_dump (P : pworld) : dump := mkDump [] [] [] [] [] (map vs_id (pw_vehicles P)).   (* InsertionContext::new_empty *)
Definition merge_all (P : pworld) (parts : list dump) : dump := fold_left (merge P) parts (empty_dump P).

(* what an inner search run on a part must respect (executable; Proofs/OperatorsP.v: refines_b_spec) *)
Definition count_group (P : pworld) (g : Z) (d : dump) : nat := length (filter (has_group P g) (d_routes d)).
Definition refines_b (P : pworld) (part ref : dump) : bool :=
  forallb (fun s => Nat.eqb (homes ref (j_id s)) (homes part (j_id s))) (pw_jobs P) &&
  forallb (known P) (mentioned ref) &&
  nodupb (d_required ref) && nodupb (d_ignored ref) && nodupb (d_unassigned ref) && nodupb (used ref) &&
  forallb (fun a => memz a (used part ++ d_avail part)) (used ref) &&
  forallb (route_ok P) (d_routes ref) &&
  forallb (fun g => (count_group P g ref <=? count_group P g part)%nat) (groups_of P) &&
  forallb (fun l => implb (lock_ok part l) (lock_ok ref l)) (pw_locks P).

Fixpoint choose (bs : list bool) (refined fallbacks : list dump) : list dump :=
  match refined, fallbacks with
  | r :: rs, f :: fs => (match bs with true :: _ => r | _ => f end) :: choose (tl bs) rs fs
  | _, _ => []
  end.
Fixpoint forallb2 {A B} (p : A -> B -> bool) (l : list A) (m : list B) : bool :=
  match l, m with
  | [], [] => true
  | a :: l', b :: m' => p a b && forallb2 p l' m'
  | _, _ => false
  end.

(* the decomposed branch: refine every part (oracle: the best individual of every part's population), keep it or the
   original part (oracle: total_order), merge, restore, finalize.  None = a refinement broke the contract `refines_b`. *)
Definition decompose_merge (P : pworld) (orc : list (nat * list nat)) (refined : list dump) (better : list bool) (d : dump) : option dump :=
  let parts := decompose_parts d orc in
  if forallb2 (refines_b P) parts refined
  then Some (finalize_ctx (p_drop_empty (merge_all P (choose better refined (decompose_fallbacks d orc)))))
  else None.

(* ================= histories: the sum type of all modelled operator calls ================= *)
Inductive opcall :=
| OCompositeRuin (cs : list ruin_call)
| ORecreate (rounds : list round)
| ORuinRecreate (cs : list ruin_call) (rounds : list round)
| OExchangeSequence (o : seq_oracle)
| OExchangeInterRoute (o : inter_oracle)
| OExchangeIntraRoute (idx : nat) (j : Z) (res : option isteps)
| OExchangeSwapStar (moves : list swap_move)
| ORescheduleDeparture (deps : list (Z * Z))
| ORedistribute (removals : list (Z * Z)) (rounds : list round)
| ODecompose (orc : list (nat * list nat)) (refined : list dump) (better : list bool) (fb_ruins : list ruin_call) (fb_rounds : list round).

Definition ruin_recreate (P : pworld) (cs : list ruin_call) (rounds : list round) (d : dump) : option dump :=
  recreate P rounds (composite_ruin P cs d).

Definition run_op (P : pworld) (c : opcall) (d : dump) : option dump :=
  match c with
  | OCompositeRuin cs => Some (composite_ruin P cs d)
  | ORecreate rounds => recreate P rounds d
  | ORuinRecreate cs rounds => ruin_recreate P cs rounds d
  | OExchangeSequence o => exchange_sequence P o d
  | OExchangeInterRoute o => exchange_inter_route P o d
  | OExchangeIntraRoute idx j res => exchange_intra_route P idx j res d
  | OExchangeSwapStar moves => exchange_swap_star P moves d
  | ORescheduleDeparture deps => reschedule_departure P deps d
  | ORedistribute removals rounds => redistribute P removals rounds d
  | ODecompose orc refined better fr fo =>
    match d_routes d with
    | [] => ruin_recreate P fr fo d                                (* create_multiple_insertion_contexts: None *)
    | _ => if (length (decompose_parts d orc) <=? 1)%nat then ruin_recreate P fr fo d
           else decompose_merge P orc refined better d
    end
  end.

(* a history threads the solution through the calls (CompositeLocalOperator, LocalSearch, the solver's loop) *)
Definition run_calls (P : pworld) (cs : list opcall) (d : dump) : option dump :=
  fold_left (fun s c => bind s (run_op P c)) cs (Some d).
(* all the solutions of a history: the k-th one is the parent of the (k+1)-th call *)
Fixpoint trace_calls (P : pworld) (cs : list opcall) (d : dump) : list dump :=
  d :: match cs with
       | [] => []
       | c :: rest => match run_op P c d with Some d' => trace_calls P rest d' | None => [] end
       end.

(* ================= correspondence entry points ================= *)
Definition run_ruin_case (P : pworld) (before : dump) (cs : list ruin_call) := canon P (composite_ruin P cs before).
Definition run_op_case (P : pworld) (before : dump) (c : opcall) :=
  match run_op P c before with Some d' => (1, [canon P d']) | None => (0, []) end.
