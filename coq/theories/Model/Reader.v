(* C10 — executable model of the pragmatic reader BEHIND validation on the extended document (Model/ValidationX.v): every step of
   problem_reader.rs::map_to_problem that can end in an error code or in a panic, in the order of the code.  NO PROOFS in this file.

   Rust items modelled (as written):
     vrp-pragmatic/src/format/problem/problem_reader.rs :: map_to_problem (validate, then the steps below), get_problem_properties
                                                  (has_multi_dimen_capacity, has_breaks, has_reloads), get_problem_blocks (order of the steps,
                                                  E0002 for create_transport_costs and for DynamicTransportCost::new), read_reserved_times_index,
                                                  to_multi_format_error (E0000 "cannot create vrp variant")
     vrp-pragmatic/src/format/problem/fleet_reader.rs   :: read_fleet (Model/Validation.v :: fleet_panics), create_transport_costs WITH
                                                  timestamps (profile / timestamp mix, parse_time_safe on the timestamp)
     vrp-core/src/models/problem/costs.rs        :: create_matrix_transport_cost(_with_fallback) (time-aware when a timestamp is present),
                                                  TimeAgnosticMatrixTransportCost::new, TimeAwareMatrixTransportCost::new (every Err)
     vrp-core/src/construction/enablers/reserved_time.rs :: create_reserved_times_fn as reached from DynamicTransportCost::new: required breaks
                                                  of one shift of different kinds (exact / offset), or whose [earliest, latest] spans
                                                  (the duration is NOT added) intersect after sorting by start
     vrp-pragmatic/src/format/problem/job_reader.rs     :: read_required_jobs, read_conditional_jobs = read_optional_breaks + read_reloads
                                                  (Model/Validation.v :: jobs_panic, conditional_panic) + read_recharges (parse_times on every
                                                  station for every vehicle id), Jobs::new(..).unwrap() (distance lookups beyond the matrix:
                                                  over-approximated by "some location value of the coordinate index is not below the size"),
                                                  read_locks (the n-th `break` / `reload` / `recharge` of a relation asks the job index for
                                                  `<vehicle>_<kind>_<shift>_<n>`; panic "cannot find job with id")
     vrp-core/src/construction/features/locked_jobs.rs  :: create_locked_jobs_feature (assert!(!detail.jobs.is_empty()) for a strict lock)
     vrp-pragmatic/src/format/problem/goal_reader.rs    :: create_goal_context: get_objective_feature_layer (compact-tour job_radius < 1,
                                                  nested multi-objective), get_features_with_goal + FeatureCombinator::combine (empty
                                                  multi-objective: feature without id; multi-objective over objective-only features: empty
                                                  feature), eval_multi_objective_strategy (weighted-sum arity), get_reload_resources
                                                  (assert_eq! on duplicated resource ids, MultiDimLoad::new on a resource capacity),
                                                  GoalContextBuilder::with_features -> Goal::simple ("no objectives specified in the goal" when
                                                  only multi-objective layers exist and no break feature)
     vrp-pragmatic/src/format/problem/clustering_reader.rs :: create_cluster_config / get_profile (E0000 for an unknown profile)
   Not modelled: hierarchical-areas (the k-medoids hierarchy over the matrix contents decides), custom locations, skills / groups /
   compatibility / tags / break places and policies / limits (their features cannot fail at construction), a plan job whose id has the
   form of a conditional job id (`<vehicle>_break_<shift>_<n>`).

   run_* entry point used by the correspondence: run_xread. *)
From VRP Require Import Base.Tac Model.Validation Model.ValidationX.
From Coq Require Import String.

Inductive step := SOk | SErr (c : Z) | SPanic.

(* ---------- fleet_reader.rs :: create_transport_costs (with timestamps) + vrp-core matrix transport costs ---------- *)
Definition group_sizes (idxs : list nat) : list nat := map (fun i => count_occ Nat.eq_dec idxs i) idxs.
Definition xmatrix_data (m : xmatrix) : option (list Z * list Z) :=
  match matrix_data (xm_matrix m) with
  | None => None
  | Some dt => match xm_timestamp m with
               | Some t => if tm_bad t then None else Some dt          (* parse_time_safe(&t)? *)
               | None => Some dt
               end
  end.
(* true = Err (E0002) *)
Definition xtransport_fails (profiles : list string) (ms : list xmatrix) : bool :=
  let named m := is_some (m_profile (xm_matrix m)) in
  let stamped m := is_some (xm_timestamp m) in
  if negb (forallb named ms) && negb (forallb (fun m => negb (named m)) ms) then true       (* all matrices should have profile set or none *)
  else if existsb (fun m => negb (named m)) ms && existsb stamped ms then true              (* when timestamp is set, all .. profile set *)
  else
    let names := dedup_from [] profiles in
    if (List.length ms <? List.length names)%nat then true                                  (* not enough routing matrices *)
    else match sequence (map xmatrix_data ms) with
         | None => true                                                                     (* error codes / matrix index / timestamp *)
         | Some datas =>
             let idxs := map (fun im : nat * xmatrix =>
                                match m_profile (xm_matrix (snd im)) with
                                | Some p => match index_of p names with Some k => k | None => fst im end
                                | None => fst im
                                end) (combine (seq 0 (List.length ms)) ms) in
             if negb (count_distinct idxs =? List.length names)%nat then true               (* amount of fleet profiles does not match *)
             else match datas with
                  | [] => true                                                              (* no matrix data found *)
                  | d0 :: _ =>
                      let size := round_sqrt (List.length (fst d0)) in
                      if existsb (fun d : list Z * list Z => negb (List.length (snd d) =? List.length (fst d))%nat) datas then true
                      else if existsb (fun d : list Z * list Z => negb (round_sqrt (List.length (snd d)) =? size)%nat) datas then true
                      else if existsb (fun d : list Z * list Z => negb (round_sqrt (List.length (fst d)) =? size)%nat) datas then true
                      else if existsb (fun d : list Z * list Z => negb (List.length (snd d) =? size * size)%nat
                                                               || negb (List.length (fst d) =? size * size)%nat) datas then true
                      else if existsb stamped ms
                           then negb (forallb stamped ms)                                   (* time-aware: all need a timestamp *)
                                || existsb (Nat.eqb 1) (group_sizes idxs)                   (* .. with single matrix *)
                           else negb (nat_list_eqb (nsort idxs) (seq 0 (List.length idxs))) (* duplicate profiles only for time aware *)
                  end
         end.
(* size of the transport cost when the step succeeds: round(sqrt(first.durations.len())) *)
Definition xtransport_size (ms : list xmatrix) : nat :=
  match ms with
  | m :: _ => match xmatrix_data m with Some dt => round_sqrt (List.length (fst dt)) | None => 0%nat end
  | [] => 0%nat
  end.

(* reserved_time.rs :: create_reserved_times_fn (DynamicTransportCost::new): Model/Validation.v :: reserved_fails *)

(* ---------- job_reader.rs :: read_recharges ---------- *)
Definition recharge_panics (d : xdoc) : bool :=
  existsb (fun v => match v_ids (xv_vehicle v) with
                    | [] => false
                    | _ => existsb (fun i => match nth i (xv_recharges v) None with
                                             | Some sts => existsb times_panic sts
                                             | None => false
                                             end) (seq 0 (List.length (v_shifts (xv_vehicle v))))
                    end) (x_vehicles d).

(* ---------- Jobs::new: distance lookups with the values of the coordinate index ---------- *)
Definition loc_values (ci : cindex) : list nat :=
  map (fun pl : nat * loc => loc_value (fst pl) (snd pl)) (combine (seq 0 (List.length (ci_direct ci))) (ci_direct ci)).
Definition jobs_index_panics (d : xdoc) : bool :=
  let size := xtransport_size (seen_matrices d) in
  existsb (fun v => (size <=? v)%nat) (loc_values (coord_index (x_locs d))).

(* ---------- job_reader.rs :: read_locks ---------- *)
Definition special (id : string) : bool :=
  (String.eqb id "break" || String.eqb id "reload" || String.eqb id "recharge")%string.
Definition is_optional_break (b : brk) : bool := match b with BOptTW _ | BOptOff _ => true | _ => false end.
(* how many conditional jobs `<vid>_<kind>_<shift>_<n>` exist: n = 1 .. the number of optional breaks / reloads / stations *)
Definition cond_jobs (v : xvehicle) (shift : nat) (kind : string) : nat :=
  match nth_error (v_shifts (xv_vehicle v)) shift with
  | None => 0%nat
  | Some s =>
      if String.eqb kind "break" then List.length (filter is_optional_break (olist (sh_breaks s)))
      else if String.eqb kind "reload" then List.length (olist (sh_reloads s))
      else match nth shift (xv_recharges v) None with Some sts => List.length sts | None => 0%nat end
  end.
Definition cond_job_exists (d : xdoc) (vid : string) (shift : nat) (kind : string) (n : nat) : bool :=
  existsb (fun v => mem vid (v_ids (xv_vehicle v)) && (n <=? cond_jobs v shift kind)%nat) (x_vehicles d).
(* the fold over rel.jobs without departure / arrival; `seen` = the special ids met so far (the indexer) *)
Fixpoint locks_walk (d : xdoc) (vid : string) (shift : nat) (seen ids : list string) : bool :=
  match ids with
  | [] => false
  | id :: r =>
      if (String.eqb id "departure" || String.eqb id "arrival")%string then locks_walk d vid shift seen r
      else if special id
           then negb (cond_job_exists d vid shift id (S (count_str id seen))) || locks_walk d vid shift (id :: seen) r
           else is_none (job_lookup d id) || locks_walk d vid shift seen r
  end.
Definition locks_panic (d : xdoc) : bool :=
  existsb (fun r => locks_walk d (r_vehicle r) (rel_shift r) [] (r_jobs r)) (olist (x_relations d)).
(* create_locked_jobs_feature: a strict lock detail without jobs *)
Definition strict_lock_empty (d : xdoc) : bool :=
  existsb (fun r => match r_type r with
                    | RStrict => forallb (fun id => (String.eqb id "departure" || String.eqb id "arrival")%string) (r_jobs r)
                    | _ => false
                    end) (olist (x_relations d)).

(* ---------- goal_reader.rs ---------- *)
Definition T_COMPACT : nat := 12.
(* features that carry neither a constraint nor a state: minimize-tours, maximize-tours, minimize-unassigned, minimize-arrival-time *)
Definition objective_only (t : nat) : bool := existsb (Nat.eqb t) [3; 4; 6; 7]%nat.
Definition bad_arg (t : nat) (a : Z) : bool := (t =? T_COMPACT)%nat && (a <? 1).      (* job radius should be at least 1 *)
(* get_objective_feature_layers *)
Definition layer_fails (o : objective) : bool :=
  match o with
  | OObj t a => bad_arg t a
  | OMulti _ ins => existsb (fun i => match i with IObj t a => bad_arg t a | INested => true end) ins
  end.
(* get_features_with_goal, one layer *)
Definition combine_fails (o : objective) : bool :=
  match o with
  | OObj _ _ => false
  | OMulti st ins =>
      is_nil ins                                                                       (* features with default id *)
      || forallb (fun i => objective_only (inner_tag i)) ins                           (* empty feature is not allowed *)
      || match st with SSum => false | SWeighted w => negb (w =? List.length ins)%nat end
  end.
Definition has_breaks (d : doc) : bool :=
  existsb (fun v => existsb (fun s => match sh_breaks s with Some (_ :: _) => true | _ => false end) (v_shifts v)) (d_vehicles d).
Definition has_reloads (d : doc) : bool :=
  existsb (fun v => existsb (fun s => match sh_reloads s with Some (_ :: _) => true | _ => false end) (v_shifts v)) (d_vehicles d).
(* get_objectives: the defaults are plain objectives *)
Definition effective_objectives (d : xdoc) : list objective :=
  match x_objectives d with
  | Some objs => objs
  | None => [OObj 6 0; OObj 3 0; OObj 0 0]%nat
  end.
(* Goal::simple over the features: only plain objective layers and the break feature carry an objective *)
Definition no_goal_objective (d : xdoc) : bool :=
  negb (existsb (fun o => match o with OObj _ _ => true | OMulti _ _ => false end) (effective_objectives d))
  && negb (has_breaks (xbase d)).
(* get_reload_resources, reached through create_capacity_with_reload_feature when a reload exists *)
Fixpoint resource_dims (id : string) (ids : list string) (dims : list nat) : nat :=     (* HashMap: the last entry of an id wins *)
  match ids, dims with
  | i :: ir, n :: nr => match resource_dims id ir nr with
                        | 0%nat => if String.eqb id i then n else 0%nat
                        | k => k
                        end
  | _, _ => 0%nat
  end.
Definition resources_panic (d : xdoc) : bool :=
  has_reloads (xbase d)
  && (has_dup (olist (x_resources d))                                                   (* assert_eq!(total, available.len()) *)
      || (has_multi_dimen_capacity (xbase d)
          && existsb (fun v => match v_ids (xv_vehicle v) with
                               | [] => false
                               | _ => existsb (fun s => existsb (fun r => match rl_resource r with
                                                                           | Some id => mem id (olist (x_resources d))
                                                                                        && (8 <? resource_dims id (olist (x_resources d)) (x_resource_dims d))%nat
                                                                           | None => false
                                                                           end) (olist (sh_reloads s))) (v_shifts (xv_vehicle v))
                               end) (x_vehicles d))).
Definition goal_step (d : xdoc) : step :=
  if existsb layer_fails (effective_objectives d) then SErr 0
  else if existsb combine_fails (effective_objectives d) then SErr 0
  else if resources_panic d then SPanic
  else if strict_lock_empty d then SPanic
  else if no_goal_objective d then SErr 0
  else SOk.
(* clustering_reader.rs :: get_profile *)
Definition cluster_step (d : xdoc) : step :=
  match x_clustering d with
  | Some p => if mem p (x_profiles d) then SOk else SErr 0
  | None => SOk
  end.

(* ---------- map_to_problem behind validation ---------- *)
Definition b2p (b : bool) : step := if b then SPanic else SOk.
Definition reader_steps (d : xdoc) : list step :=
  [ b2p (fleet_panics (xbase d));                                                      (* read_fleet *)
    b2p (reserved_times_panic (xbase d));                                              (* read_reserved_times_index *)
    (if xtransport_fails (x_profiles d) (seen_matrices d) then SErr 2 else SOk);       (* create_transport_costs *)
    (if reserved_fails (xbase d) then SErr 2 else SOk);                                (* DynamicTransportCost::new *)
    b2p (jobs_panic (xbase d));                                                        (* read_required_jobs *)
    b2p (conditional_panic (xbase d) || recharge_panics d);                            (* read_conditional_jobs *)
    b2p (jobs_index_panics d);                                                         (* Jobs::new *)
    b2p (locks_panic d);                                                               (* read_locks *)
    goal_step d;                                                                       (* create_goal_context *)
    cluster_step d ].                                                                  (* create_cluster_config *)
Fixpoint first_failure (l : list step) : step :=
  match l with [] => SOk | SOk :: r => first_failure r | s :: _ => s end.

Definition xread (d : xdoc) : rres :=
  match xvalidate_pre d with
  | VPanic => RPanic
  | VErr cs => RErr cs
  | VOk => match first_failure (reader_steps d) with
           | SOk => ROk
           | SErr c => RErr [c]
           | SPanic => RPanic
           end
  end.

(* (kind, codes): kind 0 = Ok, 1 = Err codes, 2 = Panic *)
Definition run_xread (d : xdoc) : Z * list Z :=
  match xread d with ROk => (0, []) | RErr cs => (1, cs) | RPanic => (2, []) end.
