(* C18 — the termination criteria not covered by Model/Termination.v, in exact arithmetic (Q):
     rosomaxa/src/termination/min_variation.rs :: MinVariation::update_and_check, IntervalType::Period branch
         (clock = oracle `elapsed`; the shuffle of the compaction `values.len() > 1000` = oracle permutation)   -> mvp_update_and_check
     rosomaxa/src/termination/min_variation.rs :: MinVariation::is_termination (period)                      -> mvp_is_termination
     rosomaxa/src/termination/min_variation.rs :: MinVariation::new_with_period (period in seconds * 1000)    -> period_ms
     rosomaxa/src/algorithms/math/distance.rs  :: relative_distance (its square: no sqrt in Q)               -> rel_sumsq
     rosomaxa/src/termination/target_proximity.rs :: TargetProximity::is_termination                         -> tp_is_termination
     rosomaxa/src/utils/noise.rs :: Noise::{generate, generate_multi} (is_hit and uniform_real as oracles)   -> noise_generate, noise_generate_multi
   The window logic is generic in the type of a fitness value and in the threshold test (`check`), so that the binary64 twin
   (Model/TermF.v) shares it.  `sort_unstable_by` of the compaction is modelled by a stable insertion sort on the time stamp
   (the order among equal time stamps is unspecified in the code; nothing the theorems state depends on it).
   Entry points used by the correspondence: run_minvar_period, run_target, run_noise.  No proofs in this file. *)
From Coq Require Import QArith Qabs Qminmax.
From VRP Require Import Base.Tac Model.Termination.
Local Open Scope Z_scope.

Definition period_ms (period_secs : Z) : Z := period_secs * 1000.

Section Window.
  Context {F : Type}.
  Variable check : list (list F) -> bool.          (* check_threshold with the threshold of the criterion *)

  Definition entry : Type := Z * list F.

  Fixpoint tinsert (x : entry) (l : list entry) : list entry :=
    match l with
    | [] => [x]
    | y :: r => if fst x <? fst y then x :: l else y :: tinsert x r
    end.
  Definition tsort (l : list entry) : list entry := fold_left (fun acc x => tinsert x acc) l [].

  (* values.shuffle(&mut rng): the order after the shuffle is the oracle `perm` (positions into the list before the shuffle) *)
  Definition apply_perm (perm : list nat) (l : list entry) : list entry :=
    flat_map (fun i => match nth_error l i with Some v => [v] | None => [] end) perm.

  (* values.retain(|_| { let result = i % 10 == 0; i += 1; result }) *)
  Fixpoint every10 (i : nat) (l : list entry) : list entry :=
    match l with
    | [] => []
    | x :: r => (if Nat.eqb (Nat.modulo i 10) 0 then [x] else []) ++ every10 (S i) r
    end.

  (* values.iter().rev().position(|(time, _)| *time < earliest) *)
  Fixpoint position_go (l : list entry) (earliest : Z) (i : nat) : option nat :=
    match l with
    | [] => None
    | (t, _) :: r => if t <? earliest then Some i else position_go r earliest (S i)
    end.
  Definition rposition (l : list entry) (earliest : Z) : option nat := position_go (rev l) earliest 0.

  (* how many of the oldest entries are drained *)
  Definition drain_count (values : list entry) (earliest : Z) : nat :=
    let len := length values in
    match rposition values earliest with
    | Some p => if Nat.ltb p 2 && Nat.ltb len 3 then 0%nat
                else if Nat.ltb p 2 && Nat.ltb 3 len then (len - 2)%nat
                else (len - p)%nat
    | None => 0%nat
    end.

  Definition mvp_compact (perm : list nat) (values : list entry) : list entry :=
    if Nat.ltb 1000 (length values) then tsort (every10 0 (apply_perm perm values)) else values.

  (* period in ms; st = the state vector before the call; elapsed = statistics().time.elapsed_millis() *)
  Definition mvp_update_and_check (period : Z) (st : list entry) (elapsed : Z) (perm : list nat) (fitness : list F)
    : list entry * bool :=
    let values := mvp_compact perm (st ++ [(elapsed, fitness)]) in
    if (elapsed <? period) || Nat.ltb (length values) 2 then (values, false)
    else
      let values' := skipn (drain_count values (elapsed - period)) values in
      (values', check (map snd values')).

  (* phase: 0 Initial, 1 Exploration, 2 Exploitation; best = fitness of ranked().next() *)
  Definition mvp_is_termination (period : Z) (is_global : bool) (st : list entry) (elapsed : Z) (perm : list nat)
             (phase : nat) (best : option (list F)) : list entry * bool :=
    match best with
    | None => (st, false)
    | Some fitness =>
        let (values, result) := mvp_update_and_check period st elapsed perm fitness in
        (values, if is_global then result else if Nat.eqb phase 2 then result else false)
    end.

  (* steps: (elapsed, perm, phase, best); returns the decision and the state after every step *)
  Fixpoint mvp_run (period : Z) (is_global : bool) (st : list entry) (steps : list (Z * list nat * nat * option (list F)))
    : list (bool * list entry) :=
    match steps with
    | [] => []
    | (elapsed, perm, ph, best) :: rest =>
        let (st', r) := mvp_is_termination period is_global st elapsed perm ph best in
        (r, st') :: mvp_run period is_global st' rest
    end.
End Window.

Local Open Scope Q_scope.

(* ---------------- relative_distance and TargetProximity ---------------- *)
Definition rel_change (a b : Q) : Q :=
  let divider := Qmax (Qabs a) (Qabs b) in
  if Qeq_bool divider 0 then 0 else Qabs (a - b) / divider.

(* the square of relative_distance(a, b): fold over a.zip(b) of acc + change * change *)
Definition rel_sumsq (a b : list Q) : Q :=
  fold_left (fun acc p => acc + rel_change (fst p) (snd p) * rel_change (fst p) (snd p)) (combine a b) 0.

(* sqrt(s) < t for s >= 0, decided through squares *)
Definition sqrt_lt (s t : Q) : bool := if Qlt_le_dec 0 t then (if Qlt_le_dec s (t * t) then true else false) else false.

Definition tp_is_termination (target : list Q) (threshold : Q) (best : option (list Q)) : bool :=
  match best with
  | None => false
  | Some fitness => sqrt_lt (rel_sumsq target fitness) threshold
  end.

(* ---------------- Noise ---------------- *)
(* hit = random.is_hit(probability); u = random.uniform_real(range.0, range.1), drawn only when hit *)
Definition noise_generate (is_addition hit : bool) (u value : Q) : Q :=
  if hit then
    (if Qeq_bool value 0 then u else value * u + (if is_addition then value else 0))
  else value.

(* generate_multi maps value -> value + generate(value) *)
Definition noise_generate_multi (is_addition : bool) (draws : list (bool * Q)) (values : list Q) : list Q :=
  map (fun p => snd p + noise_generate is_addition (fst (fst p)) (snd (fst p)) (snd p)) (combine draws values).

(* ---------------- correspondence entry points (dyadic inputs m * 2^e) ---------------- *)
Definition qentry_out (e : Z * list Q) : Z * list (Z * Z) := (fst e, map qout3 (snd e)).

(* steps: (elapsed ms, perm, phase, [] | [fitness]) *)
Definition run_minvar_period (period_secs : Z) (thr : Z * Z) (is_global : bool)
           (steps : list (Z * list nat * nat * list (list (Z * Z)))) : list (bool * list (Z * list (Z * Z))) :=
  map (fun r => (fst r, map qentry_out (snd r)))
      (mvp_run (fun rows => check_threshold rows (dyt thr)) (period_ms period_secs) is_global []
               (map (fun s => match s with (el, pm, ph, b) => (el, pm, ph, match b with [] => None | f :: _ => Some (map dyt f) end) end) steps)).

Definition run_target (target : list (Z * Z)) (thr : Z * Z) (best : list (list (Z * Z))) : bool * (Z * Z) :=
  let b := match best with [] => None | f :: _ => Some (map dyt f) end in
  (tp_is_termination (map dyt target) (dyt thr) b,
   qout3 (match b with Some f => rel_sumsq (map dyt target) f | None => 0 end)).
