(* C18 — exact-arithmetic (Q) model of the normal-gamma slot machine.
   Rust items modelled (rosomaxa/src/algorithms/rl/slot_machine.rs):
     SlotMachine::new        -> slot_new
     SlotMachine::update     -> slot_update     (statement order kept: alpha, beta use the OLD n and mu; v; n += 1; mu uses NEW n)
     SlotMachine::sample     -> sample_args     (arguments handed to DistributionSampler::gamma / ::normal; the gamma draw is an oracle)
     SlotMachine::get_params -> the record itself
   Entry points used by the correspondence: run_slot, run_sample.
   No proofs in this file. *)
From Coq Require Import QArith Qabs Qminmax.
From VRP Require Import Base.Tac.
Open Scope Q_scope.

Record slot := mkSlot { s_n : nat; s_alpha : Q; s_beta : Q; s_mu : Q; s_v : Q }.

Definition qn (n : nat) : Q := inject_Z (Z.of_nat n).

Definition slot_new (prior : Q) : slot :=
  let alpha := 1 in
  let beta := 10 in
  mkSlot 0 alpha beta prior (beta / (alpha + 1)).

Definition sq (x : Q) : Q := x * x.

Definition slot_update (s : slot) (reward : Q) : slot :=
  let n := 1 in
  let v := qn (s_n s) in
  let alpha' := s_alpha s + n / 2 in
  let beta' := s_beta s + (n * v / (v + n)) * sq (reward - s_mu s) / 2 in
  let v' := beta' / (alpha' + 1) in
  let n' := S (s_n s) in
  let mu' := s_mu s + (reward - s_mu s) / qn n' in
  mkSlot n' alpha' beta' mu' v'.

Definition slot_run (prior : Q) (rs : list Q) : slot := fold_left slot_update rs (slot_new prior).

(* specification helper: plain sum of a list (used to state `mean = average of the rewards`) *)
Fixpoint qsuml (l : list Q) : Q := match l with [] => 0 | x :: r => x + qsuml r end.

(* all intermediate states, newest last (state after 0, 1, .., length rs updates) *)
Fixpoint slot_trace (s : slot) (rs : list Q) : list slot :=
  match rs with
  | [] => [s]
  | r :: rs' => s :: slot_trace (slot_update s r) rs'
  end.

(* SlotMachine::sample: gamma(alpha, 1/beta) is requested first, its result g is the oracle;
   precision := if g == 0 || n == 0 then 0.001 else g; variance := 1/precision;
   then normal(mu, sqrt variance) is requested.  The model reports the variance (std_dev squared). *)
Record sample_req := mkReq { g_shape : Q; g_scale : Q; n_mean : Q; n_variance : Q }.

(* exact value of the double nearest to 0.001 (0x1.0624dd2f1a9fcp-10) *)
Definition c0001 : Q := 1152921504606847 # 1152921504606846976.

Definition sample_precision (s : slot) (g : Q) : Q :=
  if Qeq_bool g 0 || Nat.eqb (s_n s) 0 then c0001 else g.

Definition sample_args (s : slot) (g : Q) : sample_req :=
  mkReq (s_alpha s) (1 / s_beta s) (s_mu s) (1 / sample_precision s g).

(* ---------- correspondence entry points (dyadic inputs m * 2^e, reduced fractions out) ---------- *)
Definition dy (me : Z * Z) : Q :=
  let (m, e) := me in
  if (0 <=? e)%Z then inject_Z (m * 2 ^ e) else Qmake m (Z.to_pos (2 ^ (- e))).

Definition qout (q : Q) : Z * Z := let r := Qred q in (Qnum r, Zpos (Qden r)).

Definition slot_out (s : slot) : list (Z * Z) * Z :=
  ([qout (s_alpha s); qout (s_beta s); qout (s_mu s); qout (s_v s)], Z.of_nat (s_n s)).

Definition slot_red (s : slot) : slot :=
  mkSlot (s_n s) (Qred (s_alpha s)) (Qred (s_beta s)) (Qred (s_mu s)) (Qred (s_v s)).

(* reduced at every step only to keep numbers small under vm_compute (Qred preserves ==) *)
Definition run_slot (prior : Z * Z) (rs : list (Z * Z)) : list (Z * Z) * Z :=
  slot_out (fold_left (fun s r => slot_red (slot_update s (dy r))) rs (slot_new (dy prior))).

Definition run_sample (prior : Z * Z) (rs : list (Z * Z)) (g : Z * Z) : list (Z * Z) :=
  let s := fold_left (fun s r => slot_red (slot_update s (dy r))) rs (slot_new (dy prior)) in
  let q := sample_args s (dy g) in
  [qout (g_shape q); qout (g_scale q); qout (n_mean q); qout (n_variance q)].
