(* Model of the NUMERIC part of the growing self-organising map behind the Rosomaxa population (property C19): weights, errors,
   min/max tracking and measures, written ONCE over an abstract arithmetic `num T` and instantiated twice:
     * QN sq  : exact rationals (Q), `sq` standing for the square root (theorems quantify over it: non-negative, monotone);
     * FN     : IEEE-754 binary64 = Coq primitive floats, operation by operation in the order of the Rust source (Model/GsomF.v) —
                the bit-exact twin compared with the real Network on every run (sub-stream c19_weights).
     rosomaxa/src/algorithms/gsom/network.rs :: MinMaxWeights::{new, update, iter, reset}, normalize, euclidian_distance,
                                                Network::{distance, normalize, find_bmu, train_on_data, train_batch, update,
                                                distribute_error, grow_nodes (cases b, a, c, d WITH the weight formulas),
                                                adjust_weights (learning-rate schedule lr * (1 - 3.8 / len), 0.25 for old input,
                                                / Manhattan distance for neighbours), insert, store_batch, retrain, smooth, compact,
                                                mse, max_unified_distance, set_learning_rate}
     rosomaxa/src/algorithms/gsom/node.rs    :: Node::{new, adjust, new_hit (total_hits), neighbours, is_boundary, unified_distance, mse}
     rosomaxa/src/algorithms/gsom/contraction.rs :: contract_graph (lattice part as in Model/Gsom.v, then train_on_data(data, false))
     rosomaxa/src/algorithms/gsom/state.rs   :: get_network_state (per node: unified_distance(1), mse, weights; network mse)
     rosomaxa/src/population/rosomaxa.rs     :: get_learning_rate (range of the cosine annealing, `cos` as a parameter in [-1, 1])
   Float facts the model relies on: `(x).powi(2)` is one multiplication x*x; `Iterator::sum::<f64>()` folds from -0.0;
   `usize as Float` / `i32 as Float` are exact; `f64::min / max` ignore a NaN operand (zeros of opposite sign never meet: the
   correspondence feeds no -0.0).  `growing_threshold = -1 * dimension * spread_factor.log2()` is a PARAMETER (bits computed by the
   harness with the same expression; exact = dimension * k for spread_factor = 2^-k).
   Not computed, taken from the implementation and VALIDATED (Panic 9x when inconsistent): the iteration order of the FxHashMap after
   every call (`post`: decides ties of find_bmu, the summation order of Network::mse and the drain order of compact), the order
   of the re-trained individuals after sort_unstable + dedup + shuffle in retrain (`ids`).  MinMaxWeights is private and not observable:
   the state handed to the model after Network::new has `wn_known = false`, the first retrain round (smooth) rebuilds it from data that
   IS observable (stored individuals + node weights); store_batch / compact before that are `Panic 97`.
   Entry points used by the correspondence: Model/GsomF.v :: run_wfq (run_wf + run_wq), run_adjustF, run_reldistF;  here: run_adjustQ.
   No proofs in this file. *)
From Coq Require Import QArith Floats.
From VRP Require Import Base.Tac Model.Gsom Model.SlotF.
Close Scope Q_scope.

Record num (T : Type) := mkNum {
  n_zero : T; n_nzero : T; n_one : T; n_two : T; n_half : T; n_quarter : T; n_38 : T; n_fmax : T; n_fmin : T;
  n_add : T -> T -> T; n_sub : T -> T -> T; n_mul : T -> T -> T; n_div : T -> T -> T; n_sqrt : T -> T;
  n_lt : T -> T -> bool;            (* x < y  (false when a NaN is involved) *)
  n_le : T -> T -> bool;            (* x <= y *)
  n_eq : T -> T -> bool;            (* x == y *)
  n_min : T -> T -> T; n_max : T -> T -> T;        (* f64::min / f64::max *)
  n_ofZ : Z -> T;                   (* usize / i32 as Float *)
  n_ofbits : Z -> T                 (* an input value given by its IEEE bit pattern *)
}.
Arguments mkNum {T}.
Arguments n_zero {T}. Arguments n_nzero {T}. Arguments n_one {T}. Arguments n_two {T}. Arguments n_half {T}.
Arguments n_quarter {T}. Arguments n_38 {T}. Arguments n_fmax {T}. Arguments n_fmin {T}.
Arguments n_add {T}. Arguments n_sub {T}. Arguments n_mul {T}. Arguments n_div {T}. Arguments n_sqrt {T}.
Arguments n_lt {T}. Arguments n_le {T}. Arguments n_eq {T}. Arguments n_min {T}. Arguments n_max {T}.
Arguments n_ofZ {T}. Arguments n_ofbits {T}.

(* zip + map: stops at the shorter list, as Iterator::zip *)
Fixpoint map2 {A B C} (f : A -> B -> C) (l : list A) (r : list B) : list C :=
  match l, r with
  | a :: l', b :: r' => f a b :: map2 f l' r'
  | _, _ => []
  end.

Section W.
Context {T : Type} (N : num T).

(* ---------- MinMaxWeights ---------- *)
Record mm := mkMM { mm_min : list T; mm_max : list T; mm_isreset : bool }.
Definition mm_new (d : nat) : mm := mkMM (repeat (n_fmax N) d) (repeat (n_fmin N) d) true.
(* update: debug_assert!(weights.len() == self.min.len()) *)
Definition mm_update (m : mm) (w : list T) : res mm :=
  if (length w =? length (mm_min m))%nat
  then Ok (mkMM (map2 (n_min N) (mm_min m) w) (map2 (n_max N) (mm_max m) w) false)
  else Panic 5.
Definition mm_reset (m : mm) : mm := mkMM (map (fun _ => n_fmax N) (mm_min m)) (map (fun _ => n_fmin N) (mm_max m)) true.
Definition mm_iter (m : mm) : list (T * T) :=
  if mm_isreset m then map (fun _ => (n_zero N, n_one N)) (mm_min m) else combine (mm_min m) (mm_max m).
Definition mm_update_all (m : mm) (ws : list (list T)) : res mm :=
  fold_left (fun acc w => bind acc (fun m' => mm_update m' w)) ws (Ok m).

(* ---------- normalize, euclidian_distance ---------- *)
Definition norm1 (v : T) (p : T * T) : T :=
  if negb (n_eq N (snd p) (fst p)) then n_div N (n_sub N v (fst p)) (n_sub N (snd p) (fst p)) else n_zero N.
Definition normalize (vs : list T) (m : mm) : list T := map2 norm1 vs (mm_iter m).
Definition sumf (l : list T) : T := fold_left (n_add N) l (n_nzero N).
Definition sqdiff (a b : T) : T := let d := n_sub N a b in n_mul N d d.
Definition dist2 (l r : list T) (m : mm) : T := sumf (map2 sqdiff (normalize l m) (normalize r m)).
Definition distance (l r : list T) (m : mm) : T := n_sqrt N (dist2 l r m).

(* ---------- Node::adjust ---------- *)
Definition adjust1 (lr w v : T) : T := n_add N w (n_mul N lr (n_sub N v w)).
Definition adjust (w target : list T) (lr : T) : list T := map2 (adjust1 lr) w target.

(* ---------- nodes and the map ---------- *)
Record wnode := mkW { w_c : coord; w_w : list T; w_e : T; w_hits : nat; w_cap : nat; w_st : list item }.
Definition wmap := list (coord * wnode).
Record wnet := mkWN { wn_nodes : wmap; wn_dim : nat; wn_thr : T; wn_df : T; wn_lr : T; wn_mm : mm; wn_known : bool; wn_fcap : nat }.

Definition itw (x : item) : list T := map (n_ofbits N) (it_w x).

Fixpoint lookupW (c : coord) (l : wmap) : option wnode :=
  match l with
  | [] => None
  | (k, v) :: t => if coord_eqb k c then Some v else lookupW c t
  end.
Definition removeW (c : coord) (l : wmap) : wmap := filter (fun kv => negb (coord_eqb (fst kv) c)) l.
Definition insertW (c : coord) (nd : wnode) (l : wmap) : wmap := (c, nd) :: removeW c l.
Definition modifyW (c : coord) (f : wnode -> wnode) (l : wmap) : wmap :=
  map (fun kv => if coord_eqb (fst kv) c then (fst kv, f (snd kv)) else kv) l.
Definition with_nodesW (n : wnet) (l : wmap) : wnet :=
  mkWN l (wn_dim n) (wn_thr n) (wn_df n) (wn_lr n) (wn_mm n) (wn_known n) (wn_fcap n).
Definition with_mmW (n : wnet) (m : mm) : wnet :=
  mkWN (wn_nodes n) (wn_dim n) (wn_thr n) (wn_df n) (wn_lr n) m (wn_known n) (wn_fcap n).
Definition with_lrW (n : wnet) (lr : T) : wnet :=
  mkWN (wn_nodes n) (wn_dim n) (wn_thr n) (wn_df n) lr (wn_mm n) (wn_known n) (wn_fcap n).
Definition set_known (n : wnet) : wnet :=
  mkWN (wn_nodes n) (wn_dim n) (wn_thr n) (wn_df n) (wn_lr n) (wn_mm n) true (wn_fcap n).

Definition set_w (w : list T) (nd : wnode) : wnode := mkW (w_c nd) w (w_e nd) (w_hits nd) (w_cap nd) (w_st nd).
Definition set_e (e : T) (nd : wnode) : wnode := mkW (w_c nd) (w_w nd) e (w_hits nd) (w_cap nd) (w_st nd).
Definition hitW (nd : wnode) : wnode := mkW (w_c nd) (w_w nd) (w_e nd) (S (w_hits nd)) (w_cap nd) (w_st nd).
Definition storeW (x : item) (nd : wnode) : wnode :=
  mkW (w_c nd) (w_w nd) (w_e nd) (w_hits nd) (w_cap nd) (st_add (w_cap nd) (w_st nd) x).
Definition clearW (nd : wnode) : wnode := mkW (w_c nd) (w_w nd) (w_e nd) (w_hits nd) (w_cap nd) [].
Definition moveW (c : coord) (nd : wnode) : wnode := mkW c (w_w nd) (w_e nd) (w_hits nd) (w_cap nd) (w_st nd).

(* Node::neighbours: network.find(coordinate + offset).map(|node| node.coordinate), with the offset *)
Definition neighboursW (l : wmap) (nd : wnode) (r : Z) : list (option coord * (Z * Z)) :=
  map (fun o => (option_map w_c (lookupW (fst (w_c nd) + fst o, snd (w_c nd) + snd o) l), o)) (offsets r).
Definition existing {A} (l : list (option coord * A)) : list (coord * A) :=
  flat_map (fun p => match fst p with Some c => [(c, snd p)] | None => [] end) l.
Definition main_neighboursW (l : wmap) (nd : wnode) := filter (fun p => main_dir (snd p)) (neighboursW l nd 1).
Definition is_boundaryW (l : wmap) (nd : wnode) : bool := existsb (fun p => is_none (fst p)) (main_neighboursW l nd).
Definition manh (o : Z * Z) : Z := Z.abs (fst o) + Z.abs (snd o).

(* ---------- measures: Node::mse, Network::mse, Node::unified_distance, Network::max_unified_distance ---------- *)
Definition node_mse (m : mm) (nd : wnode) : T :=
  match w_st nd with
  | [] => n_zero N
  | st => n_div N (fold_left (fun acc x => n_add N acc (sumf (map2 sqdiff (normalize (w_w nd) m) (normalize (itw x) m)))) st (n_zero N))
                  (n_ofZ N (Z.of_nat (length st)))
  end.
Definition net_mse (n : wnet) : T :=
  let r := fold_left (fun acc kv => match w_st (snd kv) with
                                    | [] => acc
                                    | _ => (S (fst acc), n_add N (snd acc) (node_mse (wn_mm n) (snd kv)))
                                    end) (wn_nodes n) (O, n_zero N) in
  match fst r with O => n_zero N | k => n_div N (snd r) (n_ofZ N (Z.of_nat k)) end.
Definition unified_distance (l : wmap) (m : mm) (nd : wnode) (r : Z) : T :=
  let s := fold_left (fun acc p => match fst p with
                                   | Some c => match lookupW c l with
                                               | Some nb => (n_add N (fst acc) (distance (w_w nd) (w_w nb) m), S (snd acc))
                                               | None => acc
                                               end
                                   | None => acc
                                   end) (neighboursW l nd r) (n_zero N, O) in
  match snd s with O => n_zero N | k => n_div N (fst s) (n_ofZ N (Z.of_nat k)) end.
(* max_by(total_cmp).unwrap_or_default(): the values are distances (>= 0 or NaN).  Where total_cmp puts a NaN depends on its sign bit,
   which the model does not have: the correspondence compares this value only when no unified distance is NaN *)
Definition max_ud (n : wnet) : T :=
  match map (fun kv => unified_distance (wn_nodes n) (wn_mm n) (snd kv) 1) (wn_nodes n) with
  | [] => n_zero N
  | h :: t => fold_left (fun x y => if n_lt N y x then x else y) t h
  end.

(* ---------- find_bmu: values().map(distance).min_by(partial_cmp.unwrap_or(Less)) — the FIRST minimal node in iteration order ---------- *)
Definition find_bmu (l : wmap) (m : mm) (w : list T) : option (wnode * T) :=
  match l with
  | [] => None
  | (_, nd) :: t =>
    Some (fold_left (fun best kv => let d := distance (w_w (snd kv)) w m in
                                    if n_lt N d (snd best) then (snd kv, d) else best)
                    t (nd, distance (w_w nd) w m))
  end.

(* ---------- learning-rate schedule of adjust_weights ---------- *)
Definition base_rate (lr : T) (len : nat) (is_new : bool) : T :=
  let r := n_mul N lr (n_sub N (n_one N) (n_div N (n_38 N) (n_ofZ N (Z.of_nat len)))) in
  if is_new then r else n_mul N (n_quarter N) r.

(* Network::adjust_weights: the node with the base rate, every existing neighbour within the radius with rate / Manhattan distance;
   Node::adjust (debug_assert on the lengths), then min_max_weights.update(node.weights) *)
Definition adjust_node (n : wnet) (c : coord) (w : list T) (lr : T) : res wnet :=
  match lookupW c (wn_nodes n) with
  | None => Ok n
  | Some x =>
    if (length (w_w x) =? length w)%nat
    then let w' := adjust (w_w x) w lr in
         bind (mm_update (wn_mm n) w') (fun m' => Ok (with_mmW (with_nodesW n (modifyW c (set_w w') (wn_nodes n))) m'))
    else Panic 3
  end.
Definition adjust_weights (n : wnet) (c : coord) (w : list T) (r : Z) (is_new : bool) : res wnet :=
  match lookupW c (wn_nodes n) with
  | None => Panic 2
  | Some nd =>
    let lr := base_rate (wn_lr n) (length (wn_nodes n)) is_new in
    let targets := (c, lr) :: map (fun p => (fst p, n_div N lr (n_ofZ N (manh (snd p))))) (existing (neighboursW (wn_nodes n) nd r)) in
    fold_left (fun acc t => bind acc (fun m => adjust_node m (fst t) w (snd t))) targets (Ok n)
  end.

(* Network::distribute_error *)
Definition distribute_error (n : wnet) (c : coord) (r : Z) : res wnet :=
  match lookupW c (wn_nodes n) with
  | None => Panic 2
  | Some nd =>
    let targets := (c, None) :: map (fun p => (fst p, Some (n_div N (wn_df n) (n_ofZ N (manh (snd p))))))
                                    (existing (neighboursW (wn_nodes n) nd r)) in
    fold_left (fun acc t => bind acc (fun m =>
                 match lookupW (fst t) (wn_nodes m) with
                 | None => Panic 4
                 | Some _ =>
                   Ok (with_nodesW m (modifyW (fst t) (fun x => match snd t with
                                                               | Some d => set_e (n_add N (w_e x) (n_mul N d (w_e x))) x
                                                               | None => set_e (n_mul N (n_half N) (wn_thr m)) x
                                                               end) (wn_nodes m)))
                 end)) targets (Ok n)
  end.

(* Network::grow_nodes: the weight formulas *)
Definition grow_b (w1 w2 : T) : T := n_div N (n_add N w1 w2) (n_two N).                         (* case b: a node two steps away *)
Definition grow_ac (w1 w2 : T) : T :=                                                           (* cases a, c: extrapolation *)
  if n_lt N w1 w2 then n_sub N w1 (n_sub N w2 w1) else n_add N w1 (n_sub N w1 w2).
Definition grow_d (p : T * T) : T := n_div N (n_add N (fst p) (snd p)) (n_two N).               (* case d: middle of min/max *)
Definition grow_weights (n : wnet) (nd : wnode) (o : Z * Z) : list T :=
  let cc := w_c nd in
  let get_node (ox oy : Z) := lookupW (fst cc + ox, snd cc + oy) (wn_nodes n) in
  let nx := fst o in let ny := snd o in
  let horizontal := Z.abs nx =? 1 in
  match (if horizontal then get_node (nx * 2) 0 else get_node 0 (ny * 2)) with
  | Some m2 => map2 grow_b (w_w nd) (w_w m2)
  | None =>
    match (if horizontal then orelse (get_node (- nx) 0) (orelse (get_node 0 1) (get_node 0 (-1)))
           else orelse (get_node 0 (- ny)) (orelse (get_node 1 0) (get_node (-1) 0))) with
    | Some m2 => map2 grow_ac (w_w nd) (w_w m2)
    | None => map grow_d (mm_iter (wn_mm n))
    end
  end.
Definition grow_nodesW (n : wnet) (c : coord) : res (list (coord * list T)) :=
  match lookupW c (wn_nodes n) with
  | None => Panic 1
  | Some nd =>
    Ok (map (fun o => ((fst (w_c nd) + fst o, snd (w_c nd) + snd o), grow_weights n nd o))
            (map snd (filter (fun p => is_none (fst p)) (main_neighboursW (wn_nodes n) nd))))
  end.
(* Network::insert: min_max_weights.update(weights); nodes.insert(coord, Node::new(coord, weights, 0., ..)) *)
Definition insert_node (n : wnet) (c : coord) (w : list T) : res wnet :=
  bind (mm_update (wn_mm n) w) (fun m' =>
    Ok (with_mmW (with_nodesW n (insertW c (mkW c w (n_zero N) 0 (wn_fcap n) []) (wn_nodes n))) m')).

(* Network::update + the storage add of train_batch; `err` = distance(bmu.weights, input.weights) computed BEFORE the batch is applied *)
Definition exceeds (n : wnet) (nd : wnode) : bool := n_le N (wn_thr n) (w_e nd).
Definition updateW (n : wnet) (bmu : coord) (x : item) (err : T) (is_new : bool) : res wnet :=
  match lookupW bmu (wn_nodes n) with
  | None => Panic 2
  | Some _ =>
    let n1 := with_nodesW n (modifyW bmu (fun nd => let nd' := set_e (n_add N (w_e nd) err) nd in if is_new then hitW nd' else nd')
                                     (wn_nodes n)) in
    let r := if is_new then 2 else 3 in
    match lookupW bmu (wn_nodes n1) with
    | None => Panic 2
    | Some nd =>
      bind
        (if exceeds n1 nd && (is_boundaryW (wn_nodes n1) nd && is_new)
         then bind (grow_nodesW n1 bmu) (fun news =>
                fold_left (fun acc cw => bind acc (fun m => bind (insert_node m (fst cw) (snd cw)) (fun m' =>
                                                           adjust_weights m' (fst cw) (itw x) r is_new)))
                          news (Ok n1))
         else if exceeds n1 nd then distribute_error n1 bmu r
         else adjust_weights n1 bmu (itw x) r is_new)
        (fun n2 => match lookupW bmu (wn_nodes n2) with
                   | None => Panic 4
                   | Some _ => Ok (with_nodesW n2 (modifyW bmu (storeW x) (wn_nodes n2)))
                   end)
    end
  end.

(* Network::train_on_data: (bmu.coordinate, distance, input) for ALL inputs on the state before the batch, then train_batch *)
Definition plan (n : wnet) (data : list item) : res (list (coord * T * item)) :=
  fold_right (fun x acc => bind acc (fun l => match find_bmu (wn_nodes n) (wn_mm n) (itw x) with
                                              | None => Panic 1
                                              | Some b => Ok ((w_c (fst b), snd b, x) :: l)
                                              end)) (Ok []) data.
Definition train_on_dataW (n : wnet) (data : list item) (is_new : bool) : res wnet :=
  if negb (wn_known n) then Panic 97 else
  bind (plan n data) (fun p =>
    fold_left (fun acc t => bind acc (fun m => updateW m (fst (fst t)) (snd t) (snd (fst t)) is_new)) p (Ok n)).

(* validated re-ordering of the association list into the observed iteration order of the hash map *)
Definition reorder (post : list coord) (l : wmap) : res wmap :=
  if (length post =? length l)%nat && nodupb coord_eqb post
  then fold_right (fun c acc => bind acc (fun t => match lookupW c l with Some nd => Ok ((c, nd) :: t) | None => Panic 98 end)) (Ok []) post
  else Panic 98.
Definition reorder_net (post : list coord) (n : wnet) : res wnet := bind (reorder post (wn_nodes n)) (fun l => Ok (with_nodesW n l)).

(* Network::store_batch *)
Definition store_batchW (n : wnet) (data : list item) : res wnet :=
  if negb (wn_known n) then Panic 97 else
  bind (mm_update_all (wn_mm n) (map itw data)) (fun m => train_on_dataW (with_mmW n m) data true).

(* one round of Network::retrain *)
Definition drain_allW (l : wmap) : list item * wmap := (flat_map (fun kv => w_st (snd kv)) l, map (fun kv => (fst kv, clearW (snd kv))) l).
Fixpoint resolve_ids (pool : list item) (ids : list Z) : option (list item) :=
  match ids with
  | [] => Some []
  | i :: t => match find_item i pool, resolve_ids pool t with
              | Some it, Some r => Some (it :: r)
              | _, _ => None
              end
  end.
(* what sort_unstable_by(compare_input) + dedup_by(.. == Equal) leave: one individual per distinct weight vector (bit patterns) *)
Definition survivors_okW (pool sv : list item) : bool :=
  nodupb Z.eqb (map it_id sv) && nodupb zl_eqb (map it_w sv) && forallb (fun p => existsb (fun s => zl_eqb (it_w s) (it_w p)) sv) pool.
Definition retrain_roundW (n : wnet) (allow_growth : bool) (ids : list Z) : res wnet :=
  let (pool, l') := drain_allW (wn_nodes n) in
  match resolve_ids pool ids with
  | None => Panic 91
  | Some sv =>
    if survivors_okW pool sv then
      bind (mm_update_all (mm_reset (wn_mm n)) (map itw sv ++ map (fun kv => w_w (snd kv)) l')) (fun m =>
      bind (train_on_dataW (set_known (with_mmW (with_nodesW n l') m)) sv allow_growth) (fun n2 =>
        Ok (with_nodesW n2 (map (fun kv => (fst kv, set_e (n_zero N) (snd kv))) (wn_nodes n2)))))
    else Panic 92
  end.
Definition smoothW (n : wnet) (rounds : list (list Z)) : res wnet :=
  fold_left (fun acc ids => bind acc (fun m => retrain_roundW m false ids)) rounds (Ok n).

(* contract_graph(decimation (3, 4)): lattice part as Model/Gsom.v; `post` = iteration order after the remap *)
Definition shapeW (l : wmap) : (Z * Z) * (Z * Z) :=
  fold_left (fun acc kv => let '((x0, x1), (y0, y1)) := acc in
                           ((Z.min x0 (fst (fst kv)), Z.max x1 (fst (fst kv))), (Z.min y0 (snd (fst kv)), Z.max y1 (snd (fst kv)))))
            l ((i32_max, i32_min), (i32_max, i32_min)).
Definition remapW (f : coord -> coord) (l : wmap) : wmap :=
  fold_left (fun acc kv => let nd := moveW (f (fst kv)) (snd kv) in insertW (w_c nd) nd acc) l [].
Definition remove_allW (l : wmap) (removed : list coord) : res (list item * wmap) :=
  fold_left (fun acc c => bind acc (fun st => match lookupW c (snd st) with
                                              | None => Panic 6
                                              | Some nd => Ok (fst st ++ w_st nd, removeW c (snd st))
                                              end)) removed (Ok ([], l)).
Definition compactW (n : wnet) (post : list coord) : res wnet :=
  if negb (wn_known n) then Panic 97 else
  let sh := shapeW (wn_nodes n) in
  let '(xd, yd) := decims sh 3 4 in
  let removed := filter (decimated xd yd) (map (fun kv => w_c (snd kv)) (wn_nodes n)) in
  if (length (wn_nodes n) - length removed <? 4)%nat then Ok n
  else bind (remove_allW (wn_nodes n) removed) (fun st =>
         bind (reorder post (remapW (remap_coord sh xd yd) (snd st))) (fun l2 =>
           train_on_dataW (with_nodesW n l2) (fst st) false)).

(* ---------- operations ---------- *)
Inductive wop :=
| WStore (data : list item) (post : list coord)
| WSmooth (rounds : list (list Z)) (post : list coord)
| WCompact (post : list coord)
| WLr (bits : Z).
Definition stepW (n : wnet) (o : wop) : res wnet :=
  match o with
  | WStore data post => bind (store_batchW n data) (reorder_net post)
  | WSmooth rounds post => bind (smoothW n rounds) (reorder_net post)
  | WCompact post => bind (compactW n post) (reorder_net post)
  | WLr b => Ok (with_lrW n (n_ofbits N b))
  end.
Definition runW (n : wnet) (ops : list wop) : res wnet := fold_left (fun acc o => bind acc (fun m => stepW m o)) ops (Ok n).

(* observed node after Network::new: ((key, node.coordinate), weights, error, (total_hits, capacity), stored individuals) *)
Definition wobs := ((coord * coord) * list Z * Z * (nat * nat) * list item)%type.
Definition node_of_obs (o : wobs) : coord * wnode :=
  let '(kc, w, e, hc, st) := o in
  (fst kc, mkW (snd kc) (map (n_ofbits N) w) (n_ofbits N e) (fst hc) (snd hc) st).
Definition net_of_obs (d : nat) (thr df lr : Z) (cap : nat) (obs : list wobs) : wnet :=
  mkWN (map node_of_obs obs) d (n_ofbits N thr) (n_ofbits N df) (n_ofbits N lr) (mm_new d) false cap.

(* snapshot: per node ((key, node.coordinate), weights, error, (hits, capacity, ids), (Node::mse, unified_distance(1))); (Network::mse, max_unified_distance) *)
Definition wsnap := (list ((coord * coord) * list T * T * (nat * nat * list Z) * (T * T)) * (T * T))%type.
Definition snapshotW (n : wnet) : wsnap :=
  (map (fun kv => ((fst kv, w_c (snd kv)), w_w (snd kv), w_e (snd kv),
                   (w_hits (snd kv), w_cap (snd kv), map it_id (w_st (snd kv))),
                   (node_mse (wn_mm n) (snd kv), unified_distance (wn_nodes n) (wn_mm n) (snd kv) 1))) (wn_nodes n),
   (net_mse n, max_ud n)).
Fixpoint traceW (r : res wnet) (ops : list wop) : list (res wsnap) :=
  match ops with
  | [] => []
  | o :: t => let r' := bind r (fun m => stepW m o) in
              (match r' with Ok m => Ok (snapshotW m) | Panic c => Panic c end) :: traceW r' t
  end.
End W.

Arguments mkMM {T}. Arguments mm_min {T}. Arguments mm_max {T}. Arguments mm_isreset {T}.
Arguments mkW {T}. Arguments w_c {T}. Arguments w_w {T}. Arguments w_e {T}. Arguments w_hits {T}. Arguments w_cap {T}. Arguments w_st {T}.
Arguments mkWN {T}. Arguments wn_nodes {T}. Arguments wn_dim {T}. Arguments wn_thr {T}. Arguments wn_df {T}. Arguments wn_lr {T}.
Arguments wn_mm {T}. Arguments wn_known {T}. Arguments wn_fcap {T}.

(* ================= instance 1: exact rationals ================= *)
(* exact value of a finite binary64 bit pattern (0 for infinities / NaN: the Q instance is only used on finite data) *)
Definition q_of_bits (b : Z) : Q :=
  match sf_of_bits b with
  | S754_finite s m e => let v := if 0 <=? e then inject_Z (Zpos m * 2 ^ e) else Qmake (Zpos m) (Z.to_pos (2 ^ (- e))) in
                         if s then Qopp v else v
  | _ => 0%Q
  end.
Definition q_fmax : Q := inject_Z (2 ^ 1024 - 2 ^ 971).
(* `sq` stands for f64::sqrt (not a rational function): theorems assume only 0 <= sq x and monotonicity *)
Definition QN (sq : Q -> Q) : num Q :=
  mkNum 0%Q 0%Q 1%Q 2%Q (1 # 2)%Q (1 # 4)%Q (q_of_bits 4615739258092021350) q_fmax (Qopp q_fmax)
        Qplus Qminus Qmult Qdiv sq
        (fun x y => negb (Qle_bool y x)) Qle_bool Qeq_bool
        (fun x y => if Qle_bool x y then x else y) (fun x y => if Qle_bool x y then y else x)
        inject_Z q_of_bits.

(* cosine annealing of rosomaxa.rs :: get_learning_rate: min_lr + 0.5 * (max_lr - min_lr) * (1 + cos(..)), c = the cosine *)
Definition learning_rate_of_cos (c : Q) : Q := ((1 # 10) + (1 # 2) * (1 - (1 # 10)) * (1 + c))%Q.

(* entry point of the exact correspondence of Node::adjust: numerators / denominators of the adjusted weights *)
Definition q_out (q : Q) : Z * Z := let r := Qred q in (Qnum r, Zpos (Qden r)).
Definition run_adjustQ (w target : list Z) (lr : Z) : list (Z * Z) :=
  map q_out (adjust (QN (fun x => x)) (map q_of_bits w) (map q_of_bits target) (q_of_bits lr)).
