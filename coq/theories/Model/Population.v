(* Model of the three populations of the rosomaxa crate (property C08).
     rosomaxa/src/population/greedy.rs   :: Greedy::{add, add_all, select, ranked, size, selection_phase, on_generation}
     rosomaxa/src/population/elitism.rs  :: Elitism::{add, add_all, add_with_iter, sort (sort_by + dedup_by),
                                            ensure_max_population_size, on_generation, select, ranked, size, selection_phase}
     rosomaxa/src/population/rosomaxa.rs :: Rosomaxa::{new, add, add_all, is_comparable_with_best_known, on_generation/update_phase,
                                            select, ranked, size, selection_phase}, create_dedup_fn
                                            + the bool returned by add / add_all of all three (Elitism::is_improved): Section Returns, step_ret
     rosomaxa/src/lib.rs                 :: TelemetryHeuristicContext::{on_initial, on_generation}  (solve_loop)
     rosomaxa/src/evolution/strategies/iterative.rs :: Iterative::run (solve_loop: select / add_all offspring / on_generation / ranked)
   Individuals are abstract (`ind`) with `cmp : ind -> ind -> comparison` (HeuristicObjective::total_order) and
   `dedup : ind -> ind -> bool` (the DedupFn, called as dedup later earlier by Vec::dedup_by).
   slice::sort_by is a stable sort: modelled by stable insertion sort `ssort` (same result for every total preorder).
   Randomness (Random::uniform_int / is_hit) is an oracle argument of the select operations (list of draws / hits).
   The GSOM network of Rosomaxa is abstracted to the bag `net` of individuals handed to it; what the nodes return in a
   selection is an oracle argument `nodes`.  Panics (`expect("cannot create network")`, `assert!(!initial_data.is_empty())`)
   are `None`.
   Entry points used by the correspondence: run_greedy, run_elitism, run_rosomaxa, rets_greedy, rets_elitism, rets_rosomaxa (concrete individuals `zi`).
   No proofs in this file. *)
From VRP Require Import Base.Tac.

(* what HeuristicObjective::total_order promises ("a total ordering relation"); ties allowed *)
Definition total_preorder {ind : Type} (cmp : ind -> ind -> comparison) : Prop :=
  (forall x y, cmp x y = CompOpp (cmp y x)) /\
  (forall x y z, cmp x y <> Gt -> cmp y z <> Gt -> cmp x z <> Gt).

Section Generic.
Context {ind : Type}.
Variable cmp : ind -> ind -> comparison.
Variable dedup : ind -> ind -> bool.

Definition is_gt (c : comparison) : bool := match c with Gt => true | _ => false end.

(* ---------- slice::sort_by (stable) ---------- *)
Fixpoint insert (x : ind) (l : list ind) : list ind :=
  match l with
  | [] => [x]
  | y :: l' => if is_gt (cmp x y) then y :: insert x l' else x :: y :: l'
  end.
Fixpoint ssort (l : list ind) : list ind :=
  match l with [] => [] | x :: l' => insert x (ssort l') end.

(* ---------- Vec::dedup_by(|a, b| dedup(a, b)) : a = current element, b = last retained; true -> a removed ---------- *)
Fixpoint dedup_go (last : ind) (l : list ind) : list ind :=
  match l with
  | [] => []
  | x :: l' => if dedup x last then dedup_go last l' else x :: dedup_go x l'
  end.
Definition dedup_by (l : list ind) : list ind :=
  match l with [] => [] | x :: l' => x :: dedup_go x l' end.

(* specification predicate: no individual of the list is a twin (under dedup) of the one ranked directly before it *)
Fixpoint no_adjacent_twins (l : list ind) : Prop :=
  match l with
  | a :: (b :: _) as t => dedup b a = false /\ no_adjacent_twins t
  | _ => True
  end.

(* ---------- HeuristicSpeed (ratio = r/16) ---------- *)
Inductive speed := SpUnknown | SpModerate | SpSlow (r : Z).

(* (selection_size as Float * ratio).max(1.).round() as usize *)
Definition slow_size (sel : nat) (r : Z) : nat := Z.to_nat (Z.max 1 ((2 * Z.of_nat sel * r + 16) / 32)).

(* ================= Greedy ================= *)
Record greedy := { g_best : option ind; g_sel : nat }.

Definition g_add (st : greedy) (x : ind) : bool * greedy :=
  match g_best st with
  | Some b => if is_gt (cmp b x) then (true, {| g_best := Some x; g_sel := g_sel st |}) else (false, st)
  | None => (true, {| g_best := Some x; g_sel := g_sel st |})
  end.

(* individuals.into_iter().fold(false, |acc, individual| self.add(individual) || acc) : every individual is offered to add
   (before the fix 646d0ea the closure was `acc || self.add(individual)`, which short-circuits after the first accepted one) *)
Definition g_add_all (st : greedy) (xs : list ind) : bool * greedy :=
  fold_left (fun (a : bool * greedy) x => let r := g_add (snd a) x in (fst r || fst a, snd r)) xs (false, st).

Definition g_ranked (st : greedy) : list ind := match g_best st with Some b => [b] | None => [] end.
Definition g_select (st : greedy) : list ind := match g_best st with Some b => repeat b (g_sel st) | None => [] end.
Definition g_size (st : greedy) : nat := length (g_ranked st).

(* ================= Elitism ================= *)
Record elitism := { e_inds : list ind; e_max : nat; e_sel : nat; e_speed : option speed }.

Definition e_with (st : elitism) (l : list ind) : elitism :=
  {| e_inds := l; e_max := e_max st; e_sel := e_sel st; e_speed := e_speed st |}.

(* extend; sort_by; dedup_by; truncate *)
Definition e_add_with_iter (st : elitism) (xs : list ind) : elitism :=
  e_with st (firstn (e_max st) (dedup_by (ssort (e_inds st ++ xs)))).
Definition e_add (st : elitism) (x : ind) : elitism := e_add_with_iter st [x].
Definition e_add_all (st : elitism) (xs : list ind) : elitism :=
  match xs with [] => st | _ => e_add_with_iter st xs end.
Definition e_on_generation (st : elitism) (sp : speed) : elitism :=
  {| e_inds := e_inds st; e_max := e_max st; e_sel := e_sel st; e_speed := Some sp |}.

Definition e_sel_size (st : elitism) : nat :=
  match e_speed st with Some (SpSlow r) => slow_size (e_sel st) r | _ => e_sel st end.

(* once(0).chain((1..n).map(|_| uniform_int(0, size-1))).take(n).filter_map(|idx| individuals.get(idx)) *)
Definition e_indices (n size : nat) (draws : list Z) : list nat :=
  firstn n (0%nat :: map (fun j => Z.to_nat (nth j draws 0 mod Z.of_nat size)) (seq 0 (n - 1))).
Definition pick (l : list ind) (i : nat) : list ind := match nth_error l i with Some x => [x] | None => [] end.
Definition e_select (st : elitism) (draws : list Z) : list ind :=
  match e_inds st with
  | [] => []
  | _ => flat_map (pick (e_inds st)) (e_indices (e_sel_size st) (length (e_inds st)) draws)
  end.

(* ================= Rosomaxa ================= *)
(* exploration_ratio = c_er/64; termination_estimate = t/1024; Slow ratio = r/16 (all dyadic: exact in f64) *)
Record rconfig := { c_initial : nat; c_sel : nat; c_elite : nat; c_er : Z }.
Inductive rphase :=
| PInitial (sols : list ind)
| PExploration (sel : nat) (net : list ind)
| PExploitation (sel : nat).
Record rosomaxa := { r_cfg : rconfig; r_elite : elitism; r_phase : rphase }.

Definition r_new (c : rconfig) : option rosomaxa :=
  if (c_elite c <? 1)%nat || (c_sel c <? 2)%nat then None
  else Some {| r_cfg := c;
               r_elite := {| e_inds := []; e_max := c_elite c; e_sel := c_sel c; e_speed := None |};
               r_phase := PInitial [] |}.

Definition is_comparable (best : option ind) (x : ind) : bool :=
  match best with None => true | Some b => negb (is_gt (cmp x b)) end.

Definition r_add_all (st : rosomaxa) (xs : list ind) : rosomaxa :=
  let best := hd_error (e_inds (r_elite st)) in
  let elite' := e_add_all (r_elite st) (filter (is_comparable best) xs) in
  let phase' := match r_phase st with
                | PInitial sols => PInitial (sols ++ xs)
                | PExploration k net => PExploration k (net ++ xs)
                | PExploitation k => PExploitation k
                end in
  {| r_cfg := r_cfg st; r_elite := elite'; r_phase := phase' |}.
Definition r_add (st : rosomaxa) (x : ind) : rosomaxa := r_add_all st [x].

Definition r_sel_size (c : rconfig) (sp : speed) : nat :=
  match sp with SpSlow r => slow_size (c_sel c) r | _ => c_sel c end.
(* exploration_ratio scaled by 1024 *)
Definition r_er (c : rconfig) (sp : speed) : Z :=
  match sp with SpSlow r => c_er c * r | _ => c_er c * 16 end.

(* ((old as f64 / 2.).round() as usize).clamp(2, 4) *)
Definition halve_clamp (old : nat) : nat := Nat.min 4 (Nat.max 2 ((old + 1) / 2)).

Definition r_on_generation (st : rosomaxa) (sp : speed) (t : Z) : option rosomaxa :=
  let c := r_cfg st in
  let sel := r_sel_size c sp in
  let er := r_er c sp in
  let set ph := Some {| r_cfg := c; r_elite := r_elite st; r_phase := ph |} in
  match r_phase st with
  | PInitial sols =>
      if er <? t then set (PExploitation sel)
      else if (c_initial c <=? length sols)%nat then
             (* Network::new: assert!(!initial_data.is_empty()); select_initial_samples needs 4 samples *)
             if (length sols <? 4)%nat then None else set (PExploration sel sols)
           else set (PInitial sols)
  | PExploration _ net =>
      if t <? er then set (PExploration sel net) else set (PExploitation sel)
  | PExploitation old => set (PExploitation (halve_clamp old))
  end.

Definition hit (hits : list bool) (i : nat) : bool := nth i hits false.
Definition r_select (st : rosomaxa) (draws : list Z) (hits : list bool) (nodes : list ind) : list ind :=
  match r_phase st with
  | PInitial sols => sols
  | PExploration sel _ =>
      let es := if (6 <? sel)%nat
                then ((if hit hits 0 then 2 else 1) + (if hit hits 1 then 2 else 1))%nat else 1%nat in
      firstn sel (firstn es (e_select (r_elite st) draws) ++ nodes)
  | PExploitation sel => firstn sel (e_select (r_elite st) draws)
  end.
Definition r_ranked (st : rosomaxa) : list ind := e_inds (r_elite st).

(* ================= one interface over the three populations ================= *)
Inductive pop := PG (g : greedy) | PE (e : elitism) | PR (r : rosomaxa).

Inductive op :=
| OAdd (x : ind)
| OAddAll (xs : list ind)
| OGen (sp : speed) (t : Z)
| OSelect (draws : list Z) (hits : list bool) (nodes : list ind)
| ORanked.

Definition ranked (p : pop) : list ind :=
  match p with PG g => g_ranked g | PE e => e_inds e | PR r => r_ranked r end.
Definition size (p : pop) : nat := length (ranked p).
Definition max_size (p : pop) : nat :=
  match p with PG _ => 1%nat | PE e => e_max e | PR r => c_elite (r_cfg r) end.
Definition select (p : pop) (draws : list Z) (hits : list bool) (nodes : list ind) : list ind :=
  match p with PG g => g_select g | PE e => e_select e draws | PR r => r_select r draws hits nodes end.
(* SelectionPhase: 0 Initial, 1 Exploration, 2 Exploitation *)
Definition phase_rank (p : pop) : nat :=
  match p with
  | PR r => match r_phase r with PInitial _ => 0%nat | PExploration _ _ => 1%nat | PExploitation _ => 2%nat end
  | _ => 2%nat
  end.

Definition step (p : pop) (o : op) : option pop :=
  match o, p with
  | OAdd x, PG g => Some (PG (snd (g_add g x)))
  | OAdd x, PE e => Some (PE (e_add e x))
  | OAdd x, PR r => Some (PR (r_add r x))
  | OAddAll xs, PG g => Some (PG (snd (g_add_all g xs)))
  | OAddAll xs, PE e => Some (PE (e_add_all e xs))
  | OAddAll xs, PR r => Some (PR (r_add_all r xs))
  | OGen sp t, PG g => Some p
  | OGen sp t, PE e => Some (PE (e_on_generation e sp))
  | OGen sp t, PR r => option_map PR (r_on_generation r sp t)
  | OSelect _ _ _, _ => Some p
  | ORanked, _ => Some p
  end.

Fixpoint run (ops : list op) (p : pop) : option pop :=
  match ops with
  | [] => Some p
  | o :: ops' => match step p o with Some p' => run ops' p' | None => None end
  end.

(* individuals offered by a history, singly or in a batch *)
Fixpoint offered (ops : list op) : list ind :=
  match ops with
  | [] => []
  | OAdd x :: ops' => x :: offered ops'
  | OAddAll xs :: ops' => xs ++ offered ops'
  | _ :: ops' => offered ops'
  end.
Definition selection_size (p : pop) : nat :=
  match p with PG g => g_sel g | PE e => e_sel e | PR r => c_sel (r_cfg r) end.
Definition is_greedy (p : pop) : bool := match p with PG _ => true | _ => false end.

(* valid start states *)
Definition greedy_new (sel : nat) (best : option ind) : pop := PG {| g_best := best; g_sel := sel |}.
(* Elitism::new_with_dedup asserts max_population_size > 0 *)
Definition elitism_new (max sel : nat) : option pop :=
  if (max <? 1)%nat then None else Some (PE {| e_inds := []; e_max := max; e_sel := sel; e_speed := None |}).
Definition rosomaxa_new (c : rconfig) : option pop := option_map PR (r_new c).

(* the states a population can be created in through its public constructors *)
Definition start_state (p0 : pop) : Prop :=
  (exists sel best, p0 = greedy_new sel best) \/ (exists max sel, elitism_new max sel = Some p0) \/
  (exists c, rosomaxa_new c = Some p0).

(* ---------- the evolution loop (Iterative::run over TelemetryHeuristicContext) ----------
   initial solutions arrive through `add`; every generation: select parents, add_all offspring, on_generation(stats).
   `gens` carries, per generation, the oracle data of that generation: (draws, hits, nodes), the offspring produced
   (arbitrary), and the statistics. The result is the head of ranked. *)
Definition generation := (list Z * list bool * list ind * list ind * speed * Z)%type.
Definition solve_ops (inits : list ind) (gens : list generation) : list op :=
  map OAdd inits ++
  flat_map (fun g : generation => match g with (dr, hi, nd, offspring, sp, t) =>
              [OSelect dr hi nd; OAddAll offspring; OGen sp t] end) gens ++ [ORanked].
Definition solve (p0 : pop) (inits : list ind) (gens : list generation) : option (option ind) :=
  option_map (fun p => hd_error (ranked p)) (run (solve_ops inits gens) p0).
Definition gen_offspring (g : generation) : list ind := match g with (_, _, _, offspring, _, _) => offspring end.
(* the elite individuals of a population (Greedy: its best) and, for Rosomaxa in the Initial phase, the stored solutions *)
Definition initial_solutions (p : pop) : option (list ind) :=
  match p with PR r => match r_phase r with PInitial sols => Some sols | _ => None end | _ => None end.
(* what Rosomaxa keeps besides its elite: the Initial solutions, later the bag handed to the GSOM network (create_network / store_batch) *)
Definition stored (p : pop) : option (list ind) :=
  match p with
  | PR r => match r_phase r with PInitial sols => Some sols | PExploration _ net => Some net | PExploitation _ => None end
  | _ => None
  end.

(* the offering operations of a history, in order (what is left when generation ticks, selections and reads are dropped) *)
Definition is_offer (o : op) : bool := match o with OAdd _ | OAddAll _ => true | _ => false end.
Definition offers (ops : list op) : list op := filter is_offer ops.

End Generic.

Arguments greedy : clear implicits.
Arguments elitism : clear implicits.
Arguments rosomaxa : clear implicits.
Arguments rphase : clear implicits.
Arguments pop : clear implicits.
Arguments op : clear implicits.

(* ================= the bool returned by add / add_all ("is any of the new individuals considered best known") =================
   greedy.rs  :: add returns whether the best was replaced; add_all: `self.add(x) || acc` over the batch
   elitism.rs :: is_improved(best_known_fitness): no best before, or some fitness component of the new first individual differs from the
                 old first one (`zip(..).any(|(a, b)| a != b)`); add_all on an empty batch returns false
   rosomaxa.rs:: add_all returns what its elite returns for the filtered batch
   `fit_differs a b` = some component of the fitness vectors of a and b differs. *)
Section Returns.
Context {ind : Type}.
Variable cmp : ind -> ind -> comparison.
Variable dedup : ind -> ind -> bool.
Variable fit_differs : ind -> ind -> bool.

Definition e_is_improved (old new : list ind) : bool :=
  match hd_error old, hd_error new with
  | Some a, Some b => fit_differs a b
  | _, _ => true
  end.
Definition e_add_ret (st : elitism ind) (xs : list ind) : bool :=
  e_is_improved (e_inds st) (e_inds (e_add_with_iter cmp dedup st xs)).
Definition e_add_all_ret (st : elitism ind) (xs : list ind) : bool :=
  match xs with [] => false | _ => e_add_ret st xs end.
Definition r_add_all_ret (st : rosomaxa ind) (xs : list ind) : bool :=
  e_add_all_ret (r_elite st) (filter (is_comparable cmp (hd_error (e_inds (r_elite st)))) xs).

(* what the operation returns to its caller (None: on_generation / select / ranked return no bool) *)
Definition step_ret (p : pop ind) (o : op ind) : option bool :=
  match o, p with
  | OAdd x, PG g => Some (fst (g_add cmp g x))
  | OAdd x, PE e => Some (e_add_ret e [x])
  | OAdd x, PR r => Some (r_add_all_ret r [x])
  | OAddAll xs, PG g => Some (fst (g_add_all cmp g xs))
  | OAddAll xs, PE e => Some (e_add_all_ret e xs)
  | OAddAll xs, PR r => Some (r_add_all_ret r xs)
  | _, _ => None
  end.
End Returns.

(* ================= concrete individuals for the correspondence ================= *)
(* harness solution: id, key (what the objective orders by), tag (second fitness component when `two`), w (the GSOM weight) *)
Record zi := ZI { zid : Z; zkey : Z; ztag : Z; zw : Z }.
Definition zcmp (a b : zi) : comparison := Z.compare (zkey a) (zkey b).

(* relative_distance on one component < 1/den :  |a-b| / max(|a|,|b|) < 1/den, 0 when both are 0 *)
Definition rel_lt (den a b : Z) : bool :=
  let m := Z.max (Z.abs a) (Z.abs b) in
  if m =? 0 then true else den * Z.abs (a - b) <? m.

(* dedup predicates, `zdedup mode two later earlier`:
   0 never, 1 equal tags, 2 asymmetric on tags, 3 always,
   4 Elitism::new default (relative distance of the one-component fitness < 0.05),
   5 rosomaxa create_dedup_fn(0.02): Equal order -> all fitness components equal, otherwise weight distance < 0.02 *)
Definition zdedup (mode : Z) (two : bool) (a b : zi) : bool :=
  if mode =? 0 then false
  else if mode =? 1 then ztag a =? ztag b
  else if mode =? 2 then (ztag a + 2 * ztag b) mod 3 =? 0
  else if mode =? 3 then true
  else if mode =? 4 then rel_lt 20 (zkey a) (zkey b)
  else match zcmp a b with
       | Eq => if two then ztag a =? ztag b else true
       | _ => rel_lt 50 (zw a) (zw b)
       end.

(* operations as they come from the case files *)
Inductive zop :=
| ZAdd (x : zi)
| ZAddAll (xs : list zi)
| ZGen (sp : Z) (r : Z) (t : Z)            (* sp: 0 Unknown, 1 Moderate, 2 Slow(r/16) *)
| ZSelect (draws : list Z) (hits : list Z).

Definition zspeed (sp r : Z) : speed := if sp =? 2 then SpSlow r else if sp =? 1 then SpModerate else SpUnknown.
Definition to_op (o : zop) : op zi :=
  match o with
  | ZAdd x => OAdd x
  | ZAddAll xs => OAddAll xs
  | ZGen sp r t => OGen (zspeed sp r) t
  | ZSelect d h => OSelect d (map (fun z => negb (z =? 0)) h) []
  end.

(* observation after every operation: (phase, ranked ids, selected ids (empty unless the op is a select)) *)
Definition obs := (Z * list Z * list Z)%type.
Definition observe (mode : Z) (two : bool) (p : pop zi) (o : zop) : obs :=
  (Z.of_nat (phase_rank p), map zid (ranked p),
   match to_op o with
   | OSelect d h n => map zid (select p d h n)
   | _ => []
   end).

(* run a history, observing after every op; the bool is true when the model panicked (then the trace stops) *)
Fixpoint ztrace (mode : Z) (two : bool) (p : pop zi) (ops : list zop) : list obs * bool :=
  match ops with
  | [] => ([], false)
  | o :: ops' =>
      match step zcmp (zdedup mode two) p (to_op o) with
      | None => ([], true)
      | Some p' => let (tr, pn) := ztrace mode two p' ops' in (observe mode two p' o :: tr, pn)
      end
  end.

Definition run_greedy (sel : Z) (best : list zi) (ops : list zop) : list obs * bool :=
  ztrace 0 false (greedy_new (Z.to_nat sel) (hd_error best)) ops.
Definition run_elitism (max sel mode : Z) (two : bool) (ops : list zop) : list obs * bool :=
  match elitism_new (Z.to_nat max) (Z.to_nat sel) with
  | Some p => ztrace mode two p ops
  | None => ([], true)
  end.
Definition run_rosomaxa (initial sel elite er : Z) (two : bool) (ops : list zop) : list obs * bool :=
  match rosomaxa_new {| c_initial := Z.to_nat initial; c_sel := Z.to_nat sel; c_elite := Z.to_nat elite; c_er := er |} with
  | Some p => ztrace 5 two p ops
  | None => ([], true)
  end.

(* fitness of the harness solution: [key] or [key, tag] *)
Definition zfit_differs (two : bool) (a b : zi) : bool :=
  negb (zkey a =? zkey b) || (two && negb (ztag a =? ztag b)).

(* the bools returned by the add / add_all operations of a history, in order (-1: the operation returns nothing, 0 false, 1 true) *)
Fixpoint zrets (mode : Z) (two : bool) (p : pop zi) (ops : list zop) : list Z :=
  match ops with
  | [] => []
  | o :: ops' =>
      match step zcmp (zdedup mode two) p (to_op o) with
      | None => []
      | Some p' =>
          (match step_ret zcmp (zdedup mode two) (zfit_differs two) p (to_op o) with
           | Some true => 1 | Some false => 0 | None => -1 end) :: zrets mode two p' ops'
      end
  end.
Definition rets_greedy (sel : Z) (best : list zi) (ops : list zop) : list Z :=
  zrets 0 false (greedy_new (Z.to_nat sel) (hd_error best)) ops.
Definition rets_elitism (max sel mode : Z) (two : bool) (ops : list zop) : list Z :=
  match elitism_new (Z.to_nat max) (Z.to_nat sel) with Some p => zrets mode two p ops | None => [] end.
Definition rets_rosomaxa (initial sel elite er : Z) (two : bool) (ops : list zop) : list Z :=
  match rosomaxa_new {| c_initial := Z.to_nat initial; c_sel := Z.to_nat sel; c_elite := Z.to_nat elite; c_er := er |} with
  | Some p => zrets 5 two p ops
  | None => []
  end.
