(* C13 — the CHARACTER level of the scientific-format readers and writers (no proofs in this file).

   Rust items modelled:
     vrp-scientific/src/common/text_reader.rs :: read_line (BufRead::read_line: up to and including LF; 0 bytes at end of
                                                 input), skip_lines                                   -> lines
     core::str::split_whitespace, str::trim (ASCII part of char::is_whitespace: 9-13, 32)              -> words
     str::parse::<i32>() / ::<usize>() (core::num::from_str_radix, radix 10: optional '+', '-' only for the signed
        type, a lone sign is an error, leading zeros allowed, overflow is an error)                     -> parse_int_str
     str::parse::<f64>() (core::num::dec2flt grammar: sign? (digits ['.' digits*] | '.' digits) ([eE] sign? digits)?
        | inf | infinity | nan, case-insensitive)                                                      -> parse_float_str
     vrp-scientific/src/solomon/reader.rs, lilim/reader.rs: which line is parsed with which type        -> lex_solomon, lex_lilim
     vrp-scientific/src/tsplib/reader.rs :: read_key_value (split(':'), trim), read_expected_line (trim, ==),
        parse_int (f64 -> round -> as i32: through TDec and Model/Scientific.v :: f64_round)           -> lex_tsplib
     vrp-scientific/src/common/initial_reader.rs :: read_init_solution (split(':'), split_whitespace, id_map lookup of
        the id STRINGS, `not_used_jobs`)                                                               -> lex_init, read_init_text, read_init_full
     vrp-scientific/src/common/text_writer.rs :: write_text_solution ("Route {i}: {ids joined by ' '}\n", "Cost {cost:.2}",
        refusal when jobs are unassigned)                                                              -> write_solution_text, cost_str,
                                                                                                          write_solution_checked
     vrp-cli/src/extensions/solve/formats.rs :: get_formats / add_scientific (which reader, initial-solution reader and
        writer a format name selects; `is_rounded` handed to the reader)                                -> registry, cli_read
     vrp-cli/src/extensions/import/mod.rs :: import_problem (format dispatch only)                      -> import_known

   The character-level readers are the token-level readers of Model/Scientific.v composed with a lexer that is specific to
   the format (which lines are parsed with which Rust type); the lexers decide exactly what `str::parse` decides, so that
   e.g. "+5", "007", "-0" are the numbers Rust reads and "5:" is not a number.  Domain: 7-bit ASCII text (a non-ASCII byte
   gives status 3 in the run_* functions; Rust would decode UTF-8 and knows further white-space characters).
   Specification side (second half): printers from abstract instances to characters with oracle layouts (arbitrary
   white space, sign / leading-zero styles of every number, header lines) and the written solution text.

   run_* entry points: run_solomon_text, run_lilim_text, run_tsplib_text, run_cli_read, run_init_chars, run_cli_init,
   run_write_text, run_write_checked, run_import_known, run_words, run_parse. *)
From VRP Require Import Base.Tac Model.Scientific.
From Coq Require Import String Ascii.

Definition chars := list ascii.
Definition str (s : string) : chars := list_ascii_of_string s.
Definition code (c : ascii) : Z := Z.of_N (N_of_ascii c).

Definition LF : ascii := "010"%char.
Definition is_lf (c : ascii) : bool := Ascii.eqb c LF.
(* ASCII part of char::is_whitespace (White_Space): TAB LF VT FF CR SPACE *)
Definition is_ws (c : ascii) : bool :=
  Ascii.eqb c "009" || Ascii.eqb c "010" || Ascii.eqb c "011" || Ascii.eqb c "012" || Ascii.eqb c "013" || Ascii.eqb c " ".
Definition is_colon (c : ascii) : bool := Ascii.eqb c ":".
Definition is_plus (c : ascii) : bool := Ascii.eqb c "+".
Definition is_minus (c : ascii) : bool := Ascii.eqb c "-".
Definition is_dot (c : ascii) : bool := Ascii.eqb c ".".
Definition all_ascii (s : chars) : bool := forallb (fun c => code c <? 128) s.

(* ---------- read_line: the successive buffers (terminating LF included; a last line without LF as it is) ---------- *)
Fixpoint lines_aux (cur : chars) (s : chars) : list chars :=   (* cur: the current line, reversed *)
  match s with
  | [] => match cur with [] => [] | _ => [rev cur] end
  | c :: r => if is_lf c then rev (c :: cur) :: lines_aux [] r else lines_aux (c :: cur) r
  end.
Definition lines (s : chars) : list chars := lines_aux [] s.

(* ---------- split_whitespace ---------- *)
Fixpoint words_aux (cur : chars) (s : chars) : list chars :=   (* cur: the current word, reversed *)
  match s with
  | [] => match cur with [] => [] | _ => [rev cur] end
  | c :: r => if is_ws c then match cur with [] => words_aux [] r | _ => rev cur :: words_aux [] r end
              else words_aux (c :: cur) r
  end.
Definition words (s : chars) : list chars := words_aux [] s.

(* ---------- digits ---------- *)
Definition digit_val (c : ascii) : option Z :=
  let n := code c in if (48 <=? n) && (n <=? 57) then Some (n - 48) else None.
Fixpoint span_digits (s : chars) : list Z * chars :=
  match s with
  | [] => ([], [])
  | c :: r => match digit_val c with
              | Some d => let '(ds, rest) := span_digits r in (d :: ds, rest)
              | None => ([], s)
              end
  end.
Definition val_digits (ds : list Z) : Z := fold_left (fun a d => a * 10 + d) ds 0.
(* a non-empty string of digits and nothing else *)
Definition all_digits (s : chars) : option Z :=
  match span_digits s with
  | (d :: ds, []) => Some (val_digits (d :: ds))
  | _ => None
  end.

(* str::parse::<i32>() (signed = true) / ::<usize>() (signed = false), before the range check *)
Definition parse_int_str (signed : bool) (s : chars) : option Z :=
  match s with
  | [] => None
  | c :: r => if is_plus c then all_digits r
              else if is_minus c && signed then option_map Z.opp (all_digits r)
              else all_digits s
  end.

(* the decimal text of an integer as Rust's Display prints it: -?(0|[1-9][0-9]* ), never "-0" *)
Definition canon_digits (s : chars) : option Z :=
  match span_digits s with
  | ([d], []) => Some d
  | (d :: ds, []) => if d =? 0 then None else Some (val_digits (d :: ds))
  | _ => None
  end.
Definition canon_int (s : chars) : option Z :=
  match s with
  | [] => None
  | c :: r => if is_minus c
              then match canon_digits r with Some v => if v =? 0 then None else Some (- v) | None => None end
              else canon_digits s
  end.

(* ---------- str::parse::<f64>(): the accepted texts and the decimal they denote ---------- *)
Inductive fval :=
| FNum (neg : bool) (mant : Z) (nd : nat) (k : nat) (x : Z)   (* (-1)^neg * mant * 10^(x - k); nd digits in the mantissa *)
| FInf (neg : bool)
| FNan.
Definition lower (c : ascii) : ascii :=
  let n := N_of_ascii c in if ((65 <=? n) && (n <=? 90))%N then ascii_of_N (n + 32) else c.
Definition is_e (c : ascii) : bool := Ascii.eqb (lower c) "e".
Fixpoint chars_eqb (a b : chars) : bool :=
  match a, b with
  | [], [] => true
  | x :: a', y :: b' => Ascii.eqb x y && chars_eqb a' b'
  | _, _ => false
  end.
Definition str_ieq (s : chars) (w : string) : bool := chars_eqb (map lower s) (str w).
Definition strip_sign (s : chars) : bool * chars :=
  match s with
  | [] => (false, [])
  | c :: r => if is_minus c then (true, r) else if is_plus c then (false, r) else (false, s)
  end.
Definition parse_exp (s : chars) : option Z :=
  let '(neg, body) := strip_sign s in
  match all_digits body with Some v => Some (if neg then - v else v) | None => None end.
Definition parse_number (s : chars) : option (Z * nat * nat * Z) :=
  let '(ip, r1) := span_digits s in
  let '(fp, r2) := match r1 with
                  | c :: r => if is_dot c then span_digits r else ([], r1)
                  | [] => ([], r1)
                  end in
  match ip ++ fp with
  | [] => None
  | ds => match r2 with
          | [] => Some (val_digits ds, List.length ds, List.length fp, 0)
          | c :: r => if is_e c
                      then match parse_exp r with
                           | Some x => Some (val_digits ds, List.length ds, List.length fp, x)
                           | None => None
                           end
                      else None
          end
  end.
Definition parse_float_str (s : chars) : option fval :=
  match s with
  | [] => None
  | _ => let '(neg, body) := strip_sign s in
         match parse_number body with
         | Some (m, nd, k, x) => Some (FNum neg m nd k x)
         | None => if str_ieq body "inf" || str_ieq body "infinity" then Some (FInf neg)
                   else if str_ieq body "nan" then Some FNan else None
         end
  end.

(* the token of a float text: TDec m k denotes m / 10^k.  Magnitudes beyond 10^400 (infinite as a double) are cut to
   +-10^400, magnitudes below 10^-400 to 0, NaN (`NaN as i32` = 0) to 0: Model/Scientific.v :: parse_int only looks at
   `round() as i32` of the double, which is the same for the cut value. *)
Definition big : Z := 10 ^ 400.
Definition sgz (neg : bool) (z : Z) : Z := if neg then - z else z.
Definition dec_token (neg : bool) (m : Z) (nd k : nat) (x : Z) : token :=
  let e := x - Z.of_nat k in
  if 0 <=? e then
    if m =? 0 then TDec 0 0 else if 400 <? e then TDec (sgz neg big) 0 else TDec (sgz neg (m * 10 ^ e)) 0
  else
    if 400 + Z.of_nat nd <? - e then TDec 0 0 else TDec (sgz neg m) (Z.to_nat (- e)).
Definition word_tok (w : chars) : token := TWord (string_of_list_ascii w).
Definition colon_str : chars := [":"%char].

(* ---------- lexers: which Rust parse decides about a word ---------- *)
Definition tok_int (signed : bool) (w : chars) : token :=
  match parse_int_str signed w with Some z => TInt z | None => word_tok w end.
(* TSPLIB: ':' alone, the canonical integer texts (so that the line "-1" is recognised literally), every other text that
   f64::from_str accepts as the decimal it denotes, anything else a word *)
Definition lex_tsp_word (w : chars) : token :=
  if chars_eqb w colon_str then TColon else
  match canon_int w with
  | Some z => TInt z
  | None => match parse_float_str w with
            | Some (FNum neg m nd k x) => dec_token neg m nd k x
            | Some (FInf neg) => TDec (sgz neg big) 0
            | Some FNan => TDec 0 0
            | None => word_tok w
            end
  end.
(* initial solution: job ids are compared as STRINGS with the ids the readers produced (Display of usize / i32) *)
Definition lex_canon_word (w : chars) : token :=
  if chars_eqb w colon_str then TColon else
  match canon_int w with Some z => TInt z | None => word_tok w end.

Definition lex_words (f : chars -> token) (l : chars) : line := map f (words l).
(* split(':') + trim / split_whitespace of the parts == split_whitespace after isolating every ':' *)
Definition isolate_colons (l : chars) : chars :=
  flat_map (fun c => if is_colon c then [" "%char; ":"%char; " "%char] else [c]) l.

(* Solomon: line 5 (vehicle) is parsed as usize, the depot / customer lines as i32 (the other lines are skipped) *)
Definition lex_solomon (ls : list chars) : list line :=
  map (lex_words (tok_int true)) (firstn 4 ls) ++
  match skipn 4 ls with
  | [] => []
  | v :: r => lex_words (tok_int false) v :: map (lex_words (tok_int true)) r
  end.
(* Li & Lim: line 1 (vehicle) as usize, every other line as i32 *)
Definition lex_lilim (ls : list chars) : list line :=
  match ls with
  | [] => []
  | v :: r => lex_words (tok_int false) v :: map (lex_words (tok_int true)) r
  end.
Definition lex_tsplib (ls : list chars) : list line := map (fun l => lex_words lex_tsp_word (isolate_colons l)) ls.
Definition lex_init (ls : list chars) : list line := map (fun l => lex_words lex_canon_word (isolate_colons l)) ls.

(* ---------- the readers on characters ---------- *)
Definition read_solomon_text (s : chars) : res problem := read_solomon_defs (lex_solomon (lines s)).
Definition read_lilim_text (s : chars) : res problem := read_lilim_defs (lex_lilim (lines s)).
Definition read_tsplib_text (ord : list Z) (s : chars) : res problem := read_tsplib_defs ord (lex_tsplib (lines s)).
Definition read_init_text (known : list Z) (avail : nat) (s : chars) : res (list (list Z)) :=
  read_init known avail (lex_init (lines s)).
(* read_init_solution also reports the jobs no route mentions as unassigned (`not_used_jobs`) *)
Definition mentioned (rs : list (list Z)) (z : Z) : bool := existsb (existsb (Z.eqb z)) rs.
Definition read_init_full (known : list Z) (avail : nat) (s : chars) : res (list (list Z) * list Z) :=
  bind (read_init_text known avail s) (fun rs => Ok (rs, filter (fun z => negb (mentioned rs z)) known)).

(* ---------- vrp-cli format registry ---------- *)
Inductive init_reader := InitText | InitUnimplemented.
Inductive fmt := FSolomon | FLilim | FTsplib.
Definition format_of_name (name : string) : option fmt :=
  if String.eqb name "solomon" then Some FSolomon else
  if String.eqb name "lilim" then Some FLilim else
  if String.eqb name "tsplib" then Some FTsplib else None.
(* (initial-solution reader, writer = write_text_solution for all three) *)
Definition registry_init (f : fmt) : init_reader :=
  match f with FSolomon => InitText | FLilim => InitUnimplemented | FTsplib => InitText end.
(* import_problem knows "csv" only *)
Definition import_known (name : string) : bool := String.eqb name "csv".

(* ---------- the writer ---------- *)
Definition digit_char (d : Z) : ascii := ascii_of_N (Z.to_N (48 + d)).
Fixpoint digits_fuel (fuel : nat) (n : Z) (acc : list Z) : list Z :=
  match fuel with
  | O => acc
  | S f => let acc' := n mod 10 :: acc in
           if n <? 10 then acc' else digits_fuel f (n / 10) acc'
  end.
Definition digs (n : Z) : list Z := digits_fuel (S (Z.to_nat (Z.log2 n))) n [].
Definition dec_str (n : Z) : chars := map digit_char (digs n).
(* Display of an integer *)
Definition canon_str (z : Z) : chars := (if z <? 0 then ["-"%char] else []) ++ dec_str (Z.abs z).
Fixpoint join_sp (ws : list chars) : chars :=
  match ws with
  | [] => []
  | [w] => w
  | w :: r => w ++ " "%char :: join_sp r
  end.
(* format!("{:.2}", c) of the non-negative double c = m / 2^s: the exact value rounded to hundredths, ties to even *)
Definition cost_str (m : Z) (s : nat) : chars :=
  let h := rne_div (100 * m) (2 ^ Z.of_nat s) in
  dec_str (h / 100) ++ "."%char :: [digit_char ((h / 10) mod 10); digit_char (h mod 10)].
Definition route_line_text (ir : Z * list Z) : chars :=
  str "Route " ++ dec_str (fst ir) ++ str ": " ++ join_sp (map canon_str (snd ir)) ++ [LF].
Definition write_solution_text (rs : list (list Z)) (m : Z) (s : nat) : chars :=
  flat_map route_line_text (number_from 1 rs) ++ str "Cost " ++ cost_str m s.

(* write_text_solution refuses a solution that lists unassigned jobs *)
Definition write_solution_checked (unassigned : list Z) (rs : list (list Z)) (m : Z) (s : nat) : res chars :=
  match unassigned with [] => Ok (write_solution_text rs m s) | _ => Err end.

(* ---------- flat views for the correspondence ---------- *)
Definition out_of_domain : flat_t := (3, [], [], [], []).
Definition run_solomon_text (rounded : bool) (s : string) : flat_t :=
  let cs := str s in if all_ascii cs then flat_problem rounded (read_solomon_text cs) else out_of_domain.
Definition run_lilim_text (rounded : bool) (s : string) : flat_t :=
  let cs := str s in if all_ascii cs then flat_problem rounded (read_lilim_text cs) else out_of_domain.
Definition run_tsplib_text (rounded : bool) (s : string) : flat_t :=
  let cs := str s in
  if all_ascii cs
  then let ls := lex_tsplib (lines cs) in flat_problem rounded (read_tsplib_defs (tsp_file_order ls) ls)
  else out_of_domain.
(* `vrp-cli solve <name> <file> [--round]`: status 4 = no such format *)
Definition run_cli_read (name : string) (rounded : bool) (s : string) : flat_t :=
  match format_of_name name with
  | Some FSolomon => run_solomon_text rounded s
  | Some FLilim => run_lilim_text rounded s
  | Some FTsplib => run_tsplib_text rounded s
  | None => (4, [], [], [], [])
  end.
(* status, routes, unassigned ids *)
Definition run_init_chars (known : list Z) (nveh : Z) (cs : chars) : Z * list (list Z) * list Z :=
  if all_ascii cs then
    match read_init_full known (Z.to_nat nveh) cs with
    | Ok (rs, un) => (0, rs, un)
    | Err => (1, [], [])
    | Panic => (2, [], [])
    end
  else (3, [], []).
(* through the registry: Li & Lim has no initial-solution reader (`unimplemented!()` panics) *)
Definition run_cli_init (name : string) (known : list Z) (nveh : Z) (cs : chars) : Z * list (list Z) * list Z :=
  match format_of_name name with
  | Some f => match registry_init f with
              | InitText => run_init_chars known nveh cs
              | InitUnimplemented => (2, [], [])
              end
  | None => (4, [], [])
  end.
Definition codes (s : chars) : list Z := map code s.
Definition run_write_text (rs : list (list Z)) (m : Z) (s : Z) : list Z := codes (write_solution_text rs m (Z.to_nat s)).
(* status (0 written, 1 refused) and the text *)
Definition run_write_checked (unassigned : list Z) (rs : list (list Z)) (m : Z) (s : Z) : Z * list Z :=
  match write_solution_checked unassigned rs m (Z.to_nat s) with Ok t => (0, codes t) | _ => (1, []) end.
Definition run_import_known (names : list string) : list Z := map (fun n => if import_known n then 1 else 0) names.
(* the text layer alone: lines -> words (as character codes) *)
Definition run_words (s : string) : list (list (list Z)) := map (fun l => map codes (words l)) (lines (str s)).
(* one word under the three Rust parsers: (i32, usize, f64-round-as-i32), each as [1; value] or [0; 0];
   i32 / usize with their range checks *)
Definition run_parse (w : string) : list (list Z) :=
  let cs := str w in
  [ match parse_i32 (tok_int true cs) with Ok z => [1; z] | _ => [0; 0] end;
    match parse_usize (tok_int false cs) with Ok z => [1; z] | _ => [0; 0] end;
    match parse_int (lex_tsp_word cs) with Ok z => [1; z] | _ => [0; 0] end ].

(* ====================================================================================================
   Specification side: printers from abstract instances to characters, with oracle layouts.
   ==================================================================================================== *)
(* white space inside a line (everything char::is_whitespace accepts below 128, except LF) *)
Inductive wsc := WSp | WTab | WCr | WVt | WFf.
Definition wsc_char (w : wsc) : ascii :=
  match w with WSp => " " | WTab => "009" | WCr => "013" | WVt => "011" | WFf => "012" end%char.
Definition ws_str (l : list wsc) : chars := map wsc_char l.
Definition sep_str (s : wsc * list wsc) : chars := wsc_char (fst s) :: ws_str (snd s).
(* how one number is written: optional '+' on a non-negative number, any number of leading zeros *)
Record nsty := mkNsty { ns_plus : bool; ns_zeros : nat }.
Definition sty0 := mkNsty false 0.
Definition print_int (st : nsty) (z : Z) : chars :=
  (if z <? 0 then ["-"%char] else if ns_plus st then ["+"%char] else [])
  ++ repeat "0"%char (ns_zeros st) ++ dec_str (Z.abs z).
(* layout of one line: leading / trailing white space, separators (non-empty by construction), number styles *)
Record llay := mkLlay { ll_lead : list wsc; ll_seps : list (wsc * list wsc); ll_trail : list wsc; ll_stys : list nsty }.
Definition llay0 := mkLlay [] [] [] [].
(* every word followed by its separator; the last one by the trailing white space *)
Fixpoint joined (ws : list (chars * chars)) : chars :=
  match ws with [] => [] | (w, sep) :: r => w ++ sep ++ joined r end.
Fixpoint with_seps (seps : list (wsc * list wsc)) (trail : chars) (ws : list chars) : list (chars * chars) :=
  match ws with
  | [] => []
  | [w] => [(w, trail)]
  | w :: r => (w, sep_str (hd (WSp, []) seps)) :: with_seps (tl seps) trail r
  end.
Definition print_line (ll : llay) (ws : list chars) : chars :=
  ws_str (ll_lead ll) ++ match ws with [] => ws_str (ll_trail ll) | _ => joined (with_seps (ll_seps ll) (ws_str (ll_trail ll)) ws) end.
Fixpoint print_nums (stys : list nsty) (zs : list Z) : list chars :=
  match zs with [] => [] | z :: r => print_int (hd sty0 stys) z :: print_nums (tl stys) r end.
Definition num_line (ll : llay) (zs : list Z) : chars := print_line ll (print_nums (ll_stys ll) zs).
Fixpoint num_lines (lays : list llay) (rows : list (list Z)) : list chars :=
  match rows with [] => [] | zs :: r => num_line (hd llay0 lays) zs :: num_lines (tl lays) r end.
(* a header line: any characters except LF *)
Definition strip_lf (l : chars) : chars := filter (fun c => negb (is_lf c)) l.
(* the file: every line terminated by LF, the last one optionally not *)
Fixpoint unlines (final : bool) (ls : list chars) : chars :=
  match ls with
  | [] => []
  | [l] => if final then l ++ [LF] else l
  | l :: r => l ++ LF :: unlines final r
  end.

(* ---- Solomon ---- *)
Record sol_lay := mkSolLay { sl_h1 : list chars; sl_h2 : list chars; sl_veh : llay; sl_depot : llay;
                             sl_custs : list llay; sl_final : bool }.
Definition cust_nums (c : custline) : list Z := [c_id c; c_x c; c_y c; c_dem c; c_start c; c_end c; c_service c].
Definition print_solomon_text (lay : sol_lay) (I : sol_inst) : chars :=
  unlines (sl_final lay)
    (map strip_lf (sl_h1 lay) ++ num_line (sl_veh lay) [si_number I; si_capacity I]
     :: map strip_lf (sl_h2 lay) ++ num_line (sl_depot lay) (cust_nums (si_depot I))
     :: num_lines (sl_custs lay) (map cust_nums (si_custs I))).

(* ---- Li & Lim ---- *)
Record lil_lay := mkLilLay { ll_veh : llay; ll_depot : llay; ll_rows : list llay; ll_final : bool }.
Definition row_nums (row : lline * Z) : list Z :=
  let c := fst row in [l_id c; l_x c; l_y c; l_dem c; l_start c; l_end c; l_service c; snd row; l_rel c].
Definition depot_nums (d : node) : list Z := [n_id d; n_x d; n_y d; 0; n_start d; n_end d; n_service d; 0; 0].
Definition print_lilim_rows_text (lay : lil_lay) (I : lil_inst) (rows : list (lline * Z)) : chars :=
  unlines (ll_final lay)
    (num_line (ll_veh lay) [li_number I; li_capacity I; li_speed I]
     :: num_line (ll_depot lay) (depot_nums (li_depot I))
     :: num_lines (ll_rows lay) (map row_nums rows)).
Definition print_lilim_text (lay : lil_lay) (I : lil_inst) : chars := print_lilim_rows_text lay I (lilim_rows I).

(* ---- TSPLIB ---- *)
Record kv_lay := mkKvLay { kv_lead : list wsc; kv_a : list wsc; kv_b : list wsc; kv_trail : list wsc }.
Definition print_kv (l : kv_lay) (key value : chars) : chars :=
  ws_str (kv_lead l) ++ key ++ ws_str (kv_a l) ++ ":"%char :: ws_str (kv_b l) ++ value ++ ws_str (kv_trail l).
(* an integer with k zero decimals ("28.000"); k = 0: the integer itself *)
Definition print_dec (k : nat) (z : Z) : chars :=
  match k with O => canon_str z | S _ => canon_str z ++ "."%char :: repeat "0"%char k end.
Record tsp_lay := mkTspLay {
  tl_h : list chars; tl_type : kv_lay; tl_dim : kv_lay; tl_edge : kv_lay; tl_cap : kv_lay;
  tl_sec1 : llay; tl_coords : list llay; tl_sec2 : llay; tl_dems : list llay;
  tl_sec3 : llay; tl_depot : llay; tl_m1 : llay; tl_eof : llay; tl_final : bool }.
Fixpoint word_lines (lays : list llay) (rows : list (list chars)) : list chars :=
  match rows with [] => [] | ws :: r => print_line (hd llay0 lays) ws :: word_lines (tl lays) r end.
Definition print_tsplib_text (lay : tsp_lay) (k : nat) (I : tsp_inst) : chars :=
  unlines (tl_final lay)
    (map strip_lf (tl_h lay)
     ++ print_kv (tl_type lay) (str "TYPE") (str "CVRP")
     :: print_kv (tl_dim lay) (str "DIMENSION") (canon_str (Z.of_nat (List.length (ti_nodes I))))
     :: print_kv (tl_edge lay) (str "EDGE_WEIGHT_TYPE") (str "EUC_2D")
     :: print_kv (tl_cap lay) (str "CAPACITY") (print_dec k (ti_capacity I))
     :: print_line (tl_sec1 lay) [str "NODE_COORD_SECTION"]
     :: word_lines (tl_coords lay) (map (fun n => [canon_str (t_id n); print_dec k (t_x n); print_dec k (t_y n)]) (ti_nodes I))
     ++ print_line (tl_sec2 lay) [str "DEMAND_SECTION"]
     :: word_lines (tl_dems lay) (map (fun n => [canon_str (t_id n); canon_str (t_dem n)]) (ti_nodes I))
     ++ [print_line (tl_sec3 lay) [str "DEPOT_SECTION"]; print_line (tl_depot lay) [canon_str (ti_depot I)];
         print_line (tl_m1 lay) [str "-1"]; print_line (tl_eof lay) [str "EOF"]]).
