(* C18 — binary64 twins (Coq primitive floats, same operations in the same order) of the termination mathematics:
     rosomaxa/src/termination/max_generation.rs :: MaxGeneration::estimate  ((generation as Float / limit as Float).min(1.))  -> fest_max_generation
     rosomaxa/src/termination/max_time.rs       :: MaxTime::estimate        ((elapsed / limit).min(1.), elapsed = oracle)      -> fest_max_time
     rosomaxa/src/termination/mod.rs            :: CompositeTermination::estimate (max_by total_cmp, unwrap_or_default)        -> fest_composite
     rosomaxa/src/algorithms/math/statistics.rs :: get_mean_slice, get_variance_mean, get_variance, get_cv                    -> fmean, fvariance_mean, fget_cv
     rosomaxa/src/termination/min_variation.rs  :: check_threshold (`cv > threshold` per objective column)                    -> fcheck_threshold
     rosomaxa/src/termination/min_variation.rs  :: update_and_check / is_termination, Sample and Period interval types         -> fmv_*, via Termination2.mvp_*
     rosomaxa/src/algorithms/math/distance.rs   :: relative_distance                                                          -> frelative_distance
     rosomaxa/src/termination/target_proximity.rs :: TargetProximity::is_termination                                          -> ftp_is_termination
     rosomaxa/src/utils/noise.rs                :: Noise::generate                                                            -> fnoise_generate
   f64::min / f64::max ignore a NaN operand (fminr / fmaxr of Model/SelectorF.v).  `usize as Float` rounds to nearest (of_uint63).
   `iter().sum::<f64>()` starts from -0.0 (neutral element of the addition; std since 1.83): fsum.
   Entry points used by the correspondence: run_estimateF, run_statsF, run_minvarF, run_minvar_periodF, run_targetF, run_noiseF.
   No proofs in this file. *)
From Coq Require Import Floats Uint63.
From VRP Require Import Base.Tac Base.TotalCmp Model.SlotF Model.Selector Model.SelectorF Model.Termination Model.Termination2.
Local Open Scope Z_scope.

Local Open Scope float_scope.

Definition fest_max_generation (generation limit : Z) : float := fminr (f_of_Z generation / f_of_Z limit) 1.
Definition fest_max_time (elapsed limit : float) : float := fminr (elapsed / limit) 1.

(* Iterator::max_by keeps the LAST of several maxima: fold with `match compare(cur, x) { Greater => cur, _ => x }` *)
Definition ftotal_cmp (a b : float) : comparison := Z.compare (key (bits_of_f a)) (key (bits_of_f b)).
Definition fest_composite (es : list float) : float :=
  match es with
  | [] => 0
  | e :: rest => fold_left (fun cur x => match ftotal_cmp cur x with Gt => cur | _ => x end) rest e
  end.

(* ---------- statistics ---------- *)
Definition fsum (l : list float) : float := fold_left PrimFloat.add l (-0).

Definition fmean (l : list float) : float :=
  match l with [] => 0 | _ => fsum l / f_of_nat (length l) end.

Definition fvariance_mean (l : list float) : float * float :=
  match l with
  | [] => (0, 0)
  | _ =>
    let mean := fmean l in
    let '(first, second) := fold_left (fun acc v => let dev := v - mean in (fst acc + dev * dev, snd acc + dev)) l (0, 0) in
    let n := f_of_nat (length l) in
    ((first - (second * second / n)) / n, mean)
  end.

Definition fget_cv (l : list float) : float :=
  let '(variance, mean) := fvariance_mean l in
  if mean =? 0 then 0 else PrimFloat.sqrt variance / mean.

Definition fcol_cv_gt (vals : list float) (thr : float) : bool := thr <? fget_cv vals.

Close Scope float_scope.

Fixpoint fcolumn (k : nat) (rows : list (list float)) : list float :=
  match rows with
  | [] => []
  | r :: rest => match nth_error r k with Some x => x :: fcolumn k rest | None => fcolumn k rest end
  end.
Definition fwidth (rows : list (list float)) : nat := fold_left (fun w r => Nat.max w (length r)) rows 0%nat.

Definition fcheck_threshold (rows : list (list float)) (thr : float) : bool :=
  forallb (fun k => negb (fcol_cv_gt (fcolumn k rows) thr)) (seq 0 (fwidth rows)).

(* ---------- MinVariation, sample interval (as Termination.mv_*, over floats) ---------- *)
Definition fmv_update_and_check (sample : nat) (thr : float) (st : option (list (list float))) (generation : nat) (fitness : list float)
  : list (list float) * bool :=
  let values := match st with Some v => v | None => repeat (repeat 0%float (length fitness)) sample end in
  let values' := set_nth values (Nat.modulo generation sample) fitness in
  (values', if Nat.ltb generation (sample - 1) then false else fcheck_threshold values' thr).

Definition fmv_is_termination (sample : nat) (thr : float) (is_global : bool) (st : option (list (list float)))
           (generation : nat) (phase : nat) (best : option (list float)) : option (list (list float)) * bool :=
  match best with
  | None => (st, false)
  | Some fitness =>
      let (values, result) := fmv_update_and_check sample thr st generation fitness in
      (Some values, if is_global then result else if Nat.eqb phase 2 then result else false)
  end.

Fixpoint fmv_run (sample : nat) (thr : float) (is_global : bool) (st : option (list (list float)))
         (steps : list (nat * nat * option (list float))) : list bool :=
  match steps with
  | [] => []
  | (g, ph, best) :: rest =>
      let (st', r) := fmv_is_termination sample thr is_global st g ph best in
      r :: fmv_run sample thr is_global st' rest
  end.

(* ---------- relative_distance, TargetProximity ---------- *)
Local Open Scope float_scope.

Definition frel_change (a b : float) : float :=
  let divider := fmaxr (abs a) (abs b) in
  if divider =? 0 then 0 else abs (a - b) / divider.

Definition frelative_distance (a b : list float) : float :=
  PrimFloat.sqrt (fold_left (fun acc p => let change := frel_change (fst p) (snd p) in acc + change * change) (combine a b) 0).

Definition ftp_is_termination (target : list float) (threshold : float) (best : option (list float)) : bool :=
  match best with
  | None => false
  | Some fitness => frelative_distance target fitness <? threshold
  end.

(* ---------- Noise::generate ---------- *)
Definition fnoise_generate (is_addition hit : bool) (u value : float) : float :=
  if hit then
    (if value =? 0 then u else value * u + (if is_addition then value else 0))
  else value.

Close Scope float_scope.

(* ---------------- correspondence entry points (bit patterns in, primitive-integer codes out: SelectorF.fcode) ---------------- *)
Definition bcode (b : bool) : Uint63.int := if b then 1%uint63 else 0%uint63.

(* parts: (0, limit, _) = MaxGeneration limit; (1, lo, hi) = MaxTime with the limit `lo` (bits) and the elapsed seconds `hi` (bits);
   (2, _, _) = MinVariation / TargetProximity (estimate 0).  Returns the single estimates and the composite one. *)
Definition run_estimateF (generation : Z) (parts : list (Z * Z * Z)) : list Uint63.int * list Uint63.int :=
  let es := map (fun p => match p with (k, a, b) =>
                   if k =? 0 then fest_max_generation generation a
                   else if k =? 1 then fest_max_time (f_of_bits b) (f_of_bits a)
                   else 0%float end) parts in
  (fcodes es, fcode (fest_composite es)).

(* mean, variance, cv of a slice; relative_distance of the slice to a second one *)
Definition run_statsF (vals other : list Z) : list Uint63.int :=
  let l := map f_of_bits vals in
  fcodes [fmean l; fst (fvariance_mean l); fget_cv l; frelative_distance l (map f_of_bits other)].

(* steps: (generation, phase, [] | [fitness bits]) *)
Definition run_minvarF (sample : nat) (thr : Z) (is_global : bool) (steps : list (nat * nat * list (list Z))) : list Uint63.int :=
  map bcode (fmv_run sample (f_of_bits thr) is_global None
              (map (fun s => match s with (g, ph, b) => (g, ph, match b with [] => None | f :: _ => Some (map f_of_bits f) end) end) steps)).

(* steps: (elapsed ms, perm, phase, [] | [fitness bits]); per step: the decision, the length of the state after the step, its last
   time stamp (0 when empty), the sum of its time stamps, and - when the state is short (<= 200) or shrank - all its time stamps *)
Fixpoint period_codes (prev : nat) (rs : list (bool * list (Z * list float))) : list (list Uint63.int) :=
  match rs with
  | [] => []
  | (fired, st) :: rest =>
      let len := length st in
      let times := map fst st in
      let head := [bcode fired; icode (Z.of_nat len); icode (last times 0); icode (fold_left Z.add times 0)] in
      (if Nat.leb len 200 || Nat.ltb len (S prev) then head ++ map icode times else head) :: period_codes len rest
  end.

Definition run_minvar_periodF (period_secs : Z) (thr : Z) (is_global : bool)
           (steps : list (Z * list nat * nat * list (list Z))) : list (list Uint63.int) :=
  period_codes 0
      (mvp_run (fun rows => fcheck_threshold rows (f_of_bits thr)) (period_ms period_secs) is_global []
               (map (fun s => match s with (el, pm, ph, b) => (el, pm, ph, match b with [] => None | f :: _ => Some (map f_of_bits f) end) end) steps)).

Definition run_targetF (target : list Z) (thr : Z) (best : list (list Z)) : list Uint63.int :=
  let b := match best with [] => None | f :: _ => Some (map f_of_bits f) end in
  bcode (ftp_is_termination (map f_of_bits target) (f_of_bits thr) b)
  :: fcode (match b with Some f => frelative_distance (map f_of_bits target) f | None => 0%float end).

(* draws: (is_addition, hit, u bits, value bits) *)
(* per draw: generate(value), and the element generate_multi yields for it: value + generate(value) *)
Definition run_noiseF (draws : list (bool * bool * Z * Z)) : list Uint63.int :=
  fcodes (flat_map (fun d => match d with (add, hit, u, v) =>
                      let g := fnoise_generate add hit (f_of_bits u) (f_of_bits v) in [g; PrimFloat.add (f_of_bits v) g] end) draws).
