(* C13 — executable model of the scientific-format readers (no proofs in this file).

   Rust items modelled (vrp-scientific/src):
     solomon/reader.rs   :: read_fleet, read_jobs, read_vehicle, read_customer          -> read_solomon_defs
     lilim/reader.rs     :: read_fleet, read_jobs, create_single_job, read_vehicle,
                            read_customer                                               -> read_lilim_defs
     tsplib/reader.rs    :: read_definitions, read_meta, read_customer_data,
                            read_depot_data, read_key_value, read_expected_line,
                            create_job, parse_int                                       -> read_tsplib_defs
     common/text_reader.rs :: read_line / skip_lines (end of input = empty buffer),
                            create_fleet_with_distance_costs (number, capacity, depot, shift)
     common/routing.rs   :: CoordIndex::collect -> collect ; CoordIndex::create_transport -> matrix
     common/text_writer.rs :: write_text_solution -> write_solution
     common/initial_reader.rs :: read_init_solution -> read_init
     common/mod.rs       :: try_collect_tuple over a lazily parsing iterator -> take_parse

   Input: already tokenised lines.  The (trusted, mirrored in tools/props/c13.py) tokeniser splits a line at
   white space, isolates every ':' as TColon, maps canonical decimal integers (optional minus sign, no leading
   zeros, no minus zero) to TInt, [-]digits.digits to TDec mantissa fraction-digit-count, everything else to TWord.
   Result classes: Ok / Err (GenericError returned) / Panic (unwrap on a failed integer parse, missing
   relation, missing actor ...).

   Deliberate abstractions (documented in notes/C13.md): allocation of a HashMap for a negative DIMENSION
   (modelled as Panic; a huge positive one is outside the generated domain), HashMap iteration order in the TSPLIB reader
   (oracle argument `ord`), Jobs::new / goal construction (identity on the observed fields).

   run_* entry points used by the correspondence: run_solomon, run_lilim, run_tsplib, run_init, run_write. *)
From VRP Require Import Base.Tac.
From Coq Require Import String.
#[global] Open Scope Z_scope.

Inductive token := TInt (z : Z) | TDec (m : Z) (k : nat) | TColon | TWord (w : string).
Definition line := list token.

Inductive res (A : Type) := Ok (a : A) | Err | Panic.
Arguments Ok {A} a. Arguments Err {A}. Arguments Panic {A}.
Definition bind {A B} (r : res A) (f : A -> res B) : res B :=
  match r with Ok a => f a | Err => Err | Panic => Panic end.

(* ---------- machine integers ---------- *)
Definition i32_min : Z := -2147483648.
Definition i32_max : Z := 2147483647.
Definition two32 : Z := 4294967296.
Definition two31 : Z := 2147483648.
Definition two64 : Z := 18446744073709551616.
Definition in_i32 (z : Z) : bool := (i32_min <=? z) && (z <=? i32_max).
Definition in_usize (z : Z) : bool := (0 <=? z) && (z <? two64).
(* str::parse::<i32>().unwrap() / str::parse::<usize>().unwrap() *)
Definition parse_i32 (t : token) : res Z := match t with TInt z => if in_i32 z then Ok z else Panic | _ => Panic end.
Definition parse_usize (t : token) : res Z := match t with TInt z => if in_usize z then Ok z else Panic | _ => Panic end.
(* `i32 as usize` (sign extension) and `usize as i32` (truncation) *)
Definition as_usize (z : Z) : Z := z mod two64.
Definition as_i32 (z : Z) : Z := (z + two31) mod two32 - two31.
(* `f64 as i32` saturates *)
Definition clamp_i32 (z : Z) : Z := Z.max i32_min (Z.min i32_max z).
(* f64::round of the decimal m / 10^k : half away from zero *)
Definition round_half_away (m : Z) (k : nat) : Z :=
  let d := 10 ^ Z.of_nat k in Z.sgn m * ((2 * Z.abs m + d) / (2 * d)).
(* what Rust computes for a decimal text: str::parse::<f64>() (correctly rounded binary64, round to nearest even)
   followed by f64::round (half away from zero).  q = n / d >= 0.  Below 1/4 every double rounds to 0; from 2^33 on the
   result saturates in `as i32` whatever the double is; in between the double of q in the binade 2^e <= q < 2^(e+1)
   (j = e + 2, s = 52 - e) is M / 2^s with M the nearest-even integer of q * 2^s, computed exactly. *)
Definition rne_div (n d : Z) : Z :=
  let a := n / d in let b := n mod d in
  if 2 * b <? d then a else if d <? 2 * b then a + 1 else if Z.even a then a else a + 1.
Fixpoint binade (fuel : nat) (j : Z) (n4 d : Z) : option Z :=
  match fuel with
  | O => None
  | S f => if n4 <? 2 ^ (j + 1) * d then Some j else binade f (j + 1) n4 d
  end.
Definition f64_round_abs (n d : Z) : Z :=
  if 4 * n <? d then 0 else
  match binade 35 0 (4 * n) d with
  | None => 2 ^ 33
  | Some j => let s := 54 - j in
              let M := rne_div (n * 2 ^ s) d in
              (2 * M + 2 ^ s) / 2 ^ (s + 1)
  end.
Definition f64_round (m : Z) (k : nat) : Z := Z.sgn m * f64_round_abs (Z.abs m) (10 ^ Z.of_nat k).
(* tsplib/reader.rs :: parse_int  (str -> f64 -> round -> as i32); `round_half_away` above is the exact-rational
   rounding the text suggests, `f64_round` what the code computes (they differ only within 2^-21 of a tie) *)
Definition parse_int (t : token) : res Z :=
  match t with
  | TInt z => Ok (clamp_i32 z)
  | TDec m k => Ok (clamp_i32 (f64_round m k))
  | _ => Err
  end.

(* common/mod.rs :: try_collect_tuple on `split_whitespace().map(|s| s.parse().unwrap())`:
   tokens are parsed lazily left to right; a bad token panics, running out of tokens gives None (-> Err);
   tokens after the n-th are never looked at *)
Fixpoint take_parse (n : nat) (p : token -> res Z) (l : line) : res (list Z) :=
  match n with
  | O => Ok []
  | S n' => match l with
            | [] => Err
            | t :: r => bind (p t) (fun z => bind (take_parse n' p r) (fun zs => Ok (z :: zs)))
            end
  end.

(* read_line at end of input leaves an empty buffer: no tokens *)
Definition next_line (ls : list line) : line * list line :=
  match ls with [] => ([], []) | l :: r => (l, r) end.

(* ---------- CoordIndex ---------- *)
Definition coord := (Z * Z)%type.
Definition coord_eqb (a b : coord) : bool := (fst a =? fst b) && (snd a =? snd b).
Fixpoint index_of (c : coord) (l : list coord) : option nat :=
  match l with
  | [] => None
  | h :: t => if coord_eqb h c then Some O else option_map S (index_of c t)
  end.
(* CoordIndex::collect : returns the new index state and the location *)
Definition collect (ci : list coord) (c : coord) : list coord * Z :=
  match index_of c ci with
  | Some i => (ci, Z.of_nat i)
  | None => (ci ++ [c], Z.of_nat (List.length ci))
  end.

(* CoordIndex::create_transport: squared Euclidean distance (exact); when rounded, round(sqrt s) *)
Definition sqdist (a b : coord) : Z := (fst a - fst b) * (fst a - fst b) + (snd a - snd b) * (snd a - snd b).
Definition isqrt_round (s : Z) : Z := (Z.sqrt (4 * s) + 1) / 2.
Definition dist (rounded : bool) (a b : coord) : Z := if rounded then isqrt_round (sqdist a b) else sqdist a b.
Definition matrix (rounded : bool) (cs : list coord) : list (list Z) :=
  map (fun a => map (fun b => dist rounded a b) cs) cs.

(* ---------- the observed part of the core Problem ---------- *)
Definition demand := (Z * Z * Z * Z)%type.   (* pickup.0 pickup.1 delivery.0 delivery.1 *)
Record single := mkSingle { s_id : option Z; s_dem : option demand; s_loc : Z; s_dur : Z; s_tws : Z; s_twe : option Z }.
Inductive job := JSingle (s : single) | JMulti (id : Z) (subs : list single).
(* create_fleet_with_distance_costs: number of vehicles, capacity, depot location, shift start, shift end (None = f64::MAX) *)
Record fleet := mkFleet { f_number : Z; f_cap : Z; f_loc : Z; f_start : Z; f_end : option Z }.
Record problem := mkProblem { p_jobs : list job; p_fleet : fleet; p_coords : list coord }.

(* ---------- Solomon ---------- *)
Record custline := mkCust { c_id : Z; c_x : Z; c_y : Z; c_dem : Z; c_start : Z; c_end : Z; c_service : Z }.
(* read_customer: seven i32, then id / demand / service `as usize` *)
Definition read_customer7 (l : line) : res custline :=
  bind (take_parse 7 parse_i32 l) (fun zs =>
    match zs with
    | [a; b; c; d; e; f; g] => Ok (mkCust (as_usize a) b c (as_usize d) e f (as_usize g))
    | _ => Err
    end).
Definition read_vehicle2 (l : line) : res (Z * Z) :=
  bind (take_parse 2 parse_usize l) (fun zs => match zs with [n; c] => Ok (n, c) | _ => Err end).
Definition sol_job (c : custline) (loc : Z) : job :=
  JSingle (mkSingle (Some (c_id c)) (Some (0, 0, as_i32 (c_dem c), 0)) loc (c_service c) (c_start c) (Some (c_end c))).
(* read_jobs: until end of input; a line that is not a customer line (blank line included) is an error *)
Fixpoint sol_read_jobs (ci : list coord) (ls : list line) : res (list job * list coord) :=
  match ls with
  | [] => Ok ([], ci)
  | l :: r =>
      bind (read_customer7 l) (fun c =>
        let '(ci', loc) := collect ci (c_x c, c_y c) in
        bind (sol_read_jobs ci' r) (fun '(js, cf) => Ok (sol_job c loc :: js, cf)))
  end.
Definition read_solomon_defs (ls : list line) : res problem :=
  let '(vl, ls2) := next_line (skipn 4 ls) in
  bind (read_vehicle2 vl) (fun '(num, cap) =>
    let '(dl, ls4) := next_line (skipn 4 ls2) in
    bind (read_customer7 dl) (fun d =>
      if num =? 0 then Panic (* Fleet::new: assert!(!vehicles.is_empty()) *) else
      let '(ci, dloc) := collect [] (c_x d, c_y d) in
      bind (sol_read_jobs ci ls4) (fun '(js, cf) =>
        Ok (mkProblem js (mkFleet num (as_i32 cap) dloc (c_start d) (Some (c_end d))) cf)))).

(* ---------- Li & Lim ---------- *)
Record lline := mkLline { l_id : Z; l_x : Z; l_y : Z; l_dem : Z; l_start : Z; l_end : Z; l_service : Z; l_rel : Z }.
Definition read_customer9 (l : line) : res lline :=
  bind (take_parse 9 parse_i32 l) (fun zs =>
    match zs with
    | [a; b; c; d; e; f; g; _; i] => Ok (mkLline (as_usize a) b c d e f (as_usize g) (as_usize i))
    | _ => Err
    end).
Definition read_vehicle3 (l : line) : res (Z * Z) :=
  bind (take_parse 3 parse_usize l) (fun zs => match zs with [n; c; _] => Ok (n, c) | _ => Err end).
Fixpoint lilim_read_lines (ls : list line) : res (list lline) :=
  match ls with
  | [] => Ok []
  | l :: r => bind (read_customer9 l) (fun c => bind (lilim_read_lines r) (fun cs => Ok (c :: cs)))
  end.
(* HashMap insert / get: the last inserted value of a key wins *)
Fixpoint alookup {A} (k : Z) (l : list (Z * A)) : option A :=
  match l with
  | [] => None
  | (k', v) :: t => match alookup k t with
                    | Some v' => Some v'
                    | None => if k' =? k then Some v else None
                    end
  end.
Definition lilim_map (cs : list lline) : list (Z * lline) := map (fun c => (l_id c, c)) cs.
Definition lilim_relations (cs : list lline) : list (Z * Z) :=
  map (fun c => (l_id c, l_rel c)) (filter (fun c => 0 <? l_dem c) cs).
(* create_single_job: dimens = id "c<id>" and the demand: positive file value = dynamic pickup,
   otherwise dynamic delivery of the absolute value; `i32::MIN.abs()` overflows: panic in a build with overflow checks
   (the harness profile; a release build leaves i32::MIN) *)
Definition lilim_dimens (c : lline) : option Z * option demand :=
  (Some (l_id c), Some (if 0 <? l_dem c then (0, l_dem c, 0, 0) else (0, 0, 0, Z.abs (l_dem c)))).
Definition lilim_single (ci : list coord) (c : lline) : res (list coord * single) :=
  if l_dem c =? i32_min then Panic else
  let dimens := lilim_dimens c in
  let '(ci', loc) := collect ci (l_x c, l_y c) in
  Ok (ci', mkSingle (fst dimens) (snd dimens) loc (l_service c) (l_start c) (Some (l_end c))).
Fixpoint lilim_build (ci : list coord) (idx : Z) (rels : list (Z * Z)) (m : list (Z * lline)) : res (list job * list coord) :=
  match rels with
  | [] => Ok ([], ci)
  | (p, d) :: r =>
      match alookup p m, alookup d m with
      | Some pc, Some dc =>
          bind (lilim_single ci pc) (fun '(ci1, sp) =>
          bind (lilim_single ci1 dc) (fun '(ci2, sd) =>
          bind (lilim_build ci2 (idx + 1) r m) (fun '(js, cf) => Ok (JMulti idx [sp; sd] :: js, cf))))
      | _, _ => Panic
      end
  end.
Definition read_lilim_defs (ls : list line) : res problem :=
  let '(vl, ls1) := next_line ls in
  bind (read_vehicle3 vl) (fun '(num, cap) =>
    let '(dl, ls2) := next_line ls1 in
    bind (read_customer9 dl) (fun d =>
      if num =? 0 then Panic (* Fleet::new: assert!(!vehicles.is_empty()) *) else
      let '(ci, dloc) := collect [] (l_x d, l_y d) in
      bind (lilim_read_lines ls2) (fun cs =>
        bind (lilim_build ci 0 (lilim_relations cs) (lilim_map cs)) (fun '(js, cf) =>
          Ok (mkProblem js (mkFleet num (as_i32 cap) dloc (l_start d) (Some (l_end d))) cf))))).

(* ---------- TSPLIB (CVRP, EUC_2D) ---------- *)
Fixpoint count_colons (l : line) : nat :=
  match l with [] => O | TColon :: r => S (count_colons r) | _ :: r => count_colons r end.
Fixpoint split_colon (l : line) : line * line :=
  match l with
  | [] => ([], [])
  | TColon :: r => ([], r)
  | t :: r => let '(a, b) := split_colon r in (t :: a, b)
  end.
(* read_key_value: exactly one ':'; trimmed key must equal the expected key; returns the trimmed value *)
Definition read_key_value (key : string) (l : line) : res line :=
  if Nat.eqb (count_colons l) 1 then
    let '(k, v) := split_colon l in
    match k with
    | [TWord w] => if String.eqb w key then Ok v else Err
    | _ => Err
    end
  else Err.
Definition expect_word (w : string) (v : line) : res unit :=
  match v with [TWord w'] => if String.eqb w' w then Ok tt else Err | _ => Err end.
Definition parse_int_line (v : line) : res Z := match v with [t] => parse_int t | _ => Err end.
Definition coord_line (l : line) : res (Z * coord) :=
  match l with
  | [a; b; c] => bind (parse_int b) (fun x => bind (parse_int c) (fun y => bind (parse_int a) (fun id => Ok (id, (x, y)))))
  | _ => Err
  end.
Definition demand_line (l : line) : res (Z * Z) :=
  match l with
  | [a; b] => bind (parse_int a) (fun id => bind (parse_int b) (fun d => Ok (id, d)))
  | _ => Err
  end.
Fixpoint read_n {A} (n : nat) (f : line -> res A) (ls : list line) : res (list A * list line) :=
  match n with
  | O => Ok ([], ls)
  | S n' => let '(l, r) := next_line ls in
            bind (f l) (fun a => bind (read_n n' f r) (fun '(xs, rest) => Ok (a :: xs, rest)))
  end.
Definition tsp_job (id demand loc : Z) : job :=
  JSingle (mkSingle (Some (id - 1)) (Some (0, 0, demand, 0)) loc 0 0 None).
(* iteration over the coordinates HashMap in the order `ord` (oracle) *)
Fixpoint tsp_jobs (ci : list coord) (depot : Z) (ord : list Z) (cm : list (Z * coord)) (dm : list (Z * Z))
  : res (list job * list coord) :=
  match ord with
  | [] => Ok ([], ci)
  | id :: r =>
      if id =? depot then tsp_jobs ci depot r cm dm else
      match alookup id cm with
      | None => tsp_jobs ci depot r cm dm
      | Some xy =>
          match alookup id dm with
          | None => Err
          | Some d =>
              (* `*id - 1` on i32: overflow panics in a build with overflow checks (the harness profile; a release
                 build wraps to 2147483647) *)
              if id =? i32_min then Panic else
              let '(ci', loc) := collect ci xy in
              bind (tsp_jobs ci' depot r cm dm) (fun '(js, cf) => Ok (tsp_job id d loc :: js, cf))
          end
      end
  end.
Definition read_tsplib_defs (ord : list Z) (ls : list line) : res problem :=
  let ls := skipn 2 ls in
  let '(l, ls) := next_line ls in
  bind (read_key_value "TYPE" l) (fun v => bind (expect_word "CVRP" v) (fun _ =>
  let '(l, ls) := next_line ls in
  bind (read_key_value "DIMENSION" l) (fun v => bind (parse_int_line v) (fun dim =>
  let '(l, ls) := next_line ls in
  bind (read_key_value "EDGE_WEIGHT_TYPE" l) (fun v => bind (expect_word "EUC_2D" v) (fun _ =>
  let '(l, ls) := next_line ls in
  bind (read_key_value "CAPACITY" l) (fun v => bind (parse_int_line v) (fun cap =>
  let '(l, ls) := next_line ls in
  bind (expect_word "NODE_COORD_SECTION" l) (fun _ =>
  if dim <? 0 then Panic else
  bind (read_n (Z.to_nat dim) coord_line ls) (fun '(cm, ls) =>
  let '(l, ls) := next_line ls in
  bind (expect_word "DEMAND_SECTION" l) (fun _ =>
  bind (read_n (Z.to_nat dim) demand_line ls) (fun '(dm, ls) =>
  let '(l, ls) := next_line ls in
  bind (expect_word "DEPOT_SECTION" l) (fun _ =>
  let '(l, ls) := next_line ls in
  bind (parse_int_line l) (fun depot =>
  let '(l, ls) := next_line ls in
  match l with
  | [TInt (-1)] =>
      let '(l, ls) := next_line ls in
      bind (expect_word "EOF" l) (fun _ =>
      bind (tsp_jobs [] depot ord cm dm) (fun '(js, ci) =>
      match alookup depot cm with
      | None => Err
      | Some dxy => let '(cf, dloc) := collect ci dxy in
                    Ok (mkProblem js (mkFleet dim (as_i32 (as_usize cap)) dloc 0 None) cf)
      end))
  | _ => Err
  end)))))))))))))).
(* keys of the coordinate map in file order (default iteration order used by the correspondence, which
   compares canonically by job id) *)
Fixpoint nodupZ (seen : list Z) (l : list Z) : list Z :=
  match l with
  | [] => []
  | z :: r => if existsb (Z.eqb z) seen then nodupZ seen r else z :: nodupZ (z :: seen) r
  end.
Definition tsp_file_order (ls : list line) : list Z :=
  nodupZ [] (map clamp_i32 (flat_map (fun l => match l with [TInt z; _; _] => [z] | [TDec m k; _; _] => [f64_round m k] | _ => [] end) ls)).

(* ---------- initial solution text ---------- *)
Fixpoint number_from {A} (i : Z) (l : list A) : list (Z * A) :=
  match l with [] => [] | a :: r => (i, a) :: number_from (i + 1) r end.
(* write_text_solution: "Route i: ids" per route, then "Cost c.cc" *)
Definition write_solution (rs : list (list Z)) (cost : Z) : list line :=
  map (fun '(i, r) => TWord "Route" :: TInt i :: TColon :: map TInt r) (number_from 1 rs)
  ++ [[TWord "Cost"; TDec (cost * 100) 2]].
Definition known_id (known : list Z) (z : Z) : bool := existsb (Z.eqb z) known.
Fixpoint route_ids (known : list Z) (l : line) : res (list Z) :=
  match l with
  | [] => Ok []
  | TInt z :: r => if known_id known z then bind (route_ids known r) (fun zs => Ok (z :: zs)) else Panic
  | _ => Panic
  end.
(* read_init_solution: lines without exactly one ':' are skipped; every route takes the next free actor *)
Fixpoint read_init (known : list Z) (avail : nat) (ls : list line) : res (list (list Z)) :=
  match ls with
  | [] => Ok []
  | l :: r =>
      if Nat.eqb (count_colons l) 1 then
        match avail with
        | O => Panic
        | S a => bind (route_ids known (snd (split_colon l))) (fun ids =>
                   bind (read_init known a r) (fun rs => Ok (ids :: rs)))
        end
      else read_init known avail r
  end.

(* ---------- flat views for the correspondence ---------- *)
Definition oz (o : option Z) : list Z := match o with Some z => [1; z] | None => [0; 0] end.
Definition flat_single (s : single) : list Z :=
  oz (s_id s) ++ match s_dem s with Some (a, b, c, d) => [1; a; b; c; d] | None => [0; 0; 0; 0; 0] end
  ++ [s_loc s; s_dur s; s_tws s] ++ oz (s_twe s).
Definition flat_job (j : job) : list (list Z) :=
  match j with JSingle s => [[0; 0]; flat_single s] | JMulti id subs => [1; id] :: map flat_single subs end.
Definition flat_t := (Z * list (list (list Z)) * list Z * list coord * list (list Z))%type.
Definition flat_problem (rounded : bool) (r : res problem) : flat_t :=
  match r with
  | Ok p => let f := p_fleet p in
            (0, map flat_job (p_jobs p), [f_number f; f_cap f; f_loc f; f_start f] ++ oz (f_end f),
             p_coords p, matrix rounded (p_coords p))
  | Err => (1, [], [], [], [])
  | Panic => (2, [], [], [], [])
  end.
Definition run_solomon (rounded : bool) (ls : list line) : flat_t := flat_problem rounded (read_solomon_defs ls).
Definition run_lilim (rounded : bool) (ls : list line) : flat_t := flat_problem rounded (read_lilim_defs ls).
Definition run_tsplib (rounded : bool) (ls : list line) : flat_t :=
  flat_problem rounded (read_tsplib_defs (tsp_file_order ls) ls).
Definition run_init (known : list Z) (nveh : Z) (ls : list line) : Z * list (list Z) :=
  match read_init known (Z.to_nat nveh) ls with Ok rs => (0, rs) | Err => (1, []) | Panic => (2, []) end.
(* the written text as tokens: (kind, value, aux) with 0 = int, 1 = decimal(m,k), 2 = colon, 3 = "Route", 4 = "Cost" *)
Definition flat_token (t : token) : list Z :=
  match t with
  | TInt z => [0; z; 0]
  | TDec m k => [1; m; Z.of_nat k]
  | TColon => [2; 0; 0]
  | TWord w => [if String.eqb w "Route" then 3 else if String.eqb w "Cost" then 4 else 5; 0; 0]
  end.
Definition run_write (rs : list (list Z)) (cost : Z) : list (list (list Z)) :=
  map (map flat_token) (write_solution rs cost).

(* ====================================================================================================
   Abstract instances, their printers in the three grammars, and the problem the property expects
   (specification side; used by Properties/C13.v).
   ==================================================================================================== *)
Definition i32 (z : Z) : Prop := i32_min <= z <= i32_max.
Definition nat32 (z : Z) : Prop := 0 <= z <= i32_max.

(* coordinate index of a sequence of coordinates: first occurrences, in order; location = position in it *)
Definition add_coord (ci : list coord) (c : coord) : list coord :=
  match index_of c ci with Some _ => ci | None => ci ++ [c] end.
Definition all_coords (cs : list coord) : list coord := fold_left add_coord cs [].
Definition loc_of (final : list coord) (c : coord) : Z :=
  match index_of c final with Some i => Z.of_nat i | None => -1 end.

(* ---- Solomon: header (4 lines), "number capacity", header (4 lines), depot line, customer lines ---- *)
Record sol_inst := mkSol { si_number : Z; si_capacity : Z; si_depot : custline; si_custs : list custline }.
Definition cust_wf (c : custline) : Prop :=
  nat32 (c_id c) /\ i32 (c_x c) /\ i32 (c_y c) /\ nat32 (c_dem c) /\ i32 (c_start c) /\ i32 (c_end c) /\ nat32 (c_service c).
Definition sol_wf (I : sol_inst) : Prop :=
  1 <= si_number I < two64 /\ nat32 (si_capacity I) /\ cust_wf (si_depot I) /\ Forall cust_wf (si_custs I).
Definition cust_line (c : custline) : line :=
  map TInt [c_id c; c_x c; c_y c; c_dem c; c_start c; c_end c; c_service c].
Definition print_solomon (h1 h2 : list line) (I : sol_inst) : list line :=
  h1 ++ [TInt (si_number I); TInt (si_capacity I)] :: h2 ++ cust_line (si_depot I) :: map cust_line (si_custs I).
Definition cxy (c : custline) : coord := (c_x c, c_y c).
Definition expected_solomon (I : sol_inst) : problem :=
  let final := all_coords (cxy (si_depot I) :: map cxy (si_custs I)) in
  mkProblem
    (map (fun c => JSingle (mkSingle (Some (c_id c)) (Some (0, 0, c_dem c, 0)) (loc_of final (cxy c))
                                     (c_service c) (c_start c) (Some (c_end c)))) (si_custs I))
    (mkFleet (si_number I) (si_capacity I) (loc_of final (cxy (si_depot I))) (c_start (si_depot I)) (Some (c_end (si_depot I))))
    final.

(* ---- Li & Lim: "number capacity speed", depot line, one line per node (9 columns) ---- *)
Record node := mkNode { n_id : Z; n_x : Z; n_y : Z; n_start : Z; n_end : Z; n_service : Z }.
Record request := mkReq { rq_p : node; rq_d : node; rq_q : Z }.
Record lil_inst := mkLil { li_number : Z; li_capacity : Z; li_speed : Z; li_depot : node; li_reqs : list request }.
Definition node_wf (n : node) : Prop :=
  nat32 (n_id n) /\ i32 (n_x n) /\ i32 (n_y n) /\ i32 (n_start n) /\ i32 (n_end n) /\ nat32 (n_service n).
Definition req_ids (r : request) : list Z := [n_id (rq_p r); n_id (rq_d r)].
Definition lil_wf (I : lil_inst) : Prop :=
  1 <= li_number I < two64 /\ nat32 (li_capacity I) /\ 0 <= li_speed I < two64 /\ node_wf (li_depot I) /\
  Forall (fun r => node_wf (rq_p r) /\ node_wf (rq_d r) /\ 0 < rq_q r <= i32_max) (li_reqs I) /\
  NoDup (flat_map req_ids (li_reqs I)).
(* the file line of a pickup / delivery node as the reader sees it (8th column is ignored by the reader) *)
Definition pickup_line (r : request) : lline :=
  let n := rq_p r in mkLline (n_id n) (n_x n) (n_y n) (rq_q r) (n_start n) (n_end n) (n_service n) (n_id (rq_d r)).
Definition delivery_line (r : request) : lline :=
  let n := rq_d r in mkLline (n_id n) (n_x n) (n_y n) (- rq_q r) (n_start n) (n_end n) (n_service n) 0.
Definition lline_wf (c : lline) : Prop :=
  nat32 (l_id c) /\ i32 (l_x c) /\ i32 (l_y c) /\ i32 (l_dem c) /\ i32 (l_start c) /\ i32 (l_end c) /\
  nat32 (l_service c) /\ nat32 (l_rel c).
Definition print_lline (row : lline * Z) : line :=
  let c := fst row in
  map TInt [l_id c; l_x c; l_y c; l_dem c; l_start c; l_end c; l_service c; snd row; l_rel c].
Definition lilim_head (I : lil_inst) : list line :=
  let d := li_depot I in
  [ map TInt [li_number I; li_capacity I; li_speed I];
    map TInt [n_id d; n_x d; n_y d; 0; n_start d; n_end d; n_service d; 0; 0] ].
(* any arrangement `rows` of node lines *)
Definition print_lilim_rows (I : lil_inst) (rows : list (lline * Z)) : list line :=
  lilim_head I ++ map print_lline rows.
(* the canonical arrangement: pickup line followed by its delivery line *)
Definition lilim_rows (I : lil_inst) : list (lline * Z) :=
  flat_map (fun r => [(pickup_line r, 0); (delivery_line r, n_id (rq_p r))]) (li_reqs I).
Definition print_lilim (I : lil_inst) : list line := print_lilim_rows I (lilim_rows I).
Definition nxy (n : node) : coord := (n_x n, n_y n).
Definition lil_single (final : list coord) (n : node) (d : demand) : single :=
  mkSingle (Some (n_id n)) (Some d) (loc_of final (nxy n)) (n_service n) (n_start n) (Some (n_end n)).
Definition expected_lilim (I : lil_inst) : problem :=
  let d := li_depot I in
  let final := all_coords (nxy d :: flat_map (fun r => [nxy (rq_p r); nxy (rq_d r)]) (li_reqs I)) in
  mkProblem
    (map (fun kr => JMulti (fst kr) [lil_single final (rq_p (snd kr)) (0, rq_q (snd kr), 0, 0);
                                     lil_single final (rq_d (snd kr)) (0, 0, 0, rq_q (snd kr))])
         (number_from 0 (li_reqs I)))
    (mkFleet (li_number I) (li_capacity I) (loc_of final (nxy d)) (n_start d) (Some (n_end d)))
    final.
(* ---- TSPLIB CVRP / EUC_2D ---- *)
Record tnode := mkTnode { t_id : Z; t_x : Z; t_y : Z; t_dem : Z }.
Record tsp_inst := mkTsp { ti_nodes : list tnode; ti_depot : Z; ti_capacity : Z }.
(* node ids above i32::MIN: the reader computes `id - 1` on i32 *)
Definition tnode_wf (n : tnode) : Prop := (i32 (t_id n) /\ i32_min < t_id n) /\ i32 (t_x n) /\ i32 (t_y n) /\ i32 (t_dem n).
Definition tsp_wf (I : tsp_inst) : Prop :=
  Forall tnode_wf (ti_nodes I) /\ NoDup (map t_id (ti_nodes I)) /\ In (ti_depot I) (map t_id (ti_nodes I)) /\
  nat32 (ti_capacity I) /\ Z.of_nat (List.length (ti_nodes I)) <= i32_max.
(* an integer printed with k zero decimals ("28.000") *)
Definition num_tok (k : nat) (z : Z) : token :=
  match k with O => TInt z | S _ => TDec (z * 10 ^ Z.of_nat k) k end.
Definition kv (key : string) (v : token) : line := [TWord key; TColon; v].
Definition print_tsplib (h : list line) (k : nat) (I : tsp_inst) : list line :=
  h ++ kv "TYPE" (TWord "CVRP") :: kv "DIMENSION" (TInt (Z.of_nat (List.length (ti_nodes I))))
    :: kv "EDGE_WEIGHT_TYPE" (TWord "EUC_2D") :: kv "CAPACITY" (num_tok k (ti_capacity I))
    :: [TWord "NODE_COORD_SECTION"]
    :: (map (fun n => [TInt (t_id n); num_tok k (t_x n); num_tok k (t_y n)]) (ti_nodes I)
        ++ [TWord "DEMAND_SECTION"]
        :: (map (fun n => [TInt (t_id n); TInt (t_dem n)]) (ti_nodes I)
            ++ [[TWord "DEPOT_SECTION"]; [TInt (ti_depot I)]; [TInt (-1)]; [TWord "EOF"]])).
Definition txy (n : tnode) : coord := (t_x n, t_y n).
Definition depot_xy (I : tsp_inst) : coord :=
  match find (fun n => t_id n =? ti_depot I) (ti_nodes I) with Some n => txy n | None => (0, 0) end.
(* pn: the nodes in the order in which the reader's HashMap happens to iterate *)
Definition expected_tsplib (pn : list tnode) (I : tsp_inst) : problem :=
  let custs := filter (fun n => negb (t_id n =? ti_depot I)) pn in
  let final := all_coords (map txy custs ++ [depot_xy I]) in
  mkProblem
    (map (fun n => JSingle (mkSingle (Some (t_id n - 1)) (Some (0, 0, t_dem n, 0)) (loc_of final (txy n)) 0 0 None)) custs)
    (mkFleet (Z.of_nat (List.length (ti_nodes I))) (ti_capacity I) (loc_of final (depot_xy I)) 0 None)
    final.
