(* Model of:
     vrp-core/src/algorithms/lkh/mod.rs  :: lkh_optimize, make_edge, make_edge_set
     vrp-core/src/algorithms/lkh/tour.rs :: Tour::new, contains, index_of, around, try_path
     vrp-core/src/algorithms/lkh/kopt.rs :: KOpt::optimize, improve, find_closest, choose_x, choose_y, is_known_path
   Nodes are nat, costs are Z (the generators produce integer-valued f64 costs, so the float arithmetic is exact).
   EdgeSet = BTreeSet<(usize,usize)> is a strictly sorted list of normalised pairs (iteration order = list order).
   HashMap / HashSet in try_path are used for lookup / len only (association lists here).
   The only observable hash order is `neighbours.into_iter()` in find_closest (followed by a STABLE sort on diff):
   it is the oracle `ho` (None = "order-dependent tie, abort"); theorems quantify over every oracle.
   Recursion choose_x <-> choose_y is bounded in the code only by the growth of `broken` inside the tour's edge set;
   here it carries fuel (result Fuel when exhausted; lkh_fuel is proved/validated sufficient).
   Tour::try_path starts the rebuilt path at `*self.path.first()?` (None on an empty path).
   Entry points for the correspondence: run_lkh (strict oracle).  Checker: check_lkh.  No proofs here. *)
From VRP Require Import Base.Tac.
Local Open Scope nat_scope.

Definition edge := (nat * nat)%type.
Definition mk_edge (i j : nat) : edge := if i <? j then (i, j) else (j, i).
Definition edge_eqb (a b : edge) : bool := (fst a =? fst b) && (snd a =? snd b).
Definition edge_ltb (a b : edge) : bool := (fst a <? fst b) || ((fst a =? fst b) && (snd a <? snd b)).

Definition eset := list edge.
Fixpoint eins (e : edge) (s : eset) : eset :=
  match s with
  | [] => [e]
  | x :: r => if edge_eqb e x then s else if edge_ltb e x then e :: s else x :: eins e r
  end.
Definition emem (e : edge) (s : eset) : bool := existsb (edge_eqb e) s.
Definition eremove (e : edge) (s : eset) : eset := filter (fun x => negb (edge_eqb e x)) s.
Definition eset_of (l : list edge) : eset := fold_left (fun s e => eins e s) l [].
Definition ediff (s b : eset) : eset := filter (fun e => negb (emem e b)) s.
Definition eunion (s j : eset) : eset := fold_left (fun s e => eins e s) j s.

Fixpoint nins (x : nat) (s : list nat) : list nat :=
  match s with
  | [] => [x]
  | y :: r => if x =? y then s else if x <? y then x :: s else y :: nins x r
  end.
Definition nset_of (l : list nat) : list nat := fold_left (fun s x => nins x s) l [].
Definition nmem (x : nat) (l : list nat) : bool := existsb (Nat.eqb x) l.

Fixpoint list_eqb (a b : list nat) : bool :=
  match a, b with
  | [], [] => true
  | x :: a', y :: b' => (x =? y) && list_eqb a' b'
  | _, _ => false
  end.

(* ---------------------------------------------------------------- Tour *)
Record tour := { tpath : list nat; tedges : eset }.

Fixpoint windows2 (p : list nat) : list edge :=
  match p with
  | a :: ((b :: _) as r) => (a, b) :: windows2 r
  | _ => []
  end.

Definition closing (p : list nat) : list edge :=
  match p with
  | [] => []
  | a :: _ => [(last p a, a)]
  end.

Definition tour_new (p : list nat) : tour :=
  {| tpath := p; tedges := eset_of (map (fun e => mk_edge (fst e) (snd e)) (windows2 p ++ closing p)) |}.

Fixpoint index_of (x : nat) (p : list nat) : option nat :=
  match p with
  | [] => None
  | y :: r => if y =? x then Some 0 else option_map S (index_of x r)
  end.

Definition around (t : tour) (node : nat) : list nat :=
  match index_of node (tpath t) with
  | None => []
  | Some i =>
    let n := length (tpath t) in
    let pred := if i =? 0 then n - 1 else i - 1 in
    let succ := (i + 1) mod n in
    [nth pred (tpath t) 0; nth succ (tpath t) 0]
  end.

Fixpoint upd (k v : nat) (m : list (nat * nat)) : list (nat * nat) :=
  match m with
  | [] => [(k, v)]
  | (k', v') :: r => if k' =? k then (k, v) :: r else (k', v') :: upd k v r
  end.
Fixpoint lookup (k : nat) (m : list (nat * nat)) : option nat :=
  match m with
  | [] => None
  | (k', v) :: r => if k' =? k then Some v else lookup k r
  end.

Definition incident (node : nat) (e : edge) : bool := (fst e =? node) || (snd e =? node).

(* `while !edges.is_empty() { find first incident edge; record successor; remove edge; move on }` *)
Fixpoint walk (fuel : nat) (edges : eset) (node : nat) (succs : list (nat * nat)) : list (nat * nat) :=
  match fuel with
  | O => succs
  | S f =>
    match find (incident node) edges with
    | Some e => let next := if fst e =? node then snd e else fst e in
                walk f (eremove e edges) next (upd node next succs)
    | None => succs
    end
  end.

(* std::iter::successors with the visited set; acc is the tour so far, reversed *)
Fixpoint follow (fuel : nat) (succs : list (nat * nat)) (node : nat) (visited acc : list nat) : list nat :=
  match fuel with
  | O => rev acc
  | S f =>
    match lookup node succs with
    | Some next => if nmem next visited then rev acc else follow f succs next (next :: visited) (next :: acc)
    | None => rev acc
    end
  end.

Definition try_path (t : tour) (broken joined : eset) : option (list nat) :=
  let edges := eunion (ediff (tedges t) broken) joined in
  if length edges <? length (tpath t) then None else
  match tpath t with
  | [] => None
  | start :: _ =>                        (* `*self.path.first()?` : the tour's first node *)
    let succs := walk (length edges) edges start [] in
    if negb (length succs =? length (tpath t)) then None else
    let nt := follow (S (length succs)) succs start [start] [start] in
    if length nt =? length (tpath t) then Some nt else None
  end.

(* ---------------------------------------------------------------- KOpt *)
Inductive res := Found (p : list nat) | NotFound | Fuel | Abort.

Definition entry := (nat * (Z * Z))%type.   (* node, (diff, gi) *)

Fixpoint upsert (node : nat) (diff gi : Z) (m : list entry) : list entry :=
  match m with
  | [] => [(node, (diff, gi))]
  | (k, (d, g)) :: r => if k =? node then (k, (diff, g)) :: r     (* `*d = diff; if diff < *d {..}` never fires *)
                        else (k, (d, g)) :: upsert node diff gi r
  end.

(* stable sort, descending diff *)
Fixpoint sins (x : entry) (s : list entry) : list entry :=
  match s with
  | [] => [x]
  | y :: r => if (fst (snd y) >? fst (snd x))%Z then y :: sins x r else x :: s
  end.
Definition sort_desc (l : list entry) : list entry := fold_right sins [] l.

Fixpoint has_tie (l : list entry) : bool :=
  match l with
  | [] => false
  | x :: r => existsb (fun y => (fst (snd y) =? fst (snd x))%Z) r || has_tie r
  end.
Definition strict_ho (l : list entry) : option (list entry) := if has_tie l then None else Some l.
Definition id_ho (l : list entry) : option (list entry) := Some l.

Section KOpt.
  Variable cm : list (list Z).            (* AdjacencySpec::cost *)
  Variable nb : list (list nat).          (* AdjacencySpec::neighbours *)
  Variable ho : list entry -> option (list entry).   (* HashMap iteration order *)

  Definition cost (i j : nat) : Z := nth j (nth i cm []) 0%Z.
  Definition neighbours (i : nat) : list nat := nth i nb [].

  Section Improve.
    Variable t : tour.

    Definition closest_step (t2i : nat) (gain : Z) (broken joined : eset) (m : list entry) (node : nat) : list entry :=
      let yi := mk_edge t2i node in
      let gi := (gain - cost t2i node)%Z in
      if (gi <=? 0)%Z || emem yi broken || emem yi (tedges t) then m
      else fold_left (fun m succ =>
                        let xi := mk_edge node succ in
                        if negb (emem xi broken) && negb (emem xi joined)
                        then upsert node (cost node succ - cost t2i node)%Z gi m else m)
                     (around t node) m.

    Definition find_closest (t2i : nat) (gain : Z) (broken joined : eset) : option (list entry) :=
      option_map sort_desc (ho (fold_left (closest_step t2i gain broken joined) (neighbours t2i) [])).

    (* find_map over the candidates; Fuel / Abort propagate *)
    Fixpoint first_found (f : entry -> res) (l : list entry) : res :=
      match l with
      | [] => NotFound
      | x :: r => match f x with NotFound => first_found f r | other => other end
      end.

    Definition choose_y (cx : nat -> nat -> Z -> eset -> eset -> res)
               (t1 t2i : nat) (gain : Z) (broken joined : eset) : res :=
      match find_closest t2i gain broken joined with
      | None => Abort
      | Some closest =>
        let max_tries := if length broken =? 2 then 5 else 1 in
        first_found (fun e => cx t1 (fst e) (snd (snd e)) broken (eins (mk_edge t2i (fst e)) joined))
                    (firstn max_tries closest)
      end.

    (* the `for t2i in nodes_around` loop of choose_x; `rec` is choose_x one level deeper *)
    Fixpoint cx_loop (rec : nat -> nat -> Z -> eset -> eset -> res)
             (t1 last : nat) (gain : Z) (broken joined : eset) (cands : list nat) : res :=
      match cands with
      | [] => NotFound
      | t2i :: rest =>
        let xi := mk_edge last t2i in
        if emem xi joined || emem xi broken then NotFound else
        let yi := mk_edge t2i t1 in
        let added := eins yi joined in
        let removed := eins xi broken in
        let gi := (gain + cost last t2i)%Z in
        let relink := (gi - cost t2i t1)%Z in
        if (relink >? 0)%Z then
          match try_path t removed added with
          | Some p => if list_eqb p (tpath t) then NotFound else Found p
          | None => if 2 <? length added then cx_loop rec t1 last gain broken joined rest
                    else choose_y rec t1 t2i gi removed joined
          end
        else choose_y rec t1 t2i gi removed joined
      end.

    Definition cx_cands (last : nat) (broken : eset) : list nat :=
      if length broken =? 4 then
        match around t last with
        | [pred; succ] => if (cost pred last >? cost succ last)%Z then [pred] else [succ]
        | _ => []
        end
      else around t last.

    Fixpoint choose_x (fuel : nat) (t1 last : nat) (gain : Z) (broken joined : eset) {struct fuel} : res :=
      match fuel with
      | O => Fuel
      | S f => cx_loop (choose_x f) t1 last gain broken joined (cx_cands last broken)
      end.

    (* the `for (t3, (_, gi)) in closest` loop with its `tries` counter *)
    Fixpoint t3_loop (fuel : nat) (t1 t2 : nat) (aset : list nat) (broken : eset) (tries : nat) (l : list entry) : res :=
      match l with
      | [] => NotFound
      | e :: r =>
        if nmem (fst e) aset then t3_loop fuel t1 t2 aset broken tries r
        else match choose_x fuel t1 (fst e) (snd (snd e)) broken [mk_edge t2 (fst e)] with
             | NotFound => match tries with
                           | S (S k) => t3_loop fuel t1 t2 aset broken (S k) r
                           | _ => NotFound           (* tries reached 0: break *)
                           end
             | other => other
             end
      end.

    Fixpoint t2_loop (fuel : nat) (t1 : nat) (aset : list nat) (l : list nat) : res :=
      match l with
      | [] => NotFound
      | t2 :: r =>
        let broken := [mk_edge t1 t2] in
        match find_closest t2 (cost t1 t2) broken [] with
        | None => Abort
        | Some closest =>
          match t3_loop fuel t1 t2 aset broken 5 closest with
          | NotFound => t2_loop fuel t1 aset r
          | other => other
          end
        end
      end.

    Fixpoint t1_loop (fuel : nat) (l : list nat) : res :=
      match l with
      | [] => NotFound
      | t1 :: r =>
        let aset := nset_of (around t t1) in
        match t2_loop fuel t1 aset aset with
        | NotFound => t1_loop fuel r
        | other => other
        end
      end.
  End Improve.

  (* depth of choose_x is bounded by the number of tour edges (each level adds a new tour edge to `broken`) *)
  Definition lkh_fuel (p : list nat) : nat := length p + 2.

  Definition improve (p : list nat) : res :=
    let t := tour_new p in t1_loop t (lkh_fuel p) (tpath t).

  (* KOpt::optimize: `solutions` always holds exactly the current path; the result is a one-element vector *)
  Fixpoint optimize (ofuel : nat) (p : list nat) : res :=
    match ofuel with
    | O => Fuel
    | S f => match improve p with
             | Found p' => optimize f p'
             | NotFound => Found p
             | other => other
             end
    end.
End KOpt.

(* result code for the correspondence: (0, final path) | (1, []) fuel | (2, []) order-dependent tie *)
Definition run_lkh (cm : list (list Z)) (nb : list (list nat)) (p : list nat) : nat * list nat :=
  match optimize cm nb strict_ho 400 p with
  | Found q => (0, q)
  | NotFound => (3, [])
  | Fuel => (1, [])
  | Abort => (2, [])
  end.

(* ---------------------------------------------------------------- executable contract checker *)
Fixpoint cycle_cost_from (cm : list (list Z)) (first : nat) (p : list nat) : Z :=
  match p with
  | [] => 0%Z
  | [a] => cost cm a first
  | a :: ((b :: _) as r) => (cost cm a b + cycle_cost_from cm first r)%Z
  end.
Definition cycle_cost (cm : list (list Z)) (p : list nat) : Z :=
  match p with [] => 0%Z | a :: _ => cycle_cost_from cm a p end.

Fixpoint remove1 (x : nat) (l : list nat) : option (list nat) :=
  match l with
  | [] => None
  | y :: r => if x =? y then Some r else option_map (cons y) (remove1 x r)
  end.
Fixpoint permb (a b : list nat) : bool :=
  match a with
  | [] => match b with [] => true | _ => false end
  | x :: a' => match remove1 x b with Some b' => permb a' b' | None => false end
  end.

(* clauses: 1 = permutation, 2 = same start node, 3 = closed-tour cost not above the input's *)
Definition check_lkh (cm : list (list Z)) (input output : list nat) : list nat :=
  (if permb output input then [] else [1])
  ++ (if match input, output with
         | [], [] => true
         | a :: _, b :: _ => a =? b
         | _, _ => false
         end then [] else [2])
  ++ (if (cycle_cost cm output <=? cycle_cost cm input)%Z then [] else [3]).
