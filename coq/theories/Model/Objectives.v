(* C20: objective values (fitness) of the additive objectives and the quotes (estimates) the evaluator gives.
   Rust items modelled (vrp-core/src/construction):
     features/minimize_unassigned.rs :: MinimizeUnassignedObjective::{fitness, estimate}   (default estimator = 1 per job)
     features/fleet_usage.rs         :: create_minimize_tours_feature (route_estimate_fn / solution_estimate_fn)
     features/total_value.rs         :: MaximizeTotalValueObjective::{fitness, estimate}
     features/transport.rs           :: DistanceObjective::fitness, CostObjective::fitness (= InsertionContext::get_total_cost)
     heuristics/context.rs           :: get_total_cost
     heuristics/insertions.rs        :: prepare_insertion_ctx, apply_insertion_success (bookkeeping part), finalize_unassigned
   The per-tour quotes (leg_estimate, cost_estimate_route, cost_estimate_activity) are in Model/Core.v.  No proofs here. *)
From VRP Require Import Base.Tac Model.Core.

(* ---------- per tour ---------- *)
Section PerTour.
Variable dur dist : Z -> Z -> Z.

(* a tour contributes to the solution's objective only when it is part of the solution, i.e. has jobs *)
Definition route_distance (t : list act) : Z := if has_jobs t then total_distance dist t else 0.

Definition max3 (a b c : Z) : Z := Z.max (Z.max a b) c.
(* get_total_cost for one route (driver costs are zero) *)
Definition cost_fitness (v : vehicle) (t : list act) : Z :=
  v_fixed v + v_pdist v * total_distance dist t + max3 (v_ptime v) (v_psvc v) (v_pwait v) * total_duration t.
Definition route_cost (v : vehicle) (t : list act) : Z := if has_jobs t then cost_fitness v t else 0.

(* the quote of the cost objective: route level + activity level, as summed in analyze_insertion_in_route_leg *)
Definition cost_quote (v : vehicle) (t : list act) (idx : nat) (x : act) : Z :=
  cost_estimate_route v t + cost_estimate_activity dur dist v t idx x.

(* no waiting anywhere in a (scheduled) tour *)
Definition no_wait (t : list act) : Prop := Forall (fun a => a_tws a <= a_arr a) (tl t).
Definition no_waitb (t : list act) : bool := forallb (fun a => a_tws a <=? a_arr a) (tl t).
End PerTour.

(* ---------- solution level bookkeeping (jobs are ids) ---------- *)
Record sol := mkSol {
  so_routes : list (list Z);      (* per route: the job ids served (tour.jobs) *)
  so_required : list Z;
  so_unassigned : list Z;
  so_ignored : list Z
}.

Definition fit_unassigned (s : sol) : Z :=
  (match so_routes s with [] => Z.of_nat (length (so_ignored s)) | _ => 0 end) + Z.of_nat (length (so_unassigned s)).
Definition fit_tours (s : sol) : Z := Z.of_nat (length (so_routes s)).
Definition fit_value (value : Z -> Z) (s : sol) : Z :=
  fold_right (fun r acc => fold_right (fun j a => a - value j) acc r) 0 (so_routes s).

Definition memz (j : Z) (l : list Z) : bool := existsb (Z.eqb j) l.
Definition removez (j : Z) (l : list Z) : list Z := filter (fun k => negb (k =? j)) l.

(* finalize_unassigned: required.retain(not in unassigned); unassigned.extend(required.drain) *)
Definition finalize (s : sol) : sol :=
  let req := filter (fun j => negb (memz j (so_unassigned s))) (so_required s) in
  mkSol (so_routes s) [] (so_unassigned s ++ req) (so_ignored s).

(* apply_insertion_success: route = Some k (existing route k) or None (route taken from the registry, pushed last) *)
Definition apply_ins (s : sol) (route : option nat) (j : Z) : sol :=
  let routes := match route with
                | Some k => firstn k (so_routes s) ++ (j :: nth k (so_routes s) []) :: skipn (S k) (so_routes s)
                | None => so_routes s ++ [[j]]
                end in
  mkSol routes (removez j (so_required s)) (removez j (so_unassigned s)) (so_ignored s).

(* quotes on route level *)
Definition quote_unassigned : Z := -1.
Definition quote_tours (route : option nat) : Z := match route with Some _ => 0 | None => 1 end.
Definition quote_value (value : Z -> Z) (j : Z) : Z := - value j.

(* multi-activity jobs (eval_multi): the activities are inserted one after another, each on the shadow tour that already holds
   the earlier ones; the quote of the leg-additive objective is the sum of the per-activity quotes on those shadow tours *)
Fixpoint apply_steps (dur : Z -> Z -> Z) (t : list act) (steps : list (nat * act)) : list act :=
  match steps with
  | [] => t
  | (idx, a) :: r => apply_steps dur (reschedule dur (insert_after t idx a)) r
  end.

(* the cost objective's activity-level quotes summed over the steps (eval_multi adds the route-level quote once) *)
Fixpoint multi_cost_sum (dur dist : Z -> Z -> Z) (v : vehicle) (t : list act) (steps : list (nat * act)) : Z :=
  match steps with
  | [] => 0
  | (idx, a) :: r => cost_estimate_activity dur dist v t idx a + multi_cost_sum dur dist v (reschedule dur (insert_after t idx a)) r
  end.

(* no waiting in the tour before, in any shadow tour, and in the final tour *)
Fixpoint shadow_no_wait (dur : Z -> Z -> Z) (t : list act) (steps : list (nat * act)) : Prop :=
  match steps with
  | [] => no_wait t
  | (idx, a) :: r => no_wait t /\ shadow_no_wait dur (reschedule dur (insert_after t idx a)) r
  end.

Fixpoint multi_leg (dur m : Z -> Z -> Z) (t : list act) (steps : list (nat * act)) : Z :=
  match steps with
  | [] => 0
  | (idx, a) :: r => leg_estimate m t idx a + multi_leg dur m (reschedule dur (insert_after t idx a)) r
  end.
