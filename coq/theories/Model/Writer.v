(* C03: model of the pragmatic solution writer.
   Rust items modelled:
     vrp-pragmatic/src/format/solution/solution_writer.rs :: create_tour (the fold over the single route interval: start stop,
         per activity new-stop rule, load update, `as i64` accumulation of distance / duration / Timing, cost accumulation,
         fixed cost, removal of redundant time / location of single-activity stops), calculate_load,
         create_solution (statistic = sum of the tour statistics)
     vrp-core/src/models/problem/costs.rs                 :: SimpleActivityCost::cost, TransportCost::cost (time independent)
     vrp-core/src/construction/heuristics/context.rs      :: InsertionContext::get_total_cost
   Restricted to tours without breaks / reloads / recharges (one route interval), without commute / parking (no
   clustering) and without reserved times; integer data, so every `as i64` is the identity.
   Input: the Core activity list of the route (start :: jobs ++ end) WITH the schedule the solver stored in it, and per
   activity its type and the tag get_job_tag found.  Output: the stops and the statistic in the document types of
   Spec/Valid.v.  run_* entry point: run_writer.  No proofs in this file. *)
From VRP Require Import Base.Tac Model.Core Spec.Valid.

(* an activity as the writer sees it *)
Record wact := mkWAct { w_act : act; w_kind : Z (* Valid activity kinds; 11 = arrival for job: None *); w_tag : option Z }.

Section Writer.
Variable dur dist : Z -> Z -> Z.
Variable v : vehicle.

(* the accumulator `Leg` of the fold together with the stops pushed so far (most recent stop first) *)
Record wstate := mkWState {
  ws_loc : Z; ws_dep : Z;         (* last_detail: location and departure of the previous activity *)
  ws_load : Z;                    (* leg.load *)
  ws_stat : sstat;                (* leg.statistic *)
  ws_stops : list sstop           (* tour.stops, reversed; the activities inside a stop are reversed too *)
}.

Definition serving_cost (a : act) : Z := a_svc a * v_psvc v.      (* SimpleActivityCost at service start: no waiting part *)
Definition transport_cost (from to : Z) : Z := dist from to * v_pdist v + dur from to * v_ptime v.

Definition wstep (st : wstate) (w : wact) : wstate :=
  let a := w_act w in
  let is_job := is_job_kind (w_kind w) in
  let prev_load := if is_job then ws_load st else 0 in                       (* "arrival must have zero load" *)
  let driving := dur (ws_loc st) (a_loc a) in
  let arrival := a_arr a in
  let service_start := Z.max arrival (a_tws a) in
  let waiting := service_start - arrival in
  let serving := a_svc a in
  let departure := service_start + serving in                                 (* activity_departure = service_end *)
  let total_cost := serving_cost a + transport_cost (ws_loc st) (a_loc a) + waiting * v_pwait v in
  let distance := st_dist (ws_stat st) + dist (ws_loc st) (a_loc a) in
  let is_new_stop := negb (ws_loc st =? a_loc a) in
  let stops := if is_new_stop then mkSStop (a_loc a) (a_arr a) (a_dep a) prev_load distance [] :: ws_stops st
               else ws_stops st in
  let load := prev_load + d_change (a_dem a) in                               (* calculate_load *)
  let activity := mkSAct (a_job a) (w_kind w) (Some (a_loc a)) (Some (service_start, departure)) (w_tag w) in
  let stops := match stops with
               | [] => []                                                     (* unreachable: the start stop exists *)
               | s :: r => mkSStop (ss_loc s) (ss_arr s) (a_dep a) load (ss_dist s) (activity :: ss_acts s) :: r
               end in
  let s0 := ws_stat st in
  mkWState (a_loc a) (a_dep a) load
           (mkSStat (st_cost s0 + total_cost) distance (st_dur s0 + (a_dep a - ws_dep st))
                    (st_drive s0 + driving) (st_serve s0 + serving) (st_wait s0 + waiting) (st_break s0))
           stops.

(* the start stop *)
Definition start_delivery (t : list wact) : Z := fold_left (fun acc w => acc + d_ds (a_dem (w_act w))) t 0.
Definition start_state (t : list wact) (s : act) : wstate :=
  let same := match t with _ :: n :: _ => a_loc s =? a_loc (w_act n) | _ => false end in
  let dep_act := mkSAct (-1) 10 None (if same then Some (a_arr s, a_dep s) else None) None in
  mkWState (a_loc s) (a_dep s) (start_delivery t) stat0
           [mkSStop (a_loc s) (a_arr s) (a_dep s) (start_delivery t) 0 [dep_act]].

(* "remove redundant info from single activity on the stop" *)
Definition cleanup (s : sstop) : sstop :=
  match ss_acts s with
  | [a] =>
    let time := match sa_time a with Some (b, e) => if ss_arr s =? b then None else Some (b, e) | None => None end in
    let loc := match sa_loc a with Some l => if l =? ss_loc s then None else Some l | None => None end in
    mkSStop (ss_loc s) (ss_arr s) (ss_dep s) (ss_load s) (ss_dist s) [mkSAct (sa_job a) (sa_kind a) loc time (sa_tag a)]
  | _ => s
  end.

Definition unrev (s : sstop) : sstop := mkSStop (ss_loc s) (ss_arr s) (ss_dep s) (ss_load s) (ss_dist s) (rev (ss_acts s)).

Definition wfold (t : list wact) : option wstate :=
  match t with
  | [] => None
  | s :: r => Some (fold_left wstep r (start_state t (w_act s)))
  end.

Definition add_fixed (s : sstat) : sstat :=
  mkSStat (st_cost s + v_fixed v) (st_dist s) (st_dur s) (st_drive s) (st_serve s) (st_wait s) (st_break s).

(* create_tour: stops and statistic *)
Definition write_tour (t : list wact) : list sstop * sstat :=
  match wfold t with
  | None => ([], stat0)
  | Some st => (map cleanup (map unrev (rev (ws_stops st))), add_fixed (ws_stat st))
  end.

(* InsertionContext::get_total_cost for one route (driver costs are zero in the pragmatic format) *)
Definition core_route_cost (total_distance total_duration : Z) : Z :=
  v_fixed v + v_pdist v * total_distance + Z.max (Z.max (v_ptime v) (v_psvc v)) (v_pwait v) * total_duration.

End Writer.

(* create_solution: the overall statistic *)
Definition write_total (tours : list sstat) : sstat := fold_left stat_add tours stat0.

(* ---- run_* : the writer model applied to a tour rebuilt from a document (Valid.rebuild), with the schedule recomputed by
   the Core model of update_schedules from the reported departure; the result must be the document's own stops/statistic *)
(* activity_matcher.rs :: get_job_tag: the tag of the FIRST tagged place of the task whose location is the activity's
   location and one of whose windows intersects the window the activity was scheduled in (duration is not looked at) *)
Definition tw_meets (a b : Z * Z) : bool := (fst a <=? snd b) && (fst b <=? snd a).
Definition job_tag (tk : ptask) (loc : Z) (tw : Z * Z) : option Z :=
  match find (fun p => match pl_tag p with Some _ => true | None => false end
                       && (pl_loc p =? loc) && existsb (fun w => tw_meets w tw) (pl_tws p)) (tk_places tk) with
  | Some p => pl_tag p
  | None => None
  end.

Definition wacts_of (r : rebuilt) (sched : list act) : list wact :=
  let kinds := 10 :: map (fun am => fa_kind (fst am)) (rb_jobs r) ++ [11] in
  let tags := None :: map (fun am => let '(_, tk, _, w) := snd am in job_tag tk (fa_loc (fst am)) w) (rb_jobs r) ++ [None] in
  map (fun x => mkWAct (fst (fst x)) (snd (fst x)) (snd x)) (combine (combine sched kinds) tags).

(* plain tuple / list encoding of a written tour for the comparison with the real document:
   stop = (location, arrival, departure, load, distance, [activity]); activity = (job, kind, [location], [start; end], [tag])
   with absent optional fields as []; statistic = stat_fields *)
Definition enc_opt (o : option Z) : list Z := match o with Some x => [x] | None => [] end.
Definition enc_act (a : sact) : Z * Z * list Z * list Z * list Z :=
  (sa_job a, sa_kind a, enc_opt (sa_loc a), match sa_time a with Some (b, e) => [b; e] | None => [] end, enc_opt (sa_tag a)).
Definition enc_stop (s : sstop) := (ss_loc s, ss_arr s, ss_dep s, ss_load s, ss_dist s, map enc_act (ss_acts s)).
Definition enc_tour (r : option (list sstop * sstat)) :=
  match r with Some (stops, st) => [(map enc_stop stops, stat_fields st)] | None => [] end.

Definition run_writer (P : pproblem) (S : ssolution) : list (option (list sstop * sstat)) * sstat :=
  (map (fun t => match rebuild P t with
                 | None => None
                 | Some r => Some (write_tour (pdur P) (pdist P) (rb_veh r) (wacts_of r (reschedule (pdur P) (rb_acts r))))
                 end) (sl_tours S),
   write_total (map to_stat (sl_tours S))).

(* run_writer in the tuple encoding: ([per tour: [] if it cannot be rebuilt, else [(stops, statistic)]], total statistic) *)
Definition run_writer_enc (P : pproblem) (S : ssolution) :=
  let '(ts, tot) := run_writer P S in (map enc_tour ts, stat_fields tot).
