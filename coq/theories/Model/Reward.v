(* C18 — exact-arithmetic (Q) model of reward estimation and of index selection.
   Rust items modelled:
     rosomaxa/src/hyper/dynamic_selective.rs :: get_relative_distance          -> rel_dist   (the objective's answer `ord` is an input)
     rosomaxa/src/hyper/dynamic_selective.rs :: estimate_distance_reward       -> distance_reward
     rosomaxa/src/hyper/dynamic_selective.rs :: estimate_reward_perf_multiplier-> perf_multiplier
     rosomaxa/src/hyper/dynamic_selective.rs :: SearchAction::take (reward = base * multiplier) -> step_reward
     rosomaxa/src/utils/random.rs :: random_argmax                              -> random_argmax (oracle: one bool per tie = "rng.gen_range(0..=count) == 0")
     rosomaxa/src/utils/random.rs :: DefaultRandom::weighted                    -> weighted (oracle: the exponential draws -ln(u), as non-negative rationals)
   Entry points used by the correspondence: run_reward, run_argmax_set, run_weighted_set.
   No proofs in this file. *)
From Coq Require Import QArith Qabs Qminmax.
From VRP Require Import Base.Tac Base.TotalCmp.
Open Scope Q_scope.

(* index of the first position where the two fitness iterators differ (zip: stops at the shorter one) *)
Fixpoint first_diff (fa fb : list Q) (i : nat) : option nat :=
  match fa, fb with
  | a :: fa', b :: fb' => if Qeq_bool a b then first_diff fa' fb' (S i) else Some i
  | _, _ => None
  end.

Definition qnat (n : nat) : Q := inject_Z (Z.of_nat n).

(* the f64 constants 0.05 and 0.15 of the source are not dyadic-exact decimals: the model uses the exact value of the doubles *)
Definition c005 : Q := 3602879701896397 # 72057594037927936.   (* 0.05 = 0x3FA999999999999A *)
Definition c015 : Q := 5404319552844595 # 36028797018963968.   (* 0.15 = 0x3FC3333333333333 *)

Definition rel_value (a b : Q) : Q := Qabs (a - b) / Qmax (Qabs a) (Qabs b).

(* ord = objective.total_order(a, b) *)
Definition rel_dist (ord : comparison) (fa fb : list Q) : Q :=
  match ord with
  | Eq => 0
  | _ =>
    let sign := match ord with Lt => 1 | _ => -1 end in
    match first_diff fa fb 0 with
    | None => 0
    | Some idx =>
        let total := length fa in
        (* assert_ne!(total, 0); assert_ne!(total, idx): idx < total always (first_diff_lt) *)
        let amplifier := qnat (total - idx) in
        let value := rel_value (nth idx fa 0) (nth idx fb 0) in
        value * sign * amplifier
    end
  end.

(* best = heuristic_ctx.ranked().next() (fitness of the best known), o_ni = total_order(new, initial), o_nb = total_order(new, best) *)
Definition distance_reward (best : option (list Q)) (o_ni o_nb : comparison) (fnew finit : list Q) : Q :=
  match best with
  | None => 0
  | Some fbest =>
      let di := rel_dist o_ni fnew finit in
      let db := rel_dist o_nb fnew fbest in
      match di ?= 0, db ?= 0 with
      | Gt, Gt => (di + 1) + (db + 1) * 2
      | Gt, _ => (di + 1) * c005
      | _, _ => 0
      end
  end.

Definition qclamp (lo hi x : Q) : Q := if Qlt_le_dec x lo then lo else if Qlt_le_dec hi x then hi else x.

Definition perf_multiplier (improvement_ratio : Q) (median : option nat) (duration : nat) (has_improvement : bool) : Q :=
  let median_ratio :=
    match median with
    | None => 1
    | Some m => if Nat.eqb m 0 then 1 else qnat duration / qnat m
    end in
  let r := qclamp (1 / 2) 2 median_ratio in
  let mr := if Qlt_le_dec r (3 / 4) then 3 / 2
            else if Qlt_le_dec r 1 then 5 / 4
            else if Qlt_le_dec (3 / 2) r then 3 / 4
            else 1 in
  let ir := if has_improvement then
              (if Qlt_le_dec improvement_ratio c005 then 2
               else if Qlt_le_dec c015 improvement_ratio then 3 / 4 else 1)
            else 1 in
  mr * ir.

(* lexicographic objective of the harness (smaller is better) *)
Fixpoint lex_q (fa fb : list Q) : comparison :=
  match fa, fb with
  | a :: fa', b :: fb' => match a ?= b with Eq => lex_q fa' fb' | c => c end
  | _, _ => Eq
  end.

(* SearchAction::take with the lexicographic objective: is_new_best = compare_to_best(new) == Less
   (compare_to_best = Less when there is no best known) *)
Definition step_reward (best : option (list Q)) (finit fnew : list Q) (improvement_ratio : Q)
           (median : option nat) (duration : nat) : Q :=
  let o_nb := match best with Some fb => lex_q fnew fb | None => Lt end in
  let is_new_best := match o_nb with Lt => true | _ => false end in
  distance_reward best (lex_q fnew finit) o_nb fnew finit
  * perf_multiplier improvement_ratio median duration is_new_best.

(* ---------- random_argmax: Iterator::max_by folds with `match compare(cur, new) { Greater => cur, _ => new }`;
   the closure compares by total_cmp (integer keys, Base/TotalCmp.v) and on Equal consumes one oracle bit. ---------- *)
Fixpoint argmax_go (o : list bool) (count : nat) (cur : nat * Z) (i : nat) (vals : list Z) : nat :=
  match vals with
  | [] => fst cur
  | s :: rest =>
      match Z.compare (snd cur) s with
      | Eq => match o with
              | true :: o' => argmax_go o' (S count) (i, s) (S i) rest      (* draw == 0: Ordering::Less, take the new one *)
              | false :: o' => argmax_go o' (S count) cur (S i) rest
              | [] => argmax_go [] (S count) cur (S i) rest                 (* stream exhausted: any fixed answer *)
              end
      | Lt => argmax_go o 0 (i, s) (S i) rest
      | Gt => argmax_go o count cur (S i) rest
      end
  end.

Definition random_argmax (o : list bool) (keys : list Z) : option nat :=
  match keys with
  | [] => None
  | k :: rest => Some (argmax_go o 0 (0%nat, k) 1 rest)
  end.

Fixpoint zmax_list (d : Z) (l : list Z) : Z := match l with [] => d | x :: r => zmax_list (Z.max d x) r end.

Fixpoint indices_eq (m : Z) (l : list Z) (i : nat) : list nat :=
  match l with [] => [] | x :: r => (if Z.eqb x m then [i] else []) ++ indices_eq m r (S i) end.

Definition argmax_set (keys : list Z) : list nat :=
  match keys with [] => [] | k :: r => indices_eq (zmax_list k r) keys 0 end.

(* ---------- weighted: min over i of e_i / w_i, first minimum wins (Iterator::min_by); w_i = 0 gives +inf (None) ---------- *)
Definition wkey (e : Q) (w : nat) : option Q := if Nat.eqb w 0 then None else Some (e / qnat w).

(* a < b on [0, +inf] *)
Definition olt (a b : option Q) : bool :=
  match a, b with
  | Some x, Some y => if Qlt_le_dec x y then true else false
  | Some _, None => true
  | None, _ => false
  end.

Fixpoint weighted_go (cur : nat * option Q) (i : nat) (es : list Q) (ws : list nat) : nat :=
  match es, ws with
  | e :: es', w :: ws' =>
      let k := wkey e w in
      if olt k (snd cur) then weighted_go (i, k) (S i) es' ws' else weighted_go cur (S i) es' ws'
  | _, _ => fst cur
  end.

(* None = `.unwrap()` on an empty iterator panics *)
Definition weighted (es : list Q) (ws : list nat) : option nat :=
  match es, ws with
  | e :: es', w :: ws' => Some (weighted_go (0%nat, wkey e w) 1 es' ws')
  | _, _ => None
  end.

(* ---------- correspondence entry points ---------- *)
Definition dyq (me : Z * Z) : Q :=
  let (m, e) := me in
  if (0 <=? e)%Z then inject_Z (m * 2 ^ e) else Qmake m (Z.to_pos (2 ^ (- e))).
Definition qout2 (q : Q) : Z * Z := let r := Qred q in (Qnum r, Zpos (Qden r)).

(* best: [] = no best known, [f] = fitness f *)
Definition run_reward (best : list (list (Z * Z))) (finit fnew : list (Z * Z)) (ratio : Z * Z) : Z * Z :=
  let b := match best with [] => None | f :: _ => Some (map dyq f) end in
  qout2 (step_reward b (map dyq finit) (map dyq fnew) (dyq ratio) None 0).

Definition run_argmax_set (bits : list Z) : list nat := argmax_set (map key bits).

(* indices weighted can return when every draw is positive and finite: the positive weights; all weights 0 -> every key is +inf, first wins *)
Fixpoint pos_indices (ws : list nat) (i : nat) : list nat :=
  match ws with [] => [] | w :: r => (if Nat.eqb w 0 then [] else [i]) ++ pos_indices r (S i) end.
Definition weighted_support (ws : list nat) : list nat :=
  match ws with
  | [] => []
  | _ => match pos_indices ws 0 with [] => [0%nat] | l => l end
  end.
