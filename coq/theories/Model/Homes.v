(* C02: the bookkeeping of a job's "home" inside the solver (jobs are ids).
   Rust items modelled (vrp-core/src):
     construction/heuristics/context.rs    :: SolutionContext {required, unassigned, routes}  (ignored/locked: not modelled,
                                               empty in the supported fragment: no breaks / reloads / relations),
                                               remove_empty_routes, Solution::from (unassigned ++ required)
     construction/heuristics/insertions.rs :: prepare_insertion_ctx, apply_insertion_success, apply_insertion_failure
                                               (the part that touches the lists), finalize_unassigned, finalize_insertion_ctx
     solver/search/utils/removal.rs        :: JobRemovalTracker::try_remove_job (successful branch), remove_whole_route
   A route is the list of job ids it serves (tour.jobs()); `unassigned` is a map in the code: a list without duplicates
   whose insert keeps an existing key.  Which job / route an operator picks is an argument of the step (oracle).
   run_* entry points for the correspondence: inv_b, explains.  No proofs in this file. *)
From VRP Require Import Base.Tac.

Record hsol := mkH { h_routes : list (list Z); h_required : list Z; h_unassigned : list Z }.

Definition zin (j : Z) (l : list Z) : bool := existsb (Z.eqb j) l.
Definition zremove (j : Z) (l : list Z) : list Z := filter (fun k => negb (k =? j)) l.
Definition map_insert (u : list Z) (j : Z) : list Z := if zin j u then u else u ++ [j].

Definition set_route (k : nat) (r : list Z) (rs : list (list Z)) : list (list Z) := firstn k rs ++ r :: skipn (S k) rs.

Inductive hop :=
| HInsert (route : nat) (j : Z)      (* apply_insertion_success into route k; k >= length routes: a new route, pushed last *)
| HFail (j : Z)                      (* apply_insertion_failure naming a job: unassigned.insert(job); required.retain(!= job) *)
| HFinalize                          (* finalize_unassigned: every required job becomes unassigned; required is drained *)
| HPrepare                           (* prepare_insertion_ctx: required.extend(unassigned.keys()) *)
| HRemoveJob (route : nat) (j : Z)   (* try_remove_job: tour.remove(job) succeeded => required.push(job); otherwise nothing *)
| HRemoveRoute (route : nat)         (* remove_whole_route: required.extend(tour.jobs()); the route is dropped *)
| HDropEmpty                         (* remove_empty_routes (InsertionContext::restore; finalize_insertion_ctx since 03c7b61) *)
| HPushEmpty.                        (* tour_limits.rs TravelLimitState::notify_failure: registry.get_route(actor) with an
                                        advanced departure is pushed to `routes` WITHOUT any job *)

Definition step (s : hsol) (o : hop) : hsol :=
  match o with
  | HInsert k j =>
    mkH (set_route k (j :: nth k (h_routes s) []) (h_routes s)) (zremove j (h_required s)) (zremove j (h_unassigned s))
  | HFail j => mkH (h_routes s) (zremove j (h_required s)) (map_insert (h_unassigned s) j)
  | HFinalize => mkH (h_routes s) [] (fold_left map_insert (h_required s) (h_unassigned s))
  | HPrepare => mkH (h_routes s) (h_required s ++ h_unassigned s) (h_unassigned s)
  | HRemoveJob k j =>
    if zin j (nth k (h_routes s) [])
    then mkH (set_route k (zremove j (nth k (h_routes s) [])) (h_routes s)) (h_required s ++ [j]) (h_unassigned s)
    else s
  | HRemoveRoute k =>
    if (k <? length (h_routes s))%nat
    then mkH (firstn k (h_routes s) ++ skipn (S k) (h_routes s)) (h_required s ++ nth k (h_routes s) []) (h_unassigned s)
    else s
  | HDropEmpty => mkH (filter (fun r => match r with [] => false | _ => true end) (h_routes s)) (h_required s) (h_unassigned s)
  | HPushEmpty => mkH (h_routes s ++ [[]]) (h_required s) (h_unassigned s)
  end.

(* what the caller of a primitive guarantees: the insertion heuristic only evaluates jobs taken from `required` *)
Definition guard (s : hsol) (o : hop) : Prop :=
  match o with
  | HInsert _ j => In j (h_required s)
  | HFail j => In j (h_required s)
  | _ => True
  end.

Fixpoint run (s : hsol) (ops : list hop) : hsol :=
  match ops with [] => s | o :: r => run (step s o) r end.
Fixpoint guards (s : hsol) (ops : list hop) : Prop :=
  match ops with [] => True | o :: r => guard s o /\ guards (step s o) r end.

Definition init (jobs : list Z) : hsol := mkH [] jobs [].

(* insertions.rs :: finalize_insertion_ctx (since commit 03c7b61): finalize_unassigned, accept_solution_state (no effect on
   the lists), remove_empty_routes.  Every run of InsertionHeuristic::process ends with it. *)
Definition finalize_ctx : list hop := [HFinalize; HDropEmpty].

(* Solution::from: what is handed to the writer *)
Definition reported_unassigned (s : hsol) : list Z := h_unassigned s ++ h_required s.

(* ---- executable invariant (evaluated on the real SolutionContext dumps) *)
Fixpoint nodupb (l : list Z) : bool := match l with [] => true | x :: r => negb (zin x r) && nodupb r end.
Definition inv_b (jobs : list Z) (s : hsol) : bool :=
  let inr := concat (h_routes s) in
  nodupb inr && nodupb (h_unassigned s)
  && forallb (fun j => negb (zin j (h_required s)) && negb (zin j (h_unassigned s))) inr
  && forallb (fun j => zin j inr || zin j (h_required s) || zin j (h_unassigned s)) jobs
  && forallb (fun j => zin j jobs) (inr ++ h_required s ++ h_unassigned s).

(* canonical form for comparing states: job ids inside a route are a set *)
Fixpoint insert_sorted (x : Z) (l : list Z) : list Z :=
  match l with [] => [x] | y :: r => if x <=? y then x :: l else y :: insert_sorted x r end.
Definition sortz (l : list Z) : list Z := fold_right insert_sorted [] l.
Definition canon (s : hsol) : list (list Z) * list Z * list Z :=
  (map sortz (h_routes s), sortz (h_required s), sortz (h_unassigned s)).

(* the observed successor s' of s is explained by one apply_insertion_success: returns [route; job] of the step found *)
Definition explains (s s' : hsol) : list Z :=
  let cands := flat_map (fun j => map (fun k => (k, j)) (seq 0 (S (length (h_routes s))))) (h_required s) in
  match find (fun kj => let '(cr, cq, cu) := canon (step s (HInsert (fst kj) (snd kj))) in
                        let '(cr', cq', cu') := canon s' in
                        (if list_eq_dec (list_eq_dec Z.eq_dec) cr cr' then true else false)
                        && (if list_eq_dec Z.eq_dec cq cq' then true else false)
                        && (if list_eq_dec Z.eq_dec cu cu' then true else false)) cands with
  | Some (k, j) => [Z.of_nat k; j]
  | None => []
  end.

(* run_* for the correspondence: every dumped state satisfies the invariant (1/0 per state); for consecutive dumps
   the insertion that explains the change ([] = the second dump belongs to another run of the heuristic) *)
Fixpoint run_pairs (l : list hsol) : list (list Z) :=
  match l with
  | a :: ((b :: _) as r) => explains a b :: run_pairs r
  | _ => []
  end.
(* the decomposition search (decompose_search.rs) runs the same heuristic on SUB-contexts that hold a subset of the routes
   and jobs, so a dump need not cover the plan: flag 3 = invariant w.r.t. the whole plan, 2 = invariant w.r.t. the dump's
   own job set and no id outside the plan (a sub-context), 0/1 = broken *)
Definition own_jobs (s : hsol) : list Z := nodup Z.eq_dec (concat (h_routes s) ++ h_required s ++ h_unassigned s).
Definition run_trace (jobs : list Z) (l : list hsol) : list Z * list (list Z) :=
  (map (fun s => (if inv_b jobs s then 1 else 0)
                 + (if inv_b (own_jobs s) s && forallb (fun j => zin j jobs) (own_jobs s) then 2 else 0)) l,
   run_pairs l).
