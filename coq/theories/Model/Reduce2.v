(* C15, second model: the shapes the code really uses around parallel insertion evaluation and pool dispatch.
   Rust items modelled:
     rosomaxa/src/utils/parallel.rs :: cartesian_product (row-major list of pairs), fold_reduce
                                       (= par_iter().fold(identity, fold).reduce(identity, reduce): any reduction tree whose
                                       leaves are contiguous chunks in order, each leaf folded from identity()), map_reduce
                                       (= map(map_op).reduce(default_op, reduce_op)), parallel_collect / parallel_into_collect
                                       (order-preserving map: slot i holds map_op(item i)), ThreadPool::execute (install: returns op())
     vrp-core/src/construction/heuristics/insertions.rs :: InsertionResult::{make_failure, make_failure_with_code,
                                       choose_best_result} as written (which failure is kept, stopped / job / code fields)
     vrp-core/src/construction/heuristics/evaluators.rs :: eval_job_insertion_in_route (all four exits: unassigned-with-code
                                       shortcut, route-level violation, prune by route-level cost, scan with best_known_cost)
     vrp-core/src/construction/heuristics/selectors.rs  :: PositionInsertionEvaluator::evaluate_all (fold_reduce over
                                       cartesian_product(routes, jobs)), evaluate_and_collect_all (both branches), BestResultSelector
     vrp-core/src/solver/search/recreate/recreate_with_skip_best.rs :: SkipBestInsertionEvaluator::evaluate_all (sort of the
                                       collected vector and the pick of entry skip_index-1)
     rosomaxa/src/utils/environment.rs :: Parallelism::thread_pool_execute (idx % pools.len(); no pools or an empty vector
                                       of pools => inline; thread_pool_execute_prefix = the function before /repo b5c201c)
     rosomaxa/src/hyper/{static_selective,dynamic_selective,mod}.rs :: search_many / diversify_solutions
                                       (parallel_into_collect over (idx, solution) with thread_pool_execute(idx, ..))
     vrp-core/src/solver/search/decompose_search.rs :: create_multiple_insertion_contexts (groups of route indices),
                                       refine_decomposed (parallel_into_collect over the groups, merge_best folded in order)
     vrp-core/src/construction/heuristics/evaluators.rs + features (through Model/Core.v) :: the concrete single-job cell:
                                       route-level checks, analyze_insertion_in_route started from best_known_cost
   Entry points used by the correspondence: run_grid, run_choose.   No proofs in this file. *)
From VRP Require Import Base.Tac Model.CostOrder Model.Reduce Model.Core.

(* ================= (a) rosomaxa/src/utils/parallel.rs ================= *)
Section Parallel.
Context {T U R : Type}.

(* a.par_iter().flat_map(|a| b.par_iter().map(move |b| (a, b))): row-major *)
Definition cartesian_product (xs : list T) (ys : list U) : list (T * U) :=
  flat_map (fun a => map (fun b => (a, b)) ys) xs.

(* a schedule of a rayon consumer over an indexed source: contiguous chunks in order *)
Inductive ptree := PLeaf (xs : list T) | PNode (l r : ptree).
Fixpoint pflatten (t : ptree) : list T :=
  match t with PLeaf xs => xs | PNode l r => pflatten l ++ pflatten r end.

Fixpoint fold_reduce (identity : R) (fold : R -> T -> R) (reduce : R -> R -> R) (t : ptree) : R :=
  match t with
  | PLeaf xs => fold_left fold xs identity
  | PNode l r => reduce (fold_reduce identity fold reduce l) (fold_reduce identity fold reduce r)
  end.

(* map(map_op).reduce(default_op, reduce_op): a leaf folds `reduce_op(acc, map_op(x))` from default_op() *)
Definition map_reduce (map_op : T -> R) (default : R) (reduce : R -> R -> R) (t : ptree) : R :=
  fold_reduce default (fun acc x => reduce acc (map_op x)) reduce t.

(* map(map_op).collect(): every chunk writes its own window of the output, windows are concatenated in order *)
Fixpoint parallel_collect (map_op : T -> R) (t : ptree) : list R :=
  match t with
  | PLeaf xs => map map_op xs
  | PNode l r => parallel_collect map_op l ++ parallel_collect map_op r
  end.
End Parallel.
Arguments ptree : clear implicits.

(* solutions.iter().enumerate().collect() *)
Definition enumerate {A} (xs : list A) : list (nat * A) := combine (seq 0 (length xs)) xs.

(* ================= (b) InsertionResult, choose_best_result, eval_job_insertion_in_route ================= *)
Definition UNKNOWN : Z := -1.      (* ViolationCode::unknown() *)
Record failure := mkFail { f_code : Z; f_stopped : bool; f_job : option Z }.

Section Results.
Variable S : Type.                 (* InsertionSuccess: cost + job + activities + actor *)
Variable C : Type.                 (* InsertionCost *)
Variable cost : S -> C.
Variable lt : C -> C -> bool.      (* InsertionCost's `<` *)

Inductive result := RSuccess (s : S) | RFailure (f : failure).

Definition make_failure : result := RFailure (mkFail UNKNOWN false None).

Definition choose_best_result (l r : result) : result :=
  match l, r with
  | RSuccess _, RFailure _ => l
  | RFailure _, RSuccess _ => r
  | RSuccess a, RSuccess b => if lt (cost b) (cost a) then r else l      (* lhs.cost > rhs.cost => right *)
  | RFailure _, RFailure fr => if f_code fr =? UNKNOWN then l else r
  end.

(* what eval_job_insertion_in_route does with one (route, job) pair, as far as the pair itself decides it *)
Inductive cell :=
| CSkip                                   (* job is in `unassigned` with a concrete code and the route is not stale: alternative returned *)
| CRouteViol (code : Z) (job : Z)         (* goal.evaluate(route level) = Some(violation) *)
| CEval (rc : C) (run : option C -> result).   (* route-level estimate; eval_job_constraint_in_route as a function of best_known_cost *)

Definition eval_step (acc : result) (c : cell) : result :=
  match c with
  | CSkip => acc
  | CRouteViol code job => choose_best_result acc (RFailure (mkFail code true (Some job)))
  | CEval rc run =>
    match acc with
    | RSuccess a =>
      if lt (cost a) rc then acc                                        (* select_cost(alternative, route_costs) = Left *)
      else choose_best_result acc (run (Some (cost a)))                 (* best_known_cost = Some(alternative cost) *)
    | RFailure _ => choose_best_result acc (run None)
    end
  end.

(* the pair evaluated on its own (alternative = make_failure()) *)
Definition full_of (c : cell) : result :=
  match c with
  | CSkip => make_failure
  | CRouteViol code job => RFailure (mkFail code true (Some job))
  | CEval _ run => run None
  end.

(* a cell given by a table entry (full result, route-level estimate): the scan started from best_known_cost = a succeeds
   exactly when the full result is strictly cheaper than a; otherwise it reports some failure `kf` *)
Definition table_cell (rc : C) (full : result) (kf : failure) : cell :=
  CEval rc (fun known => match known, full with
                         | Some a, RSuccess s => if lt (cost s) a then full else RFailure kf
                         | Some _, RFailure _ => RFailure kf
                         | None, _ => full
                         end).

Section Grid.
Variables Rt Jb : Type.
Variable ev : Rt -> Jb -> cell.

Definition pair_step (acc : result) (p : Rt * Jb) : result := eval_step acc (ev (fst p) (snd p)).

(* PositionInsertionEvaluator::evaluate_all under the schedule t (pflatten t = cartesian_product routes jobs) *)
Definition evaluate_all (t : ptree (Rt * Jb)) : result := fold_reduce make_failure pair_step choose_best_result t.

(* the nested sequential double loop with the same step *)
Definition nested_loop (routes : list Rt) (jobs : list Jb) : result :=
  fold_left (fun acc r => fold_left (fun acc j => eval_step acc (ev r j)) jobs acc) routes make_failure.

(* specification: every pair evaluated on its own, all results reduced left to right (no pruning, no best_known_cost) *)
Definition best_of (xs : list result) : result := fold_left choose_best_result xs make_failure.
Definition best_of_all (routes : list Rt) (jobs : list Jb) : result :=
  best_of (map (fun p => full_of (ev (fst p) (snd p))) (cartesian_product routes jobs)).

(* specification of the failure that survives when nothing succeeds: the LAST failure with a concrete code, else make_failure()'s *)
Definition kept_failure (xs : list result) : failure :=
  fold_left (fun acc x => match x with RFailure f => if f_code f =? UNKNOWN then acc else f | RSuccess _ => acc end)
            xs (mkFail UNKNOWN false None).

(* evaluate_and_collect_all: is_fold_jobs = (required.len() > routes.len()) decides the branch *)
Definition collect_by_job (routes : list Rt) (tj : ptree Jb) : list result :=
  parallel_collect (fun j => fold_left (fun acc r => eval_step acc (ev r j)) routes make_failure) tj.
Definition collect_by_route (jobs : list Jb) (tr : ptree Rt) : list result :=
  parallel_collect (fun r => fold_left (fun acc j => eval_step acc (ev r j)) jobs make_failure) tr.
Definition evaluate_and_collect_all (is_fold_jobs : bool) (routes : list Rt) (jobs : list Jb) (tr : ptree Rt) (tj : ptree Jb)
  : list result :=
  if is_fold_jobs then collect_by_job routes tj else collect_by_route jobs tr.
End Grid.

(* SkipBestInsertionEvaluator: results.sort_by(cmp) (stable) and the entry skip_index.min(len) - 1 *)
Definition skip_cmp (a b : result) : comparison :=
  match a, b with
  | RSuccess x, RSuccess y => if lt (cost x) (cost y) then Lt else if lt (cost y) (cost x) then Gt else Eq
  | RSuccess _, RFailure _ => Lt
  | RFailure _, RSuccess _ => Gt
  | RFailure fa, RFailure fb =>
    if f_code fa =? UNKNOWN then Gt else if f_code fb =? UNKNOWN then Lt else Eq
  end.
Fixpoint insert_sorted (x : result) (l : list result) : list result :=
  match l with
  | [] => [x]
  | y :: r => match skip_cmp x y with Lt => x :: l | _ => y :: insert_sorted x r end    (* stable: equal elements keep their order *)
  end.
Definition stable_sort (l : list result) : list result := fold_right insert_sorted [] l.
Definition skip_best_pick (skip_index : nat) (results : list result) : option result :=
  nth_error (stable_sort results) (Nat.min skip_index (length results) - 1).
End Results.

Arguments RSuccess {S} s.
Arguments RFailure {S} f.
Arguments CSkip {S C}.
Arguments CRouteViol {S C} code job.
Arguments CEval {S C} rc run.

(* ================= (c) the concrete single-job cell on top of Model/Core.v ================= *)
Section Concrete.
Variable dur : Z -> Z -> Z.

Record route_desc := mkRoute { r_veh : vehicle; r_shift_start : Z; r_closed : bool; r_tour : list act }.

(* InsertionSuccess of a single job: cost, insertion index, place *)
Definition csucc := (Z * nat * (nat * Z * Z * Z * Z))%type.
Definition ccost (s : csucc) : Z := fst (fst s).

(* analyze_insertion_in_route, InsertionPosition::Any, started from SingleContext::new(best_known_cost, 0) *)
Definition analyze_known (est : list act -> nat -> act -> Z) (v : vehicle) (closed : bool) (t : list act) (j : single)
           (rc : Z) (known : option Z) : sctx :=
  scan_legs dur est v t j rc 0 (leg_count closed t) (mkSctx None 0 known None).

(* eval_single: the InsertionResult built from the final SingleContext *)
Definition result_of_sctx (j : single) (r : sctx) : result csucc :=
  match sc_place r with
  | Some p => RSuccess (match sc_cost r with Some c => c | None => 0 end, sc_index r, p)
  | None => match sc_viol r with
            | Some (code, st) => RFailure (mkFail code st (Some (s_id j)))
            | None => RFailure (mkFail UNKNOWN false (Some (s_id j)))
            end
  end.

(* goal.evaluate(route level) in feature order [transport; capacity], then the scan; `est` / `rcf` are the activity-level and
   route-level estimates of the (single) objective layer *)
Definition concrete_cell (est : route_desc -> list act -> nat -> act -> Z) (rcf : route_desc -> Z) (r : route_desc) (j : single)
  : cell csucc Z :=
  if negb (eval_route_time (r_shift_start r, v_shift_end (r_veh r)) j) then CRouteViol 1 (s_id j) else
  if negb (eval_route_cap (r_veh r) (r_tour r) j) then CRouteViol 2 (s_id j) else
  CEval (rcf r) (fun known => result_of_sctx j (analyze_known (est r) (r_veh r) (r_closed r) (r_tour r) j (rcf r) known)).

(* last objective layer = minimize distance: activity-level estimate = leg_estimate dist, route-level estimate 0 *)
Definition dist_cell (dist : Z -> Z -> Z) : route_desc -> single -> cell csucc Z :=
  concrete_cell (fun _ => leg_estimate dist) (fun _ => 0).
(* last objective layer = minimize cost *)
Definition cost_cell (dist : Z -> Z -> Z) : route_desc -> single -> cell csucc Z :=
  concrete_cell (fun r => cost_estimate_activity dur dist (r_veh r)) (fun r => cost_estimate_route (r_veh r) (r_tour r)).
End Concrete.

(* ================= (d) pools: thread_pool_execute, search_many, decomposition ================= *)
Section Pools.
Context {A R : Type}.

(* outcome of one dispatched task: the pool it ran on (None = inline, no pools configured) and its value *)
Inductive exec := Ran (pool : option nat) (value : R) | ExecPanic.

(* self.thread_pools.as_ref().filter(|tps| !tps.is_empty()).and_then(|tps| tps.get(idx % tps.len())): pools = None for
   Parallelism::default(), Some n for Parallelism::new(n, _); an empty vector of pools (n = 0) counts as no pool: op() inline
   (/repo b5c201c) *)
Definition thread_pool_execute (pools : option nat) (idx : nat) (op : unit -> R) : exec :=
  match pools with
  | None => Ran None (op tt)
  | Some O => Ran None (op tt)
  | Some n => Ran (Some (idx mod n)%nat) (op tt)
  end.

(* the function before /repo b5c201c (finding C15-F2): and_then(|tps| tps.get(idx % tps.len())) — n = 0 is a remainder by zero *)
Definition thread_pool_execute_prefix (pools : option nat) (idx : nat) (op : unit -> R) : exec :=
  match pools with
  | None => Ran None (op tt)
  | Some O => ExecPanic
  | Some n => Ran (Some (idx mod n)%nat) (op tt)
  end.

(* search_many / diversify_solutions: parallel_into_collect(solutions.iter().enumerate().collect(), |(idx, s)| thread_pool_execute(idx, || op(s))) *)
Definition search_many (pools : option nat) (op : A -> R) (t : ptree (nat * A)) : list exec :=
  parallel_collect (fun p => thread_pool_execute pools (fst p) (fun _ => op (snd p))) t.
Definition search_many_prefix (pools : option nat) (op : A -> R) (t : ptree (nat * A)) : list exec :=
  parallel_collect (fun p => thread_pool_execute_prefix pools (fst p) (fun _ => op (snd p))) t.

Fixpoint values (l : list exec) : option (list R) :=
  match l with
  | [] => Some []
  | Ran _ v :: r => match values r with Some vs => Some (v :: vs) | None => None end
  | ExecPanic :: _ => None
  end.
Definition pools_used (l : list exec) : list nat :=
  flat_map (fun e => match e with Ran (Some p) _ => [p] | _ => [] end) l.
End Pools.
Arguments exec : clear implicits.

(* create_multiple_insertion_contexts: `proximity o` = group_routes_by_proximity()[o]; `size o` = the draw
   uniform_int(min, max) made for the group opened by route o; `used` = used_indices *)
Definition memn (i : nat) (l : list nat) : bool := existsb (Nat.eqb i) l.
Definition route_group (proximity : nat -> list nat) (size : nat -> nat) (used : list nat) (o : nat) : list nat :=
  nodup Nat.eq_dec (firstn (size o) (o :: filter (fun i => negb (memn i used)) (proximity o))).   (* once(o).chain(..).take(size).collect::<HashSet>() *)
Fixpoint decompose_groups (proximity : nat -> list nat) (size : nat -> nat) (outer : list nat) (used : list nat) : list (list nat) :=
  match outer with
  | [] => []
  | o :: rest =>
    if memn o used then decompose_groups proximity size rest used
    else let g := route_group proximity size used o in
         g :: decompose_groups proximity size rest (g ++ used)
  end.
Definition decompose (proximity : nat -> list nat) (size : nat -> nat) (n_routes : nat) : list (list nat) :=
  decompose_groups proximity size (seq 0 n_routes) [].

(* refine_decomposed: every group refined independently (parallel_into_collect), the refined routes appended in group order *)
Definition refine_decomposed {Rt : Type} (refine : list nat -> list Rt) (t : ptree (list nat)) : list Rt :=
  concat (parallel_collect refine t).

(* ================= entry points of the correspondence ================= *)
Definition vsucc := (list Z * Z)%type.                 (* cost vector, tag (position of the pair in the grid) *)
Definition vres := result vsucc.
Definition vcell := cell vsucc (list Z).
Definition v_table (rc : list Z) (full : vres) : vcell := table_cell vsucc (list Z) fst vlt rc full (mkFail UNKNOWN false None).
Definition v_out (r : vres) : option (list Z) * (Z * Z) :=
  match r with
  | RSuccess s => (Some (fst s), (0, 0))
  | RFailure f => (None, (f_code f, match f_job f with Some j => j | None => -1 end))
  end.

(* balanced schedule with leaves of at most k items (k >= 1), fuel = length *)
Fixpoint chunks {T} (fuel k : nat) (xs : list T) : list (list T) :=
  match fuel with
  | O => []
  | S f => match xs with [] => [] | _ => firstn k xs :: chunks f k (skipn k xs) end
  end.
Definition tree_of_leaves {T} (ls : list (list T)) : ptree T :=     (* left-nested reduction of the leaves *)
  match ls with
  | [] => PLeaf []
  | l :: r => fold_left (fun acc x => PNode acc (PLeaf x)) r (PLeaf l)
  end.
Fixpoint tree_right {T} (ls : list (list T)) : ptree T :=         (* right-nested reduction of the leaves *)
  match ls with
  | [] => PLeaf []
  | [l] => PLeaf l
  | l :: r => PNode (PLeaf l) (tree_right r)
  end.

(* grid: rows = routes, columns = jobs, rows !! i !! k = cell of (route i, job k).
   Output: the specification value (unpruned), the nested loop, evaluate_all under leaves of 1, 2, 3 pairs (left- and
   right-nested) and one leaf per route; for both branches of evaluate_and_collect_all the reduced result, the collected
   vector and the entry SkipBestInsertionEvaluator picks with skip_index = 2 *)
Definition run_grid (rows : list (list vcell)) :=
  let nr := length rows in
  let nj := match rows with r :: _ => length r | [] => O end in
  let routes := seq 0 nr in
  let jobs := seq 0 nj in
  let ev := fun (r j : nat) => nth j (nth r rows []) CSkip in
  let prod := cartesian_product routes jobs in
  let ea := fun t => v_out (evaluate_all vsucc (list Z) fst vlt nat nat ev t) in
  let red := fun rs => v_out (best_of vsucc (list Z) fst vlt rs) in
  (v_out (best_of_all vsucc (list Z) fst vlt nat nat ev routes jobs),
   v_out (nested_loop vsucc (list Z) fst vlt nat nat ev routes jobs),
   [ea (PLeaf prod);
    ea (tree_of_leaves (chunks (length prod) 1 prod)); ea (tree_right (chunks (length prod) 1 prod));
    ea (tree_of_leaves (chunks (length prod) 2 prod)); ea (tree_right (chunks (length prod) 3 prod));
    ea (tree_of_leaves (chunks (length prod) (Nat.max 1 nj) prod))],
   (let vr := collect_by_route vsucc (list Z) fst vlt nat nat ev jobs (PLeaf routes) in
    let vj := collect_by_job vsucc (list Z) fst vlt nat nat ev routes (PLeaf jobs) in
    let pick := fun v => match skip_best_pick vsucc (list Z) fst vlt 2 v with Some r => [v_out r] | None => [] end in
    ((red vr, red vj), (map v_out vr, map v_out vj), (pick vr, pick vj)))).

(* choose_best_result on one pair of results *)
Definition run_choose (l r : vres) := v_out (choose_best_result vsucc (list Z) fst vlt l r).
