(* C18 — the adaptive operator selector (DynamicSelective) as a state machine over (search state, operator index), with the slot
   machines of Model/SlotQ.v / Model/SlotF.v inside.  Everything that is random or measured is an oracle argument: the values the
   DistributionSampler returns for every slot (as f64::total_cmp keys, so NaN / inf from a misbehaving sampler are covered), the
   tie bits of random_argmax, the measured durations.
   Rust items modelled (rosomaxa/src/hyper/dynamic_selective.rs unless stated otherwise):
     SearchState {BestKnown, Diverse}                      -> sstate
     SearchAgent::new (both rows: one SlotMachine::new(1., ..) per configured operator, RemedianUsize::new(11, 7, cmp))
                                                           -> sel_new
     SearchAgent::search (from-state; sample EVERY slot of the row of that state; random_argmax; slots.get(idx); expect)
                                                           -> from_of_order, sel_sample_keys, sel_select, sel_search
     SearchAction::take (is_new_best, reward, to-state)    -> the `take` argument of the generic machine; q_take for exact arithmetic
     SearchAgent::update (slots[idx].update only in the row of `from`; tracker.observe_sample)  -> sel_update
     HeuristicTracker::{approx_median, observe_sample}     -> rem_median / rem_add on sel_med
     DynamicSelective::search      (one search, then update)                -> sel_round with one job
     DynamicSelective::search_many (all searches against the SAME state - same slots, same median -, then the updates in order)
                                                           -> sel_round with several jobs
     compare_to_best (ranked().next(); unwrap_or(Less))    -> cmp_to_best
     rosomaxa/src/algorithms/math/remedian.rs :: Remedian::{new, add_observation, approx_median}  -> rem_new, rem_add, rem_median
   Panics of the code are `None`: expect("cannot get slot machine") (no operator configured / index outside the row) and the
   index expression slots[feedback.slot_idx].
   Entry points used by the correspondence: the float instance in Model/SelectorF.v (run_selectorF) is built from the generic
   functions of this file.  No proofs in this file. *)
From Coq Require Import QArith.
From VRP Require Import Base.Tac Base.TotalCmp Model.SlotQ Model.Reward.
Local Open Scope Z_scope.

Inductive sstate := BestKnown | Diverse.

Definition sstate_eqb (a b : sstate) : bool :=
  match a, b with BestKnown, BestKnown | Diverse, Diverse => true | _, _ => false end.

(* ---------------- Remedian<usize> (values, counts and weights as Z) ---------------- *)
Record remedian := mkRem { rm_base : nat; rm_exp : nat; rm_bufs : list (list Z); rm_count : Z; rm_full : bool }.

Definition rem_new (base exponent : nat) : remedian := mkRem base exponent (repeat [] exponent) 0 false.

Fixpoint zinsert (x : Z) (l : list Z) : list Z :=
  match l with
  | [] => [x]
  | y :: r => if x <? y then x :: l else y :: zinsert x r      (* stable: after the equal ones *)
  end.
Definition zsort (l : list Z) : list Z := fold_left (fun acc x => zinsert x acc) l [].

Fixpoint set_at {A} (l : list A) (i : nat) (x : A) : list A :=
  match l, i with
  | [], _ => []
  | _ :: r, O => x :: r
  | y :: r, S j => y :: set_at r j x
  end.

(* the try_for_each over 0..exponent of add_observation, started at buffer i; fuel = number of buffers left *)
Fixpoint rem_cascade (fuel i base exponent : nat) (bufs : list (list Z)) (full : bool) : list (list Z) * bool :=
  match fuel with
  | O => (bufs, full)
  | S f =>
      let batch := nth i bufs [] in
      if Nat.eqb (length batch) base then
        let sorted := zsort batch in
        if negb (Nat.eqb i (exponent - 1)) then
          let median := nth (base / 2) sorted 0 in
          let bufs1 := set_at bufs i [] in
          let bufs2 := set_at bufs1 (S i) (nth (S i) bufs1 [] ++ [median]) in
          rem_cascade f (S i) base exponent bufs2 full
        else rem_cascade f (S i) base exponent (set_at bufs i sorted) true
      else (bufs, full)
  end.

(* add_observation (the returned bool is not used by the tracker) *)
Definition rem_add (r : remedian) (v : Z) : remedian :=
  if rm_full r then r
  else
    let bufs := set_at (rm_bufs r) 0 (nth 0 (rm_bufs r) [] ++ [v]) in
    let (bufs', full') := rem_cascade (rm_exp r) 0 (rm_base r) (rm_exp r) bufs false in
    mkRem (rm_base r) (rm_exp r) bufs' (rm_count r + 1) full'.

Fixpoint pinsert (x : Z * Z) (l : list (Z * Z)) : list (Z * Z) :=
  match l with
  | [] => [x]
  | y :: r => if fst x <? fst y then x :: l else y :: pinsert x r
  end.
Definition psort (l : list (Z * Z)) : list (Z * Z) := fold_left (fun acc x => pinsert x acc) l [].

Fixpoint rem_weighted (bufs : list (list Z)) (base : Z) (w : Z) : list (Z * Z) :=
  match bufs with
  | [] => []
  | b :: rest => map (fun m => (m, w)) b ++ rem_weighted rest base (w * base)
  end.

(* try_fold(0, |running, (m, w)| if running + w >= half { Break(m) } else { Continue(running + w) }) *)
Fixpoint rem_scan (l : list (Z * Z)) (running half : Z) : option Z :=
  match l with
  | [] => None
  | (m, w) :: rest => if half <=? running + w then Some m else rem_scan rest (running + w) half
  end.

Definition rem_median (r : remedian) : option Z :=
  if rm_full r then Some (nth (rm_base r / 2) (nth (rm_exp r - 1) (rm_bufs r) []) 0)
  else rem_scan (psort (rem_weighted (rm_bufs r) (Z.of_nat (rm_base r)) 1)) 0 (rm_count r / 2).

(* ---------------- the generic machine: S = slot state, R = reward ---------------- *)
Section Generic.
  Context {S R : Type}.
  Variable snew : S.                    (* SlotMachine::new(1., action, sampler) *)
  Variable supd : S -> R -> S.          (* SlotMachine::update *)

  (* SearchFeedback + SearchSample: transition (from, to), slot index, reward, duration in ms *)
  Record feedback := mkFb { fb_from : sstate; fb_to : sstate; fb_idx : nat; fb_reward : R; fb_duration : Z }.

  Record sel := mkSel { sel_best : list S; sel_div : list S; sel_med : remedian }.

  Definition sel_new (nops : nat) : sel := mkSel (repeat snew nops) (repeat snew nops) (rem_new 11 7).

  Definition sel_row (st : sstate) (s : sel) : list S :=
    match st with BestKnown => sel_best s | Diverse => sel_div s end.

  Definition sel_set_row (st : sstate) (s : sel) (row : list S) : sel :=
    match st with
    | BestKnown => mkSel row (sel_div s) (sel_med s)
    | Diverse => mkSel (sel_best s) row (sel_med s)
    end.

  (* slots.iter().map(|(slot, _)| slot.sample()): one sampler output per slot of the row, in slot order; xs = what the sampler
     returned (total_cmp keys); a stream that is too short is padded with the key of +0.0 *)
  Definition sel_sample_keys (row : list S) (xs : list Z) : list Z := map (fun k => nth k xs 0) (seq 0 (length row)).

  (* random_argmax(..).and_then(|idx| slots.get(idx)..).expect("cannot get slot machine"): None = the expect panics *)
  Definition sel_select (s : sel) (from : sstate) (xs : list Z) (ties : list bool) : option nat :=
    let row := sel_row from s in
    match random_argmax ties (sel_sample_keys row xs) with
    | Some i => if Nat.ltb i (length row) then Some i else None
    | None => None
    end.

  (* SearchAgent::update: None = slots[feedback.slot_idx] out of bounds *)
  Definition sel_update (s : sel) (fb : feedback) : option sel :=
    let row := sel_row (fb_from fb) s in
    match nth_error row (fb_idx fb) with
    | None => None
    | Some slot =>
        let s1 := sel_set_row (fb_from fb) s (set_at row (fb_idx fb) (supd slot (fb_reward fb))) in
        Some (mkSel (sel_best s1) (sel_div s1) (rem_add (sel_med s1) (fb_duration fb)))
    end.

  (* E = what is constant during one call of search / search_many (best known, statistics), O = one operator outcome
     (solution handed in, solution returned, measured duration); from_of = the state SearchAgent::search derives from the
     solution handed in; take = SearchAction::take given the median approximation, the from-state and the chosen index *)
  Context {E O : Type}.
  Variable from_of : E -> O -> sstate.
  Variable take : E -> option Z -> sstate -> nat -> O -> feedback.

  Record pick := mkPick { pk_xs : list Z; pk_ties : list bool }.

  Definition sel_search (s : sel) (e : E) (o : O) (p : pick) : option feedback :=
    let from := from_of e o in
    match sel_select s from (pk_xs p) (pk_ties p) with
    | None => None
    | Some idx => Some (take e (rem_median (sel_med s)) from idx o)
    end.

  Fixpoint sel_searches (s : sel) (e : E) (jobs : list (O * pick)) : option (list feedback) :=
    match jobs with
    | [] => Some []
    | (o, p) :: rest =>
        match sel_search s e o p with
        | None => None
        | Some fb => match sel_searches s e rest with None => None | Some fbs => Some (fb :: fbs) end
        end
    end.

  Fixpoint sel_updates (s : sel) (fbs : list feedback) : option sel :=
    match fbs with
    | [] => Some s
    | fb :: rest => match sel_update s fb with None => None | Some s' => sel_updates s' rest end
    end.

  (* DynamicSelective::search (one job) / search_many (the jobs of one generation) *)
  Definition sel_round (s : sel) (e : E) (jobs : list (O * pick)) : option (sel * list feedback) :=
    match sel_searches s e jobs with
    | None => None
    | Some fbs => match sel_updates s fbs with None => None | Some s' => Some (s', fbs) end
    end.

  (* a whole history; the feedbacks of all rounds in update order *)
  Fixpoint sel_run (s : sel) (rounds : list (E * list (O * pick))) : option (sel * list feedback) :=
    match rounds with
    | [] => Some (s, [])
    | (e, jobs) :: rest =>
        match sel_round s e jobs with
        | None => None
        | Some (s', fbs) =>
            match sel_run s' rest with None => None | Some (s'', fbs') => Some (s'', fbs ++ fbs') end
        end
    end.

  (* specification helper: the rewards routed to slot k of row st, in order *)
  Definition routed (st : sstate) (k : nat) (fbs : list feedback) : list R :=
    map fb_reward (filter (fun fb => sstate_eqb (fb_from fb) st && Nat.eqb (fb_idx fb) k) fbs).
End Generic.

Arguments feedback : clear implicits.
Arguments sel : clear implicits.

(* compare_to_best: ranked().next().map(|best| total_order(solution, best)).unwrap_or(Less) *)
Definition cmp_to_best {F : Type} (ord : F -> F -> comparison) (best : option F) (sol : F) : comparison :=
  match best with Some b => ord sol b | None => Lt end.

(* SearchAgent::search: matches!(compare_to_best(..), Equal) -> BestKnown, else Diverse *)
Definition from_of_order (c : comparison) : sstate := match c with Eq => BestKnown | _ => Diverse end.
(* SearchAction::take: is_new_best = compare_to_best(new) == Less *)
Definition to_of_order (c : comparison) : sstate := match c with Lt => BestKnown | _ => Diverse end.

(* ---------------- exact-arithmetic instance (slots of Model/SlotQ.v, rewards of Model/Reward.v) ---------------- *)
Section QInstance.
  Variable ord : list Q -> list Q -> comparison.       (* HeuristicObjective::total_order on fitness vectors: any function *)

  Record qenv := mkQenv { qe_best : option (list Q); qe_ratio : Q }.
  Record qoutcome := mkQout { qo_init : list Q; qo_new : list Q; qo_duration : Z }.

  Definition q_from_of (e : qenv) (o : qoutcome) : sstate := from_of_order (cmp_to_best ord (qe_best e) (qo_init o)).

  Definition q_reward (e : qenv) (median : option Z) (o : qoutcome) : Q :=
    let o_nb := cmp_to_best ord (qe_best e) (qo_new o) in
    let is_new_best := match o_nb with Lt => true | _ => false end in
    (distance_reward (qe_best e) (ord (qo_new o) (qo_init o)) o_nb (qo_new o) (qo_init o)
    * perf_multiplier (qe_ratio e) (option_map Z.to_nat median) (Z.to_nat (qo_duration o)) is_new_best)%Q.

  Definition q_take (e : qenv) (median : option Z) (from : sstate) (idx : nat) (o : qoutcome) : feedback Q :=
    mkFb from (to_of_order (cmp_to_best ord (qe_best e) (qo_new o))) idx (q_reward e median o) (qo_duration o).

  Definition qsel_new (nops : nat) : sel slot := sel_new (slot_new 1) nops.
  Definition qsel_run (nops : nat) (rounds : list (qenv * list (qoutcome * pick))) : option (sel slot * list (feedback Q)) :=
    sel_run slot_update q_from_of q_take (qsel_new nops) rounds.
End QInstance.
