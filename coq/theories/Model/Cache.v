(* C05: cached tour state and the stale-flag protocol that keeps it equal to recomputation.
   Rust items modelled (vrp-core/src):
     construction/heuristics/context.rs        :: RouteContext::{route_mut, state_mut, as_mut, is_stale, mark_stale}, RouteState::clear
     construction/enablers/feature_combinator.rs :: accept_insertion_with_states, accept_route_state_with_states,
                                                  accept_solution_state_with_states (single pass: no conditional jobs, so the
                                                  re-run loop terminates after the first round; then the final "unset all")
     models/goal.rs                             :: GoalContext::{accept_insertion, accept_route_state, accept_solution_state}
     the FeatureState impls (which handler recomputes which cached field) - the table `shipped`:
       features/transport.rs   TransportState      insertion: always      route: yes   solution: stale tours only
       enablers/multi_trip.rs  MultiTripState      insertion: always      route: yes   solution: stale tours only   (capacity)
       features/compatibility.rs CompatibilityState insertion: tagged job  route: yes   solution: stale tours only (NEVER before b397f8a)
       features/groups.rs      GroupState          insertion: tagged job  route: no    solution: every tour
       features/tour_order.rs  TourOrderState      (solution-level aggregate only; see `sol_recompute`)
   Part 1 is the protocol over abstract tours and feature descriptors; part 2 is the concrete recomputation of every cached
   field from a dumped tour (Core.v functions), which the correspondence compares with RouteState::verif_digest().
   No proofs in this file. *)
From VRP Require Import Base.Tac Model.Core Spec.Feasible Model.Eval Spec.Inv.

(* ================= part 1: the protocol ================= *)
Section Protocol.
Variable tour : Type.
Variable job : Type.
Variable value : Type.

Inductive on_solution := SolNever | SolStale | SolAlways.

(* one cached field per descriptor *)
Record feature := mkFeature {
  f_key : nat;
  f_compute : tour -> option value;          (* the field as a function of the bare tour *)
  f_on_insertion : job -> bool;              (* accept_insertion refreshes the field for this job *)
  f_on_route : bool;                         (* accept_route_state refreshes the field *)
  f_on_solution : on_solution                (* accept_solution_state refreshes it: never / stale tours / all tours *)
}.

Record rctx := mkRctx { rc_tour : tour; rc_state : nat -> option value; rc_stale : bool }.

Definition set_key (st : nat -> option value) (k : nat) (v : option value) : nat -> option value :=
  fun k' => if Nat.eqb k' k then v else st k'.
Definition refresh (f : feature) (r : rctx) : rctx :=       (* a handler writing its field: state_mut() marks stale *)
  mkRctx (rc_tour r) (set_key (rc_state r) (f_key f) (f_compute f (rc_tour r))) true.

(* route_mut() / as_mut(): any change of the tour marks the context stale *)
Definition route_mut (g : tour -> tour) (r : rctx) : rctx := mkRctx (g (rc_tour r)) (rc_state r) true.
Definition state_mut (r : rctx) : rctx := mkRctx (rc_tour r) (rc_state r) true.

(* accept_route_state_with_states *)
Definition accept_route_state (fs : list feature) (r : rctx) : rctx :=
  if rc_stale r then
    let cleared := mkRctx (rc_tour r) (fun _ => None) true in
    let r' := fold_left (fun acc f => if f_on_route f then refresh f acc else acc) fs cleared in
    mkRctx (rc_tour r') (rc_state r') false
  else r.

(* accept_insertion_with_states on the route that received job j (no clear, the flag stays set) *)
Definition accept_insertion (fs : list feature) (j : job) (r : rctx) : rctx :=
  fold_left (fun acc f => if f_on_insertion f j then refresh f acc else acc) fs r.

(* apply_insertion_success: tour.insert_at through route_mut, then accept_insertion *)
Definition apply_insertion (fs : list feature) (ins : job -> tour -> tour) (j : job) (r : rctx) : rctx :=
  accept_insertion fs j (route_mut (ins j) r).

(* accept_solution_state_with_states: every feature's handler over the routes, then "unset all" *)
Definition sol_handler (f : feature) (r : rctx) : rctx :=
  match f_on_solution f with
  | SolNever => r
  | SolStale => if rc_stale r then refresh f r else r
  | SolAlways => refresh f r
  end.
Definition accept_solution_state (fs : list feature) (rs : list rctx) : list rctx :=
  map (fun r => let r' := fold_left (fun acc f => sol_handler f acc) fs r in
                mkRctx (rc_tour r') (rc_state r') false) rs.

(* "discard the caches and recompute from the tour alone": empty cache, route-level handlers, solution-level handlers *)
Definition caching (f : feature) : bool :=
  f_on_route f || match f_on_solution f with SolNever => false | _ => true end.
Definition recompute (fs : list feature) (t : tour) : nat -> option value :=
  fun k => match find (fun f => Nat.eqb (f_key f) k && caching f) fs with
           | Some f => f_compute f t
           | None => None
           end.

(* side condition of the handover theorem: the protocol's last word (accept_solution_state) refreshes the field of a stale tour *)
Definition refreshes_on_handover (f : feature) : bool :=
  match f_on_solution f with SolNever => false | SolStale => f_on_route f | SolAlways => true end.

Definition keys_distinct (fs : list feature) : Prop := NoDup (map f_key fs).
End Protocol.

Arguments mkFeature {tour job value}.
Arguments mkRctx {tour value}.
Arguments rc_tour {tour value}.
Arguments rc_state {tour value}.
Arguments rc_stale {tour value}.
Arguments f_key {tour job value}.
Arguments f_compute {tour job value}.
Arguments f_on_insertion {tour job value}.
Arguments f_on_route {tour job value}.
Arguments f_on_solution {tour job value}.

(* ---------------- the shipped table, over tours of tagged jobs ---------------- *)
(* a job: id, compatibility tag, group tag (0 = none); a tour: the jobs in visiting order *)
Definition tjob := (Z * Z * Z)%type.
Definition tj_compat (j : tjob) : Z := snd (fst j).
Definition tj_group (j : tjob) : Z := snd j.
Inductive cval := CSched (jobs : list Z) | CLoad (jobs : list Z) | CCompat (c : Z) | CGroups (gs : list Z).

Definition first_compat (t : list tjob) : option cval :=
  match filter (fun c => negb (c =? 0)) (map tj_compat t) with c :: _ => Some (CCompat c) | [] => None end.
Definition groups_set (t : list tjob) : option cval :=
  Some (CGroups (nodup Z.eq_dec (filter (fun g => negb (g =? 0)) (map tj_group t)))).

(* the table of one feature set: `compat_sol` is what CompatibilityState::accept_solution_state does *)
Definition table (compat_sol : on_solution) : list (feature (list tjob) tjob cval) :=
  [ mkFeature 0%nat (fun t => Some (CSched (map (fun j => fst (fst j)) t))) (fun _ => true) true SolStale     (* transport *)
  ; mkFeature 1%nat (fun t => Some (CLoad (map (fun j => fst (fst j)) t))) (fun _ => true) true SolStale      (* capacity *)
  ; mkFeature 2%nat first_compat (fun j => negb (tj_compat j =? 0)) true compat_sol                         (* compatibility *)
  ; mkFeature 3%nat groups_set (fun j => negb (tj_group j =? 0)) false SolAlways ].                         (* groups *)
(* the code as it is (since /repo b397f8a compatibility refreshes the stale tours, like transport) *)
Definition shipped := table SolStale.
(* the code before b397f8a: CompatibilityState::accept_solution_state had an empty body (finding C05-F1, mutant C05-6) *)
Definition shipped_before_b397f8a := table SolNever.

Definition remove_tjob (id : Z) (t : list tjob) : list tjob := filter (fun j => negb (fst (fst j) =? id)) t.

(* ================= part 2: concrete recomputation from a dumped tour ================= *)
Section Concrete.
Variable P : pworld.

(* waiting_time states as the code stores them (entry 0 for the start; the end activity's entry popped) *)
Definition waiting_states (t : list act) : list Z :=
  map (fun s => match s with a :: _ => if is_terminal a then 0 else waiting_of s | [] => 0 end)
      (filter (fun s => match s with [a] => negb (is_terminal a) | a :: _ => true | [] => false end) (suffixes t)).

Definition compat_tag (r : rdump) : Z := match compats P r with c :: _ => c | [] => 0 end.
Definition group_tags (r : rdump) : list Z :=
  nodup Z.eq_dec (filter (fun g => negb (g =? 0))
                         (map (fun j => match find_job P j with Some s => j_group s | None => 0 end) (job_ids r))).

(* every cached quantity of one tour, from the tour alone (the start departure is an input) *)
Definition recompute_route (r : rdump) :=
  let t := reschedule (pdur P) (tour_of r) in
  (r_actor r, sched_out t,
   (latest_states (pdur P) t, waiting_states t, [total_distance (pdist P) t; total_duration t]),
   (cur_states t, past_states t, fut_states t, Z.max 0 (hd 0 (fut_states t))),
   (compat_tag r, group_tags r)).

Definition run_recompute (ds : list dump) := map (fun d => map recompute_route (d_routes d)) ds.
End Concrete.
