(* C11 (b) — model of matching a written solution activity back to a job / place of the problem.
   No proofs here (Proofs/InitReaderP.v).

   Rust items modelled (vrp-pragmatic/src/format/solution/activity_matcher.rs):
     get_job_tag            -> get_job_tag     (first tagged place, in tag order, whose location fits and one of whose
                                                time spans intersects the given window; also used by the WRITER,
                                                solution_writer.rs :: create_tour, with the window the solver used)
     match_place            -> match_place     (id / tag test, FIRST place that fits, then its LATEST fitting window)
     try_match_point_job    -> try_match_job   (customer-job branch: single job, or multi job = first sub-job that matches,
                                                refused when the sub-jobs carry fewer distinct tags than there are sub-jobs)
     try_match_point_job    -> try_match_point_job  (whole dispatch on the activity type: departure / arrival -> no job,
                                                customer types -> job index lookup + try_match_job with the three error
                                                exits, "break" | "reload" | "recharge" -> the conditional jobs
                                                "<vehicle>_<type>_<shift>_<idx>", idx = 1, 2, .. while the index knows the
                                                id (`take_while`), singles only, FIRST one match_place accepts with
                                                is_job_activity = false (tag test, id test skipped); unknown type -> error)
   vrp-core/src/models/common/domain.rs :: TimeWindow::intersects (inclusive on both ends),
     TimeSpan::to_time_window (Window: as is; Offset: [date + start, date + end]),
     TimeSpan::intersects   -> span_intersects  (`self.to_time_window(date).intersects(other)`, for BOTH span kinds)
   vrp-pragmatic/src/format/solution/initial_reader.rs:
     try_insert_activity    -> read_acts       (commute / transit refused, `added_jobs` with the double-assignment guard for
                                                single jobs, the matched place appended in document order with the
                                                activity's time as schedule)
     read_init_solution     -> read_init       (actor lookup by (vehicle id, type id, shift index), tours in order sharing
                                                `added_jobs`, listed unassigned jobs (unknown id / no reason -> error), then
                                                every job of the problem that was not added is unassigned)
   vrp-pragmatic/src/format/problem/job_reader.rs :: read_optional_breaks / read_specific_job_places only as far as they
     name the conditional jobs (vjob_id); the singles themselves are inputs (built by the plugin from the problem).
   solution_writer.rs :: create_tour only as far as it decides type / job id / tag / time of a written activity (write_act).
   Times are integer seconds (generated problems use integer matrices / durations; format_time truncates to seconds);
   an open window end (f64::MAX) is None.  Locations are matrix indices; a place without location (break) is None.
   Jobs are identified by their job-index key (Rust: Arc pointer identity of the indexed job).
   Not modelled: commute data, create_core_route (start / end schedule), Registry, coord-index failures.
   run_match / run_read_init are the entry points of the correspondence. *)
From Coq Require Import DecimalString Decimal.
From VRP Require Import Base.Tac Base.Json.
Open Scope string_scope.

Definition win := (Z * option Z)%type.
Inductive span := SWindow (s : Z) (e : option Z) | SOffset (s e : Z).
Record place := mk_place { p_loc : option Z; p_dur : Z; p_times : list span }.
Record single := mk_single { s_id : string; s_places : list place; s_tags : list (nat * string) }.
Record actx := mk_actx { c_start : Z; c_loc : Z; c_time : Z * Z; c_job_id : string; c_tag : option string }.

Definition le_zo (x : Z) (y : option Z) : bool := match y with Some y => Z.leb x y | None => true end.
Definition intersects (a b : win) : bool := le_zo (fst a) (snd b) && le_zo (fst b) (snd a).
Definition to_window (start : Z) (sp : span) : win :=
  match sp with SWindow s e => (s, e) | SOffset s e => (start + s, Some (start + e)) end.

(* TimeSpan::intersects(date, other) = self.to_time_window(date).intersects(other): inclusive for windows and offsets *)
Definition span_intersects (start : Z) (sp : span) (w : win) : bool := intersects (to_window start sp) w.

Definition loc_ok (p : place) (loc : Z) : bool := match p_loc p with None => true | Some l => Z.eqb l loc end.
(* a place fits an activity: location and some time span (get_job_tag spells the test `to_time_window(..).intersects(..)`,
   match_place `TimeSpan::intersects(..)`: the same composition) *)
Definition accepts (p : place) (loc start : Z) (w : win) : bool :=
  loc_ok p loc && existsb (fun sp => span_intersects start sp w) (p_times p).

Definition get_job_tag (s : single) (loc : Z) (w : win) (start : Z) : option string :=
  option_map snd
    (find (fun it => match nth_error (s_places s) (fst it) with
                     | Some p => accepts p loc start w
                     | None => false      (* `expect("invalid tag place index")`: indices come from enumerate() *)
                     end) (s_tags s)).

Fixpoint find_idx {A} (f : A -> bool) (l : list A) (n : nat) : option (nat * A) :=
  match l with
  | [] => None
  | a :: r => if f a then Some (n, a) else find_idx f r (S n)
  end.
Fixpoint rfind {A} (f : A -> bool) (l : list A) : option A :=
  match l with
  | [] => None
  | a :: r => match rfind f r with Some x => Some x | None => if f a then Some a else None end
  end.

Definition act_win (c : actx) : win := (fst (c_time c), Some (snd (c_time c))).

Definition same_tags (a b : option string) : bool :=
  match a, b with Some x, Some y => String.eqb x y | None, None => true | _, _ => false end.

(* result: place index, location, duration, time window of the reconstructed activity *)
Definition match_place (s : single) (is_job : bool) (c : actx) : option (nat * Z * Z * win) :=
  let tag := get_job_tag s (c_loc c) (act_win c) (c_start c) in
  let ids := String.eqb (c_job_id c) (s_id s) in
  if same_tags tag (c_tag c) && (ids || negb is_job) then
    match find_idx (fun p => accepts p (c_loc c) (c_start c) (act_win c)) (s_places s) 0%nat with
    | Some (idx, p) =>
        match rfind (fun sp => span_intersects (c_start c) sp (act_win c)) (p_times p) with
        | Some (SWindow ws we) => Some (idx, c_loc c, p_dur p, (ws, we))
        | Some (SOffset _ _) => Some (idx, c_loc c, p_dur p, (snd (c_time c) - p_dur p, Some (snd (c_time c))))
        | None => None        (* `.unwrap()` after a successful `any`: unreachable *)
        end
    | None => None
    end
  else None.

Fixpoint dedup_s (l : list string) : list string :=
  match l with [] => [] | a :: r => a :: filter (fun b => negb (String.eqb b a)) (dedup_s r) end.

Fixpoint first_match (ss : list single) (c : actx) (n : nat) : option (nat * (nat * Z * Z * win)) :=
  match ss with
  | [] => None
  | s :: r => match match_place s true c with Some m => Some (n, m) | None => first_match r c (S n) end
  end.

Inductive job := JSingle (s : single) | JMulti (ss : list single).

(* None = Err(..) *)
Definition try_match_job (j : job) (c : actx) : option (nat * (nat * Z * Z * win)) :=
  match j with
  | JSingle s => first_match [s] c 0%nat
  | JMulti ss =>
      let tags := dedup_s (flat_map (fun s => map snd (s_tags s)) ss) in
      if Nat.ltb (List.length tags) (List.length ss) then None else first_match ss c 0%nat
  end.

(* what the writer puts on an activity served at place i within window w, service interval (ts, te) *)
Definition written_actx (s : single) (start loc : Z) (w : win) (ts te : Z) : actx :=
  mk_actx start loc (ts, te) (s_id s) (get_job_tag s loc w start).

Definition run_match (multi : bool) (ss : list single) (c : actx) : option (nat * (nat * Z * Z * win)) :=
  try_match_job (if multi then JMulti ss else match ss with s :: _ => JSingle s | [] => JMulti [] end) c.


(* ------------------------------------------------------------------------------------------------------------
   vehicle-specific activities (break / reload / recharge), the dispatch of try_match_point_job, read_init_solution *)
Definition dec_nat (n : nat) : string := NilEmpty.string_of_uint (Nat.to_uint n).
(* job_reader.rs: format!("{vehicle_id}_{job_type}_{shift_index}_{idx}"), the matcher builds the same string *)
Definition vjob_id (vid ty : string) (shift idx : nat) : string :=
  vid ++ "_" ++ ty ++ "_" ++ dec_nat shift ++ "_" ++ dec_nat idx.

Definition job_index := list (string * job).
Fixpoint lookup (ix : job_index) (k : string) : option job :=
  match ix with [] => None | (k', j) :: r => if String.eqb k k' then Some j else lookup r k end.

(* (1..).map(id).map(get).take_while(is_some).filter_map(as_single); fuel: the index has finitely many keys *)
Fixpoint vcands (ix : job_index) (vid ty : string) (shift idx fuel : nat) : list (string * single) :=
  match fuel with
  | O => []
  | S f => match lookup ix (vjob_id vid ty shift idx) with
           | None => []
           | Some (JSingle s) => (vjob_id vid ty shift idx, s) :: vcands ix vid ty shift (S idx) f
           | Some (JMulti _) => vcands ix vid ty shift (S idx) f
           end
  end.
Fixpoint first_vmatch (cs : list (string * single)) (c : actx) : option (string * (nat * Z * Z * win)) :=
  match cs with
  | [] => None
  | (k, s) :: r => match match_place s false c with Some m => Some (k, m) | None => first_vmatch r c end
  end.
Definition try_match_vehicle_job (ix : job_index) (vid ty : string) (shift : nat) (c : actx) :=
  first_vmatch (vcands ix vid ty shift 1%nat (S (List.length ix))) c.

(* a written activity as the reader sees it: type, has a commute, sits on a transit stop, resolved context
   (location = activity.location or the stop's, time = activity.time or the stop's schedule) *)
Record wact := mk_wact { w_type : string; w_commute : bool; w_transit : bool; w_ctx : actx }.
Inductive rerr := ECommute | ETransit | EUnknownJob | EMultiTags | ECannotMatchJob | ECannotMatchVehicle | EUnknownType
                | EDouble | ENoVehicle | EUnknownUnassigned | ENoReason.
(* Ok(None) | Ok(Some(JobInfo)): index key, is it a Job::Single, sub-job position, reconstructed place *)
Inductive minfo := MNone | MJob (key : string) (is_single : bool) (sub : nat) (m : nat * Z * Z * win).

Definition str_in (x : string) (l : list string) : bool := existsb (String.eqb x) l.
Definition is_terminal (ty : string) : bool := str_in ty ["departure"; "arrival"].
Definition is_customer (ty : string) : bool := str_in ty ["pickup"; "delivery"; "replacement"; "service"].
Definition is_vehicle_specific (ty : string) : bool := str_in ty ["break"; "reload"; "recharge"].

Definition try_match_point_job (ix : job_index) (vid : string) (shift : nat) (a : wact) : rerr + minfo :=
  let c := w_ctx a in
  let ty := w_type a in
  if is_terminal ty then inr MNone
  else if is_customer ty then
    match lookup ix (c_job_id c) with
    | None => inl EUnknownJob
    | Some (JSingle s) =>
        match first_match [s] c 0%nat with
        | Some (k, m) => inr (MJob (c_job_id c) true k m)
        | None => inl ECannotMatchJob
        end
    | Some (JMulti ss) =>
        let tags := dedup_s (flat_map (fun s => map snd (s_tags s)) ss) in
        if Nat.ltb (List.length tags) (List.length ss) then inl EMultiTags
        else match first_match ss c 0%nat with
             | Some (k, m) => inr (MJob (c_job_id c) false k m)
             | None => inl ECannotMatchJob
             end
    end
  else if is_vehicle_specific ty then
    match try_match_vehicle_job ix vid ty shift c with
    | Some (k, m) => inr (MJob k true 0%nat m)
    | None => inl ECannotMatchVehicle
    end
  else inl EUnknownType.

(* a reconstructed activity: job key, sub-job, place index, location, duration, time window, schedule *)
Record ract := mk_ract { r_key : string; r_sub : nat; r_place : nat; r_loc : Z; r_dur : Z; r_tw : win; r_arr : Z; r_dep : Z }.
Definition ract_of (key : string) (sub : nat) (m : nat * Z * Z * win) (tm : Z * Z) : ract :=
  match m with (i, l, d, w) => mk_ract key sub i l d w (fst tm) (snd tm) end.

(* try_insert_activity over the activities of one tour, `added` = added_jobs *)
Fixpoint read_acts (ix : job_index) (vid : string) (shift : nat) (acts : list wact) (added : list string)
  : rerr + (list ract * list string) :=
  match acts with
  | [] => inr ([], added)
  | a :: rest =>
      if w_commute a then inl ECommute
      else if w_transit a then inl ETransit
      else match try_match_point_job ix vid shift a with
           | inl e => inl e
           | inr MNone => read_acts ix vid shift rest added
           | inr (MJob key sg sub m) =>
               if sg && str_in key added then inl EDouble
               else match read_acts ix vid shift rest (key :: added) with
                    | inl e => inl e
                    | inr (rs, added') => inr (ract_of key sub m (c_time (w_ctx a)) :: rs, added')
                    end
           end
  end.

Record wtour := mk_wtour { t_vid : string; t_type : string; t_shift : nat; t_acts : list wact }.
Definition actor_key := (string * string * nat)%type.
Definition actor_eqb (a b : actor_key) : bool :=
  match a, b with (v1, t1, s1), (v2, t2, s2) => String.eqb v1 v2 && String.eqb t1 t2 && Nat.eqb s1 s2 end.

Fixpoint read_tours (ix : job_index) (actors : list actor_key) (tours : list wtour) (added : list string)
  : rerr + (list (actor_key * list ract) * list string) :=
  match tours with
  | [] => inr ([], added)
  | t :: rest =>
      let key := (t_vid t, t_type t, t_shift t) in
      if negb (existsb (actor_eqb key) actors) then inl ENoVehicle
      else match read_acts ix (t_vid t) (t_shift t) (t_acts t) added with
           | inl e => inl e
           | inr (rs, added') =>
               match read_tours ix actors rest added' with
               | inl e => inl e
               | inr (routes, added'') => inr ((key, rs) :: routes, added'')
               end
           end
  end.

(* the listed unassigned jobs: (job id, has at least one reason) *)
Fixpoint read_unassigned (ix : job_index) (us : list (string * bool)) (added : list string) : rerr + (list string * list string) :=
  match us with
  | [] => inr ([], added)
  | (k, has_reason) :: rest =>
      match lookup ix k with
      | None => inl EUnknownUnassigned
      | Some _ =>
          if negb has_reason then inl ENoReason
          else match read_unassigned ix rest (k :: added) with
               | inl e => inl e
               | inr (l, added') => inr (k :: l, added')
               end
      end
  end.

Inductive rres := RErr (e : rerr) | ROk (routes : list (actor_key * list ract)) (unassigned : list string).
(* all_jobs = problem.jobs.all() as index keys *)
Definition read_init (ix : job_index) (actors : list actor_key) (all_jobs : list string)
                     (tours : list wtour) (us : list (string * bool)) : rres :=
  match read_tours ix actors tours [] with
  | inl e => RErr e
  | inr (routes, added) =>
      match read_unassigned ix us added with
      | inl e => RErr e
      | inr (listed, added') => ROk routes (listed ++ filter (fun k => negb (str_in k added')) all_jobs)
      end
  end.

(* ---- the writer's side: what create_tour puts on the activity of a job served by the solver ----
   sact = an activity of the solver's tour: index key of its job, Some type for a vehicle-specific job (the written job id is
   then the type), activity type, sub-job position, the single, the location, the time window the solver used
   (place.time = span.to_time_window(departure of the tour)), arrival, duration.
   service start = max(arrival, window start), service end = start + duration (no parking / commute). *)
Record sact := mk_sact { sa_key : string; sa_vtype : option string; sa_type : string; sa_sub : nat; sa_single : single;
                         sa_loc : Z; sa_win : win; sa_arr : Z; sa_dur : Z }.
Definition sa_ts (a : sact) : Z := Z.max (sa_arr a) (fst (sa_win a)).
Definition sa_te (a : sact) : Z := sa_ts a + sa_dur a.
(* wstart: the departure create_tour hands to get_job_tag; rstart: the route start the READER derives from the document *)
Definition write_act (wstart rstart : Z) (a : sact) : wact :=
  mk_wact (sa_type a) false false
          (mk_actx rstart (sa_loc a) (sa_ts a, sa_te a)
                   (match sa_vtype a with Some ty => ty | None => sa_key a end)
                   (get_job_tag (sa_single a) (sa_loc a) (sa_win a) wstart)).
(* create_tour walks the tour by reload intervals (get_route_intervals: a reload OPENS an interval) and looks tags up with
   `start.schedule.departure`, start = the tour's start for the first interval, the activity BEFORE the reload afterwards *)
Definition is_reload (a : sact) : bool := String.eqb (sa_type a) "reload".
Fixpoint write_acts (rstart wstart prev_dep : Z) (sas : list sact) : list wact :=
  match sas with
  | [] => []
  | a :: r => let ws := if is_reload a then prev_dep else wstart in
              write_act ws rstart a :: write_acts rstart ws (sa_te a) r
  end.
(* activities at the start location that directly follow the departure are merged into the departure stop and move its
   `departure`; get_route_start_time (activity_matcher.rs) reads the route start from that field *)
Fixpoint doc_route_start (cur start_loc : Z) (sas : list sact) : Z :=
  match sas with
  | a :: r => if Z.eqb (sa_loc a) start_loc then doc_route_start (sa_te a) start_loc r else cur
  | [] => cur
  end.
Definition write_tour (start start_loc : Z) (sas : list sact) : list wact :=
  write_acts (doc_route_start start start_loc sas) start start sas.

(* ---- specification vocabulary of the round-trip theorems (Properties/C11.v) ----
   what the reader should reconstruct for a solver activity: its own sub-job / place; the window itself for a time-window
   span, the service interval for an offset span (match_place); the service interval as schedule *)
Definition is_offset (sp : span) : bool := match sp with SOffset _ _ => true | SWindow _ _ => false end.
Definition no_offsets (s : single) : bool := forallb (fun p => forallb (fun sp => negb (is_offset sp)) (p_times p)) (s_places s).
Definition rebuilt_win (sp : span) (te dur : Z) : win :=
  match sp with SWindow ws we => (ws, we) | SOffset _ _ => (te - dur, Some te) end.
Definition expected_place (a : sact) (i : nat) (sp : span) : nat * Z * Z * win :=
  (i, sa_loc a, sa_dur a, rebuilt_win sp (sa_te a) (sa_dur a)).
Definition expected_ract (a : sact) (i : nat) (sp : span) : ract :=
  ract_of (sa_key a) (sa_sub a) (expected_place a i sp) (sa_ts a, sa_te a).

(* the solver served activity a of single s at place i (p) within span k (sp), the tour having departed at `start`:
   arrival not after the end of the window (EQUALITY ALLOWED: the last moment), no other place of the single fits the
   location at the window or at the service interval, no later span of the place touches the service interval *)
Record placed (s : single) (start : Z) (a : sact) (i : nat) (p : place) (k : nat) (sp : span) : Prop := mk_placed {
  pl_single : sa_single a = s;
  pl_place : nth_error (s_places s) i = Some p;
  pl_loc : loc_ok p (sa_loc a) = true;
  pl_dur : p_dur p = sa_dur a;
  pl_dur_nonneg : 0 <= sa_dur a;
  pl_span : nth_error (p_times p) k = Some sp;
  pl_win : sa_win a = to_window start sp;
  pl_win_ok : le_zo (fst (sa_win a)) (snd (sa_win a)) = true;
  pl_arr : le_zo (sa_arr a) (snd (sa_win a)) = true;
  pl_other_places : forall j q, j <> i -> nth_error (s_places s) j = Some q ->
      accepts q (sa_loc a) start (sa_win a) = false /\ accepts q (sa_loc a) start (sa_ts a, Some (sa_te a)) = false;
  pl_later_spans : forall k' sp', (k < k')%nat -> nth_error (p_times p) k' = Some sp' ->
      span_intersects start sp' (sa_ts a, Some (sa_te a)) = false }.

(* writer (ws) and reader (rs) count offsets from the instant the solver used, or the single has no offset span *)
Definition starts_agree (start ws rs : Z) (s : single) : Prop := (ws = start /\ rs = start) \/ no_offsets s = true.

(* activity a, written with the instants ws / rs, is told apart from every candidate the reader tries before its own job *)
Inductive well_written (ix : job_index) (vid : string) (shift : nat) (start ws rs : Z) (a : sact) (i : nat) (sp : span) : Prop :=
| ww_single (s : single) (p : place) (k : nat) :
    sa_vtype a = None -> is_customer (sa_type a) = true -> is_terminal (sa_type a) = false ->
    lookup ix (sa_key a) = Some (JSingle s) -> s_id s = sa_key a -> sa_sub a = 0%nat ->
    placed s start a i p k sp -> starts_agree start ws rs s ->
    well_written ix vid shift start ws rs a i sp
| ww_multi (ss : list single) (s : single) (p : place) (k : nat) :
    sa_vtype a = None -> is_customer (sa_type a) = true -> is_terminal (sa_type a) = false ->
    lookup ix (sa_key a) = Some (JMulti ss) ->
    (List.length ss <= List.length (dedup_s (flat_map (fun s => map snd (s_tags s)) ss)))%nat ->
    nth_error ss (sa_sub a) = Some s -> s_id s = sa_key a ->
    (forall j s', (j < sa_sub a)%nat -> nth_error ss j = Some s' -> match_place s' true (w_ctx (write_act ws rs a)) = None) ->
    placed s start a i p k sp -> starts_agree start ws rs s ->
    well_written ix vid shift start ws rs a i sp
| ww_vehicle (ty : string) (ss : list single) (s : single) (p : place) (k : nat) :
    sa_vtype a = Some ty -> sa_type a = ty -> In ty ["break"; "reload"; "recharge"] -> sa_sub a = 0%nat ->
    (forall j s', nth_error ss j = Some s' -> lookup ix (vjob_id vid ty shift (S j)) = Some (JSingle s')) ->
    nth_error ss (Nat.pred (List.length ss)) = Some s -> sa_key a = vjob_id vid ty shift (List.length ss) ->
    (forall j s', (S j < List.length ss)%nat -> nth_error ss j = Some s' -> match_place s' false (w_ctx (write_act ws rs a)) = None) ->
    placed s start a i p k sp -> starts_agree start ws rs s ->
    well_written ix vid shift start ws rs a i sp.

(* a tour whose activities are all well written, with the instants write_acts threads through the reload intervals *)
Inductive tour_ok (ix : job_index) (vid : string) (shift : nat) (start rs : Z) : Z -> Z -> list (sact * nat * span) -> Prop :=
| tok_nil ws prev : tour_ok ix vid shift start rs ws prev []
| tok_cons ws prev a i sp rest :
    well_written ix vid shift start (if is_reload a then prev else ws) rs a i sp ->
    tour_ok ix vid shift start rs (if is_reload a then prev else ws) (sa_te a) rest ->
    tour_ok ix vid shift start rs ws prev ((a, i, sp) :: rest).

(* keys of the Job::Single jobs (customer singles and the conditional jobs) served by a list of activities *)
Definition is_single_key (ix : job_index) (k : string) : bool :=
  match lookup ix k with Some (JSingle _) => true | _ => false end.

Definition item_act (it : sact * nat * span) : sact := fst (fst it).
Definition item_ract (it : sact * nat * span) : ract := expected_ract (fst (fst it)) (snd (fst it)) (snd it).
Definition tour_keys (items : list (sact * nat * span)) : list string := map (fun it => sa_key (item_act it)) items.
Definition single_keys (ix : job_index) (items : list (sact * nat * span)) : list string := filter (is_single_key ix) (tour_keys items).
(* departure / arrival activities *)
Definition terminals (l : list wact) : Prop :=
  Forall (fun a => is_terminal (w_type a) = true /\ w_commute a = false /\ w_transit a = false) l.

(* a tour of the solver: actor key, departure, start location, its job activities with the place index / span the solver
   used, and the departure / arrival activities the writer puts around them *)
Record stour := mk_stour { st_vid : string; st_type : string; st_shift : nat; st_start : Z; st_start_loc : Z;
                           st_items : list (sact * nat * span); st_pre : list wact; st_post : list wact }.
Definition st_acts (t : stour) : list sact := map item_act (st_items t).
Definition doc_tour (t : stour) : wtour :=
  mk_wtour (st_vid t) (st_type t) (st_shift t)
           (st_pre t ++ write_tour (st_start t) (st_start_loc t) (st_acts t) ++ st_post t)%list.
Definition stour_ok (ix : job_index) (actors : list actor_key) (t : stour) : Prop :=
  existsb (actor_eqb (st_vid t, st_type t, st_shift t)) actors = true /\ terminals (st_pre t) /\ terminals (st_post t) /\
  tour_ok ix (st_vid t) (st_shift t) (st_start t) (doc_route_start (st_start t) (st_start_loc t) (st_acts t))
          (st_start t) (st_start t) (st_items t).
Definition expected_route (t : stour) : actor_key * list ract := ((st_vid t, st_type t, st_shift t), map item_ract (st_items t)).
Definition all_items (tours : list stour) : list (sact * nat * span) := flat_map st_items tours.

(* correspondence entry: the job activities of a written tour as (type, job id, tag, route start, location, time) *)
Definition wact_tuple (a : wact) :=
  (w_type a, c_job_id (w_ctx a), c_tag (w_ctx a), c_start (w_ctx a), c_loc (w_ctx a), c_time (w_ctx a)).
Definition run_write_tour (start start_loc : Z) (sas : list sact) := map wact_tuple (write_tour start start_loc sas).

(* entry point of the correspondence: records flattened to tuples (key, sub, place, loc, dur, window, arrival, departure) *)
Definition ract_tuple (r : ract) := (r_key r, r_sub r, r_place r, r_loc r, r_dur r, r_tw r, r_arr r, r_dep r).
Inductive rres_t := TErr (e : rerr)
                  | TOk (routes : list (actor_key * list (string * nat * nat * Z * Z * win * Z * Z))) (unassigned : list string).
Definition run_read_init (ix : job_index) (actors : list actor_key) (all_jobs : list string)
                         (tours : list wtour) (us : list (string * bool)) : rres_t :=
  match read_init ix actors all_jobs tours us with
  | RErr e => TErr e
  | ROk routes u => TOk (map (fun kr => (fst kr, map ract_tuple (snd kr))) routes) u
  end.
