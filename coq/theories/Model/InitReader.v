(* C11 (b) — model of matching a written solution activity back to a job / place of the problem.
   No proofs here (Proofs/InitReaderP.v).

   Rust items modelled (vrp-pragmatic/src/format/solution/activity_matcher.rs):
     get_job_tag            -> get_job_tag     (first tagged place, in tag order, whose location fits and one of whose
                                                time spans intersects the given window; also used by the WRITER,
                                                solution_writer.rs :: create_tour, with the window the solver used)
     match_place            -> match_place     (id / tag test, FIRST place that fits, then its LATEST fitting window)
     try_match_point_job    -> try_match_job   (customer-job branch: single job, or multi job = first sub-job that matches,
                                                refused when the sub-jobs carry fewer distinct tags than there are sub-jobs)
   vrp-core/src/models/common/domain.rs :: TimeWindow::intersects (inclusive), TimeSpan::to_time_window
   Times are integer seconds (generated problems use integer matrices / durations; format_time truncates to seconds);
   an open window end (f64::MAX) is None.  Locations are matrix indices.
   Not modelled: break / reload / recharge activities, commute, read_init_solution's registry bookkeeping.
   run_match is the entry point of the correspondence. *)
From VRP Require Import Base.Tac Base.Json.
Open Scope string_scope.

Definition win := (Z * option Z)%type.
Inductive span := SWindow (s : Z) (e : option Z) | SOffset (s e : Z).
Record place := mk_place { p_loc : option Z; p_dur : Z; p_times : list span }.
Record single := mk_single { s_id : string; s_places : list place; s_tags : list (nat * string) }.
Record actx := mk_actx { c_start : Z; c_loc : Z; c_time : Z * Z; c_job_id : string; c_tag : option string }.

Definition le_zo (x : Z) (y : option Z) : bool := match y with Some y => Z.leb x y | None => true end.
Definition intersects (a b : win) : bool := le_zo (fst a) (snd b) && le_zo (fst b) (snd a).
Definition to_window (start : Z) (sp : span) : win :=
  match sp with SWindow s e => (s, e) | SOffset s e => (start + s, Some (start + e)) end.

Definition loc_ok (p : place) (loc : Z) : bool := match p_loc p with None => true | Some l => Z.eqb l loc end.
(* a place fits an activity: location and some time span *)
Definition accepts (p : place) (loc start : Z) (w : win) : bool :=
  loc_ok p loc && existsb (fun sp => intersects (to_window start sp) w) (p_times p).

Definition get_job_tag (s : single) (loc : Z) (w : win) (start : Z) : option string :=
  option_map snd
    (find (fun it => match nth_error (s_places s) (fst it) with
                     | Some p => accepts p loc start w
                     | None => false      (* `expect("invalid tag place index")`: indices come from enumerate() *)
                     end) (s_tags s)).

Fixpoint find_idx {A} (f : A -> bool) (l : list A) (n : nat) : option (nat * A) :=
  match l with
  | [] => None
  | a :: r => if f a then Some (n, a) else find_idx f r (S n)
  end.
Fixpoint rfind {A} (f : A -> bool) (l : list A) : option A :=
  match l with
  | [] => None
  | a :: r => match rfind f r with Some x => Some x | None => if f a then Some a else None end
  end.

Definition act_win (c : actx) : win := (fst (c_time c), Some (snd (c_time c))).

Definition same_tags (a b : option string) : bool :=
  match a, b with Some x, Some y => String.eqb x y | None, None => true | _, _ => false end.

(* result: place index, location, duration, time window of the reconstructed activity *)
Definition match_place (s : single) (is_job : bool) (c : actx) : option (nat * Z * Z * win) :=
  let tag := get_job_tag s (c_loc c) (act_win c) (c_start c) in
  let ids := String.eqb (c_job_id c) (s_id s) in
  if same_tags tag (c_tag c) && (ids || negb is_job) then
    match find_idx (fun p => accepts p (c_loc c) (c_start c) (act_win c)) (s_places s) 0%nat with
    | Some (idx, p) =>
        match rfind (fun sp => intersects (to_window (c_start c) sp) (act_win c)) (p_times p) with
        | Some (SWindow ws we) => Some (idx, c_loc c, p_dur p, (ws, we))
        | Some (SOffset _ _) => Some (idx, c_loc c, p_dur p, (snd (c_time c) - p_dur p, Some (snd (c_time c))))
        | None => None        (* `.unwrap()` after a successful `any`: unreachable *)
        end
    | None => None
    end
  else None.

Fixpoint dedup_s (l : list string) : list string :=
  match l with [] => [] | a :: r => a :: filter (fun b => negb (String.eqb b a)) (dedup_s r) end.

Fixpoint first_match (ss : list single) (c : actx) (n : nat) : option (nat * (nat * Z * Z * win)) :=
  match ss with
  | [] => None
  | s :: r => match match_place s true c with Some m => Some (n, m) | None => first_match r c (S n) end
  end.

Inductive job := JSingle (s : single) | JMulti (ss : list single).

(* None = Err(..) *)
Definition try_match_job (j : job) (c : actx) : option (nat * (nat * Z * Z * win)) :=
  match j with
  | JSingle s => first_match [s] c 0%nat
  | JMulti ss =>
      let tags := dedup_s (flat_map (fun s => map snd (s_tags s)) ss) in
      if Nat.ltb (List.length tags) (List.length ss) then None else first_match ss c 0%nat
  end.

(* what the writer puts on an activity served at place i within window w, service interval (ts, te) *)
Definition written_actx (s : single) (start loc : Z) (w : win) (ts te : Z) : actx :=
  mk_actx start loc (ts, te) (s_id s) (get_job_tag s loc w start).

Definition run_match (multi : bool) (ss : list single) (c : actx) : option (nat * (nat * Z * Z * win)) :=
  try_match_job (if multi then JMulti ss else match ss with s :: _ => JSingle s | [] => JMulti [] end) c.
