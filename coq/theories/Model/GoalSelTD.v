(* C20, time-dependent routing (excluded by the property): the distance quote and the realised change of the tour's distance over a
   routing provider of Model/Routing.v (C16).
   Rust items modelled (through Model/GoalSel.v section TD and Model/Routing.v):
     vrp-core/src/models/problem/costs.rs :: create_matrix_transport_cost (TimeAwareMatrixTransportCost::{duration, distance})
     vrp-core/src/construction/features/transport.rs :: DistanceObjective::{estimate (estimate_leg with the code's time arguments), fitness}
     vrp-core/src/construction/enablers/schedule_update.rs :: update_schedules, update_statistics (total distance)
   Entry point of the correspondence (sub-stream c20_sel, op "td"): run_c20td.   No proofs in this file. *)
From Coq Require Import QArith Qround.
From VRP Require Import Base.Tac Model.Core Model.Objectives.
From VRP Require Model.Routing.
From VRP Require Import Model.GoalSel.
#[local] Open Scope Z_scope.

(* integer-valued answers of the provider for profile 0, scale 1, no fallback; -1 stands for a panic *)
Definition td_query (f : Routing.provider -> nat -> nat -> Q -> Routing.res) (pr : Routing.provider) (from to t : Z) : Z :=
  match f pr (Z.to_nat from) (Z.to_nat to) (inject_Z t) with Routing.Val q => Qfloor q | Routing.Panic => -1 end.
Definition td_durD (pr : Routing.provider) : Z -> Z -> Z -> Z :=
  td_query (fun pr from to t => Routing.duration pr Routing.no_fallback 0 1%Q from to t) pr.
Definition td_distD (pr : Routing.provider) : Z -> Z -> Z -> Z :=
  td_query (fun pr from to t => Routing.distance pr Routing.no_fallback 0 from to t) pr.

(* matrices: (time stamp, durations, distances) of profile 0; tour: start :: activities (:: end) with the start's departure set;
   returned: [build code (0 = provider built); quote of the distance objective for inserting x on leg idx; total distance before; after] *)
Definition run_c20td (ms : list (Z * list Z * list Z)) (t : list act) (idx : nat) (x : act) : list Z :=
  match Routing.build (map (fun m : Z * list Z * list Z => Routing.mkMz 0 (Some (fst (fst m), 1)) (snd (fst m)) (snd m)) ms) with
  | Routing.Err e => [Routing.berr_code e]
  | Routing.Ok pr =>
    let t0 := td_reschedule (td_durD pr) t in
    [0; td_leg_estimate (td_durD pr) (td_distD pr) t0 idx x;
     td_total_distance (td_distD pr) t0;
     td_total_distance (td_distD pr) (td_reschedule (td_durD pr) (insert_after t0 idx x))]
  end.
