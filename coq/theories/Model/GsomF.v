(* C19 — bit-exact twin of the numeric GSOM model: Model/GsomW.v instantiated with Coq primitive floats (IEEE-754 binary64,
   round-to-nearest-even = the arithmetic of Rust's f64 for + - * / sqrt and the comparisons), plus
     rosomaxa/src/algorithms/math/distance.rs :: relative_distance   (used on weight vectors by the elite's dedup rule)
   Floats travel as u64 bit patterns in Z (NaN -> -1), as in Model/SlotF.v.
   f64::min / f64::max: a NaN operand is ignored; `x != y` is `negb (x =? y)`; 3.8 / 0.25 / 0.5 / f64::MAX are the literals' doubles.
   Entry points used by the correspondence (sub-stream c19_weights): run_wfq (= run_wf + run_wq), run_adjustF, run_reldistF.
   No proofs in this file. *)
From Coq Require Import Floats.
From VRP Require Import Base.Tac Model.Gsom Model.SlotF Model.GsomW.

Definition fminR (x y : float) : float :=
  if PrimFloat.is_nan x then y else if PrimFloat.is_nan y then x else if PrimFloat.ltb y x then y else x.
Definition fmaxR (x y : float) : float :=
  if PrimFloat.is_nan x then y else if PrimFloat.is_nan y then x else if PrimFloat.ltb x y then y else x.
Definition f_ofZ (z : Z) : float :=
  if z <? 0 then PrimFloat.opp (PrimFloat.of_uint63 (Uint63.of_Z (- z))) else PrimFloat.of_uint63 (Uint63.of_Z z).
Definition f64_max : float := 0x1.fffffffffffffp1023%float.

Definition FN : num float :=
  mkNum 0%float (-0)%float 1%float 2%float 0.5%float 0.25%float 0x1.e666666666666p+1%float f64_max (PrimFloat.opp f64_max)
        PrimFloat.add PrimFloat.sub PrimFloat.mul PrimFloat.div PrimFloat.sqrt
        PrimFloat.ltb PrimFloat.leb PrimFloat.eqb fminR fmaxR f_ofZ f_of_bits.

(* ---------- output: every float as its bit pattern ---------- *)
Definition snap_bits (s : wsnap (T := float)) :=
  (map (fun e => let '(kc, w, er, info, ms) := e in (kc, map bits_of_f w, bits_of_f er, info, (bits_of_f (fst ms), bits_of_f (snd ms)))) (fst s),
   (bits_of_f (fst (snd s)), bits_of_f (snd (snd s)))).
Definition res_bits (r : res (wsnap (T := float))) := match r with Ok s => Ok (snap_bits s) | Panic c => Panic c end.

(* the network observed after Network::new (dimension, growing threshold / distribution factor / learning rate as bits, node_size,
   nodes in iteration order), then the calls; result: one snapshot (or Panic) per call *)
Definition run_wf (d : nat) (thr df lr : Z) (cap : nat) (obs : list wobs) (ops : list wop) :=
  map res_bits (traceW FN (Ok (net_of_obs FN d thr df lr cap obs)) ops).

(* Node::adjust called directly *)
Definition run_adjustF (w target : list Z) (lr : Z) : list Z :=
  map bits_of_f (adjust FN (map f_of_bits w) (map f_of_bits target) (f_of_bits lr)).

(* ---------- relative_distance: sqrt (sum ((|a - b| / max(|a|, |b|))^2)), 0 for a zero divider; fold from Float::default() = +0.0 ---------- *)
Definition frel_term (a b : float) : float :=
  let divider := fmaxR (PrimFloat.abs a) (PrimFloat.abs b) in
  let change := if PrimFloat.eqb divider 0 then 0%float else PrimFloat.div (PrimFloat.abs (PrimFloat.sub a b)) divider in
  PrimFloat.mul change change.
Definition frel_distance (a b : list float) : float :=
  PrimFloat.sqrt (fold_left PrimFloat.add (map2 frel_term a b) 0%float).
Definition run_reldistF (a b : list Z) : Z := bits_of_f (frel_distance (map f_of_bits a) (map f_of_bits b)).

(* ---------- executable hypotheses of the finiteness theorems ---------- *)
Definition fle_abs (k : float) (x : float) : bool := PrimFloat.leb (PrimFloat.abs x) k.

(* ================= exact instance against the implementation: decisions =================
   run_wq runs the binary64 twin along the calls and, before every call, converts the twin's state EXACTLY into rationals (every finite
   double is a rational; the hidden min/max comes from the twin) and lets the exact instance QN qsqrt perform the same call on its own:
   its own best matching units, its own accumulated errors and growth decisions (store_batch calls only: a re-training round adjusts
   every node hundreds of times and the exact numbers grow beyond what vm_compute handles).  Reported per call: the lattice the exact instance
   ends with (keys, node.coordinate, hit counters, stored ids) and whether every decision of the call had a margin of at least 2^-30
   (distance of the runner-up node with different weights to the best matching unit; |threshold - accumulated error| at every update).
   With such margins the decisions cannot depend on the roundings of binary64 (relative 2^-53 per operation, a few thousand operations),
   so the exact instance must predict the implementation's lattice; calls with a smaller margin (near ties) are not compared.
   qsqrt = floor(sqrt(x * 2^120)) / 2^60: rational, monotone, non-negative (the hypotheses of the theorems over QN sq). *)
From Coq Require Import QArith.
Close Scope Q_scope.

Definition qsqrt (x : Q) : Q :=
  if Qle_bool x 0 then 0%Q else Qmake (Z.sqrt (Qnum x * 2 ^ 120 / Zpos (Qden x))) (Z.to_pos (2 ^ 60)).
(* the same arithmetic with every result reduced to lowest terms (Qred: equal as rationals, comparisons unaffected) — keeps the numbers
   of a store_batch call at a few hundred bits *)
Definition QA : GsomW.num Q :=
  mkNum 0%Q 0%Q 1%Q 2%Q (1 # 2)%Q (1 # 4)%Q (Qred (q_of_bits 4615739258092021350)) q_fmax (Qopp q_fmax)
        (fun a b => Qred (Qplus a b)) (fun a b => Qred (Qminus a b)) (fun a b => Qred (Qmult a b)) (fun a b => Qred (Qdiv a b)) qsqrt
        (fun x y => negb (Qle_bool y x)) Qle_bool Qeq_bool
        (fun x y => if Qle_bool x y then x else y) (fun x y => if Qle_bool x y then y else x)
        inject_Z (fun b => Qred (q_of_bits b)).

Definition q_of_f (f : float) : Q := if PrimFloat.is_finite f then Qred (q_of_bits (bits_of_f f)) else 0%Q.
Definition mm_q (m : mm (T := float)) : mm (T := Q) := mkMM (map q_of_f (mm_min m)) (map q_of_f (mm_max m)) (mm_isreset m).
Definition node_q (nd : wnode (T := float)) : wnode (T := Q) :=
  mkW (w_c nd) (map q_of_f (w_w nd)) (q_of_f (w_e nd)) (w_hits nd) (w_cap nd) (w_st nd).
Definition net_q (n : wnet (T := float)) : wnet (T := Q) :=
  mkWN (map (fun kv => (fst kv, node_q (snd kv))) (wn_nodes n)) (wn_dim n) (q_of_f (wn_thr n)) (q_of_f (wn_df n)) (q_of_f (wn_lr n))
       (mm_q (wn_mm n)) (wn_known n) (wn_fcap n).
Definition mm_finite (m : mm (T := float)) : bool :=
  mm_isreset m || (forallb PrimFloat.is_finite (mm_min m) && forallb PrimFloat.is_finite (mm_max m)).
Definition net_finite (n : wnet (T := float)) : bool :=
  forallb (fun kv => forallb PrimFloat.is_finite (w_w (snd kv)) && PrimFloat.is_finite (w_e (snd kv))) (wn_nodes n) &&
  mm_finite (wn_mm n) && PrimFloat.is_finite (wn_thr n) && PrimFloat.is_finite (wn_df n) && PrimFloat.is_finite (wn_lr n).
Definition op_finite (o : wop) : bool :=
  match o with
  | WStore data _ => forallb (fun x => forallb (fun b => PrimFloat.is_finite (f_of_bits b)) (it_w x)) data
  | WLr b => PrimFloat.is_finite (f_of_bits b)
  | _ => true
  end.

Definition qbig : Q := 1000000%Q.
Definition qmin (a b : Q) : Q := if Qle_bool a b then a else b.
Definition qabs (a : Q) : Q := if Qle_bool 0 a then a else Qopp a.
Fixpoint ql_eqb (a b : list Q) : bool :=
  match a, b with
  | [], [] => true
  | x :: a', y :: b' => Qeq_bool x y && ql_eqb a' b'
  | _, _ => false
  end.
(* distance of the nearest node with OTHER weights to the best matching unit (nodes with identical weights tie in both arithmetics) *)
Definition bmu_margin (n : wnet (T := Q)) (w : list Q) : Q :=
  match find_bmu QA (wn_nodes n) (wn_mm n) w with
  | None => 0%Q
  | Some b =>
    fold_left (fun acc kv => if ql_eqb (w_w (snd kv)) (w_w (fst b)) then acc
                             else qmin acc (qabs (Qminus (distance QA (w_w (snd kv)) w (wn_mm n)) (snd b))))
              (wn_nodes n) qbig
  end.
Definition train_margin (n : wnet (T := Q)) (data : list item) (is_new : bool) : Q :=
  match plan QA n data with
  | Panic _ => 0%Q
  | Ok p =>
    let m1 := fold_left (fun acc x => qmin acc (bmu_margin n (itw QA x))) data qbig in
    snd (fold_left (fun (sa : res (wnet (T := Q)) * Q) t =>
                      match fst sa with
                      | Panic c => (Panic c, snd sa)
                      | Ok m =>
                        let e := match lookupW (fst (fst t)) (wn_nodes m) with
                                 | Some nd => Qplus (w_e nd) (snd (fst t))
                                 | None => 0%Q
                                 end in
                        (updateW QA m (fst (fst t)) (snd t) (snd (fst t)) is_new, qmin (snd sa) (qabs (Qminus (wn_thr m) e)))
                      end) p (Ok n, m1))
  end.
Definition step_margin (n : wnet (T := Q)) (o : wop) : Q :=
  match o with
  | WStore data _ =>
    match mm_update_all QA (wn_mm n) (map (itw QA) data) with
    | Ok m => train_margin (with_mmW n m) data true
    | Panic _ => 0%Q
    end
  | WSmooth _ _ => 0%Q          (* re-training rounds are not replayed exactly: hundreds of adjustments per node *)
  | WCompact _ => 0%Q
  | WLr _ => qbig
  end.

Definition lattice_of {T} (n : wnet (T := T)) : list ((coord * coord) * (nat * list Z)) :=
  map (fun kv => ((fst kv, w_c (snd kv)), (w_hits (snd kv), map it_id (w_st (snd kv))))) (wn_nodes n).
Definition margin_min : Q := Qmake 1 (Z.to_pos (2 ^ 30)).
(* per call: (comparable?, lattice of the exact instance) *)
Fixpoint traceQ (r : res (wnet (T := float))) (ops : list wop) : list (bool * res (list ((coord * coord) * (nat * list Z)))) :=
  match ops with
  | [] => []
  | o :: t =>
    (match r with
     | Ok nf =>
       let nq := net_q nf in
       let ok := net_finite nf && op_finite o && Qle_bool margin_min (step_margin nq o) in
       (ok, if ok then match stepW QA nq o with Ok nq' => Ok (lattice_of nq') | Panic c => Panic c end else Ok [])
     | Panic c => (false, Panic c)
     end) :: traceQ (bind r (fun m => stepW FN m o)) t
  end.
Definition run_wq (d : nat) (thr df lr : Z) (cap : nat) (obs : list wobs) (ops : list wop) :=
  traceQ (Ok (net_of_obs FN d thr df lr cap obs)) ops.
(* both: the bit patterns of the twin and the decisions of the exact instance *)
Definition run_wfq (d : nat) (thr df lr : Z) (cap : nat) (obs : list wobs) (ops : list wop) :=
  (run_wf d thr df lr cap obs ops, run_wq d thr df lr cap obs ops).
