(* C06, the transport feature over NON-trivial cost providers: reserved times (required breaks) and time-dependent routing.
   Part G is generic in the providers exactly as the Rust code is generic in `dyn TransportCost` / `dyn ActivityCost`:
     durD from to t   = TransportCost::duration(route, from, to, TravelTime::Departure(t))
     durA from to t   = TransportCost::duration(route, from, to, TravelTime::Arrival(t))
     distD from to t  = TransportCost::distance(route, from, to, TravelTime::Departure(t))
     edep a arr       = ActivityCost::estimate_departure(route, a, arr)
     earr a dep       = ActivityCost::estimate_arrival(route, a, dep)
   Rust items modelled (vrp-core/src):
     construction/enablers/schedule_update.rs :: update_schedules, update_states (incl. the `end_time == Float::MAX` branch)
     construction/features/transport.rs       :: TransportConstraint::evaluate_activity, CostObjective::{estimate_activity,
                                                 analyze_route_leg}                                  (over the generic providers)
     construction/enablers/reserved_time.rs   :: create_reserved_times_fn (sort by start, intersection check, the lookup closure:
                                                 binary_search on `end as u64`, exact match returned unchecked, else the candidates
                                                 idx-1 ..= idx with the exclusive intersection test, Offset / Window spans),
                                                 ReservedTimeSpan::to_reserved_time_window,
                                                 DynamicTransportCost::duration, DynamicActivityCost::{estimate_departure, estimate_arrival}
     models/problem/costs.rs                  :: TimeAwareMatrixTransportCost::{new (sort by `timestamp as u64`), interpolate_duration,
                                                 interpolate_distance}, SimpleActivityCost, TransportCost::cost, ActivityCost::cost
     construction/heuristics/evaluators.rs    :: eval_single / analyze_insertion_in_route(_leg) through Model/Limits.v `analyze_g`
   Numbers: Z; Float::MAX is INF and ABSORBS (`addI` / `subI`): estimate_departure returns Float::MAX when the work cannot (re)start
   inside the window after a reserved time, and the evaluator then compares MAX with MAX.
   Entry point of the correspondence (sub-stream c06_time): run_c06_time.  No proofs in this file. *)
From VRP Require Import Base.Tac Model.Core Spec.Feasible Model.Eval Model.Limits.

(* f64: MAX + x = MAX - x = MAX for every x the code adds or subtracts *)
Definition addI (x y : Z) : Z := if INF <=? x then INF else x + y.
Definition subI (x y : Z) : Z := if INF <=? x then INF else x - y.

(* ============================== G. generic in the providers ============================== *)
Section Generic.
Variable durD durA distD : Z -> Z -> Z -> Z.
Variable edep earr : act -> Z -> Z.

(* update_schedules *)
Fixpoint resched_g (loc dep : Z) (acts : list act) : list act :=
  match acts with
  | [] => []
  | a :: r => let arr := addI dep (durD loc (a_loc a) dep) in
              let d := edep a arr in
              set_sched a arr d :: resched_g (a_loc a) d r
  end.
Definition reschedule_g (t : list act) : list act :=
  match t with [] => [] | s :: r => s :: resched_g (a_loc s) (a_dep s) r end.

(* update_states: latest arrival at the head of a non-empty suffix (the last element is the end activity, whose window end is the
   shift end, or the last job of an open tour) *)
Fixpoint latest_g (acts : list act) : Z :=
  match acts with
  | [] => INF
  | [a] => a_twe a
  | a :: ((b :: _) as r) =>
      let end_time := latest_g r in
      if INF <=? end_time then a_twe a                                         (* end_time == Float::MAX *)
      else earr a (end_time - durA (a_loc a) (a_loc b) end_time)
  end.

Definition latest_states_g (t : list act) : list Z :=
  map (fun s => match s with a :: _ => if is_terminal a then 0 else latest_g s | [] => 0 end)
      (filter (fun s => match s with [a] => negb (is_terminal a) | a :: _ => true | [] => false end) (suffixes t)).

(* TransportConstraint::evaluate_activity *)
Definition eval_time_g (v : vehicle) (prev target : act) (nexts : list act) : verdict :=
  let departure := a_dep prev in
  let se := v_shift_end v in
  if (se <? a_tws prev) || (se <? a_tws target) || (match nexts with n :: _ => se <? a_tws n | [] => false end)
  then Some true else
  let '(next_loc, latest_next) := match nexts with
                                  | n :: _ => (a_loc n, latest_g nexts)
                                  | [] => (a_loc target, Z.min (a_twe target) se)
                                  end in
  let arr_next := addI departure (durD (a_loc prev) next_loc departure) in
  if latest_next <? arr_next then Some true else
  if latest_next <? a_tws target then Some false else
  let arr_target := addI departure (durD (a_loc prev) (a_loc target) departure) in
  let latest_dep_target := subI latest_next (durA (a_loc target) next_loc latest_next) in
  let latest_arr_target := Z.min (a_twe target) (earr target latest_dep_target) in
  if latest_arr_target <? arr_target then Some false else
  match nexts with
  | [] => None
  | _ :: _ =>
    let end_target := edep target arr_target in
    let arr_next2 := addI end_target (durD (a_loc target) next_loc end_target) in
    if latest_next <? arr_next2 then Some false else None
  end.

(* GoalContext::evaluate on activity level, features [transport; capacity] *)
Definition eval_activity_g (v : vehicle) (t : list act) (idx : nat) (target : act) : option (Z * bool) :=
  let prev := nth idx t target in
  let nexts := skipn (S idx) t in
  match eval_time_g v prev target nexts with
  | Some s => Some (1, s)
  | None => match eval_cap v t idx target with Some s => Some (2, s) | None => None end
  end.

(* CostObjective::estimate_activity *)
Definition route_leg_g (v : vehicle) (s e : act) (time : Z) : Z * Z * Z :=
  let D := durD (a_loc s) (a_loc e) time in
  let arrival := addI time D in
  (distD (a_loc s) (a_loc e) time * v_pdist v + D * v_ptime v, act_cost v e arrival, edep e arrival).

Definition cost_estimate_activity_g (v : vehicle) (t : list act) (idx : nat) (target : act) : Z :=
  let prev := nth idx t target in
  let nexts := skipn (S idx) t in
  let '(tpl, acl, depl) := route_leg_g v prev target (a_dep prev) in
  let '(tpr, acr, depr) := match nexts with n :: _ => route_leg_g v target n depl | [] => (0, 0, 0) end in
  let new_costs := tpl + tpr + acl + acr in
  if negb (has_jobs t) then new_costs else
  match nexts with
  | [] => new_costs
  | n :: _ =>
    let waiting := if is_terminal n then 0 else waiting_of nexts in
    let '(tpo, aco, depo) := route_leg_g v prev n (a_dep prev) in
    let waiting_cost := Z.min waiting (Z.max 0 (depr - depo)) * v_pwait v in
    new_costs - (tpo + aco + waiting_cost)
  end.

(* eval_job_insertion_in_route for a single job, goal [minimize cost (transport); capacity] *)
Definition eval_single_g (v : vehicle) (shift_start : Z) (closed : bool) (t : list act) (j : single) (pos : position) : eval_result :=
  if negb (eval_route_time (shift_start, v_shift_end v) j) then EFailure 1 true else
  if negb (eval_route_cap v t j) then EFailure 2 true else
  let r := analyze_g (eval_activity_g v) (cost_estimate_activity_g v) closed t j pos (cost_estimate_route v t) in
  match sc_place r with
  | Some p => ESuccess (sc_index r) p (match sc_cost r with Some c => c | None => 0 end)
  | None => match sc_viol r with Some (code, st) => EFailure code st | None => EFailure (-1) false end
  end.
End Generic.

(* SimpleActivityCost *)
Definition edep_simple (a : act) (arr : Z) : Z := addI (Z.max arr (a_tws a)) (a_svc a).
Definition earr_simple (a : act) (dep : Z) : Z := Z.min (a_twe a) (subI dep (a_svc a)).

(* ============================== R. reserved times ============================== *)
Record rspan := mkRS { rs_s : Z; rs_e : Z; rs_d : Z }.        (* time.start, time.end (window or offset), duration *)
Record rtimes := mkRT { rt_is_offset : bool; rt_spans : list rspan }.

(* create_reserved_times_fn: stable sort by start, then `has_no_intersections` (inclusive) on neighbours; None = Err *)
Fixpoint rs_insert (x : rspan) (l : list rspan) : list rspan :=
  match l with
  | [] => [x]
  | y :: r => if rs_s x <? rs_s y then x :: l else y :: rs_insert x r
  end.
Definition rs_sort (l : list rspan) : list rspan := fold_left (fun acc x => rs_insert x acc) l [].
Fixpoint rs_disjoint (l : list rspan) : bool :=
  match l with
  | a :: ((b :: _) as r) => negb ((rs_s a <=? rs_e b) && (rs_s b <=? rs_e a)) && rs_disjoint r
  | _ => true
  end.
Definition rt_create (is_offset : bool) (spans : list rspan) : option rtimes :=
  let s := rs_sort spans in if rs_disjoint s then Some (mkRT is_offset s) else None.

Definition to_u64 (x : Z) : Z := Z.max 0 x.                   (* `as u64` of an integer-valued f64 below 2^64 *)

(* binary_search on a sorted vector without duplicates: (found, index of the match | insertion point) *)
Fixpoint bsearch (key : Z) (l : list Z) (i : nat) : bool * nat :=
  match l with
  | [] => (false, i)
  | x :: r => if x =? key then (true, i) else if key <? x then (false, i) else bsearch key r (S i)
  end.

(* the closure returned by create_reserved_times_fn; `offset` = departure of the tour start; the answer is the reserved time
   WINDOW (start, end, duration) *)
Definition rt_fn (rt : rtimes) (offset : Z) (a b : Z) : option (Z * Z * Z) :=
  let sp := rt_spans rt in
  let off := if rt_is_offset rt then offset else 0 in
  let ia := subI a off in
  let ib := subI b off in
  let '(found, idx) := bsearch (to_u64 ia) (map (fun r => to_u64 (rs_e r)) sp) 0 in
  let ok (i : nat) := match nth_error sp i with
                      | Some r => if (ia <? rs_e r + rs_d r) && (rs_e r <? ib) then Some r else None
                      | None => None
                      end in
  let hit := if found then nth_error sp idx
             else match ok (Nat.max idx 1 - 1)%nat with
                  | Some r => Some r
                  | None => ok idx
                  end in
  match hit with
  | Some r => Some (rs_s r + off, rs_e r + off, rs_d r)
  | None => None
  end.

Section Reserved.
Variable idurD idurA : Z -> Z -> Z -> Z.        (* the inner TransportCost *)
Variable rt : rtimes.
Variable offset : Z.                             (* route.tour.start().schedule.departure *)

(* DynamicTransportCost::duration *)
Definition durD_rt (from to dep : Z) : Z :=
  let D := idurD from to dep in
  match rt_fn rt offset dep (addI dep D) with Some (_, _, d) => D + d | None => D end.
Definition durA_rt (from to arr : Z) : Z :=
  let D := idurA from to arr in
  match rt_fn rt offset (subI arr D) arr with Some (_, _, d) => D + d | None => D end.

(* DynamicActivityCost::estimate_departure (the `assert!(reserved_tw.intersects(&schedule))` holds for every answer of rt_fn with a
   non-negative duration: Proofs/TimeDepP.v rt_fn_assert) *)
Definition edep_rt (a : act) (arrival : Z) : Z :=
  let activity_start := Z.max arrival (a_tws a) in
  let departure := addI activity_start (a_svc a) in
  match rt_fn rt offset arrival departure with
  | None => departure
  | Some (_, e, d) =>
    let rs := e in let re := e + d in
    let extra := if rs <? a_tws a
                 then let overlapping := if (arrival <=? re) && (rs <=? a_tws a)              (* waiting_time.overlapping(&reserved_tw) *)
                                         then Z.min (a_tws a) re - Z.max arrival rs else 0 in
                      d - overlapping
                 else d in
    if a_twe a <? addI activity_start extra then INF else addI departure extra
  end.

(* DynamicActivityCost::estimate_arrival *)
Definition earr_rt (a : act) (departure : Z) : Z :=
  let arrival := Z.min (a_twe a) (subI departure (a_svc a)) in
  match rt_fn rt offset arrival departure with
  | None => arrival
  | Some (_, _, d) => Z.max (arrival - d) (a_tws a)
  end.
End Reserved.

(* ============================== T. time-aware matrices ============================== *)
Record tdm := mkTD { td_ts : Z; td_dur : list Z; td_dist : list Z }.

Fixpoint td_insert (x : tdm) (l : list tdm) : list tdm :=
  match l with
  | [] => [x]
  | y :: r => if to_u64 (td_ts x) <? to_u64 (td_ts y) then x :: l else y :: td_insert x r
  end.
Definition td_sort (l : list tdm) : list tdm := fold_left (fun acc x => td_insert x acc) l [].

Definition cell (n : Z) (m : list Z) (i j : Z) : Z := nth (Z.to_nat (i * n + j)) m 0.

(* interpolate_duration on the sorted matrices: binary_search(timestamp as u64): exact -> that matrix; before the first -> first;
   after the last -> last; else linear interpolation - unless one of the two values is negative (unreachable marker): then the left
   value - (the division is exact on the generated data: see ASSUMPTIONS of the plugin) *)
Fixpoint td_interp (n : Z) (ms : list tdm) (i j t : Z) : Z :=
  match ms with
  | [] => 0
  | [m] => cell n (td_dur m) i j
  | m0 :: ((m1 :: _) as r) =>
      if to_u64 t <=? to_u64 (td_ts m0) then cell n (td_dur m0) i j
      else if to_u64 t <? to_u64 (td_ts m1)
           then let l := cell n (td_dur m0) i j in let h := cell n (td_dur m1) i j in
                if (l <? 0) || (h <? 0) then l            (* a negative value marks an unreachable location: the left value is kept *)
                else l + (t - td_ts m0) * (h - l) / (td_ts m1 - td_ts m0)
           else td_interp n r i j t
  end.
(* interpolate_distance: the matrix at or LEFT of the timestamp, no interpolation *)
Fixpoint td_step (n : Z) (ms : list tdm) (i j t : Z) : Z :=
  match ms with
  | [] => 0
  | [m] => cell n (td_dist m) i j
  | m0 :: ((m1 :: _) as r) =>
      if to_u64 t <? to_u64 (td_ts m1) then cell n (td_dist m0) i j else td_step n r i j t
  end.

(* ============================== entry point of the correspondence ============================== *)
Record tworld := mkTW { tw_w : world; tw_rt : option rtimes; tw_td : list tdm }.

Definition tw_idur (x : tworld) : Z -> Z -> Z -> Z :=
  match tw_td x with
  | [] => fun i j _ => wdur (tw_w x) i j
  | ms => td_interp (w_n (tw_w x)) (td_sort ms)
  end.
Definition tw_dist (x : tworld) : Z -> Z -> Z -> Z :=
  match tw_td x with
  | [] => fun i j _ => wdist (tw_w x) i j
  | ms => td_step (w_n (tw_w x)) (td_sort ms)
  end.
Definition tw_durD (x : tworld) : Z -> Z -> Z -> Z :=
  match tw_rt x with Some rt => durD_rt (tw_idur x) rt (w_shift_start (tw_w x)) | None => tw_idur x end.
Definition tw_durA (x : tworld) : Z -> Z -> Z -> Z :=
  match tw_rt x with Some rt => durA_rt (tw_idur x) rt (w_shift_start (tw_w x)) | None => tw_idur x end.
Definition tw_edep (x : tworld) : act -> Z -> Z :=
  match tw_rt x with Some rt => edep_rt rt (w_shift_start (tw_w x)) | None => edep_simple end.
Definition tw_earr (x : tworld) : act -> Z -> Z :=
  match tw_rt x with Some rt => earr_rt rt (w_shift_start (tw_w x)) | None => earr_simple end.

Definition build_tour_t (x : tworld) (acts : list tact) : list act :=
  let w := tw_w x in
  reschedule_g (tw_durD x) (tw_edep x) (start_act w :: map act_of acts ++ end_acts w).

(* ---- what the correspondence evaluates ---- *)
From VRP Require Import Spec.FeasibleT.

(* the breaks of the specification: (latest start, duration) in absolute time *)
Definition tw_breaks (x : tworld) : list (Z * Z) :=
  match tw_rt x with
  | Some rt => let off := if rt_is_offset rt then w_shift_start (tw_w x) else 0 in
               map (fun r => (rs_e r + off, rs_d r)) (rt_spans rt)
  | None => []
  end.
Definition tw_feasible (x : tworld) (t : list act) : bool := feasible_t (tw_idur x) (tw_breaks x) (w_veh (tw_w x)) t.

Definition verdict_out (r : option (Z * bool)) : list Z :=
  match r with None => [0] | Some (code, st) => [1; code; if st then 1 else 0] end.

Definition alternatives_t (x : tworld) (t : list act) (j : single) :=
  let w := tw_w x in
  let n := leg_count (closed w) t in
  flat_map (fun idx =>
    let prev := nth idx t (start_act w) in
    flat_map (fun pp : nat * place =>
      map (fun win : Z * Z =>
        let target := mk_target j prev (snd pp) win in
        let t2 := insert_after t idx target in
        ([Z.of_nat idx; Z.of_nat (fst pp); fst win; snd win], verdict_out (eval_activity_g (tw_durD x) (tw_durA x) (tw_edep x) (tw_earr x) (w_veh w) t idx target),
         cost_estimate_activity_g (tw_durD x) (tw_dist x) (tw_edep x) (w_veh w) t idx target,
         sched_out (reschedule_g (tw_durD x) (tw_edep x) t2),
         (if tw_feasible x t2 then 1 else 0)))
      (p_tws (snd pp)))
    (combine (seq 0 (length (s_places j))) (s_places j)))
  (seq 0 n).

Definition run_c06_time (x : tworld) (acts : list tact) (j : single) (pos : position) :=
  let w := tw_w x in
  let t := build_tour_t x acts in
  let res := eval_single_g (tw_durD x) (tw_durA x) (tw_dist x) (tw_edep x) (tw_earr x) (w_veh w) (w_shift_start w) (closed w) t j pos in
  let after := match res with
               | ESuccess idx (pi, l, s, a, b) c =>
                   sched_out (reschedule_g (tw_durD x) (tw_edep x) (insert_after t idx (mkAct (s_id j) l s a b (s_dem j) 0 0)))
               | EFailure _ _ => []
               end in
  (sched_out t, [latest_states_g (tw_durA x) (tw_earr x) t; waiting_states t],
   (if tw_feasible x t then 1 else 0), times_t (tw_idur x) (tw_breaks x) (w_start w) (w_shift_start w) (tl t),
   alternatives_t x t j, res_out res, after).

(* create_reserved_times_fn accepts the spans? *)
Definition run_rt_create (spans : list rspan) : Z := match rt_create false spans with Some _ => 1 | None => 0 end.
