(* C18 — exact-arithmetic (Q) model of the termination estimates and of the min-variation criterion.
   Rust items modelled:
     rosomaxa/src/termination/max_generation.rs :: MaxGeneration::estimate      -> est_max_generation
     rosomaxa/src/termination/max_time.rs       :: MaxTime::estimate            -> est_max_time   (elapsed time is an oracle argument)
     rosomaxa/src/termination/min_variation.rs  :: MinVariation::estimate, target_proximity.rs :: TargetProximity::estimate -> est_zero
     rosomaxa/src/termination/mod.rs            :: CompositeTermination::estimate -> est_composite
     rosomaxa/src/algorithms/math/statistics.rs :: get_mean_slice, get_variance_mean, get_cv -> mean_q, variance_q, cv_gt
     rosomaxa/src/termination/min_variation.rs  :: MinVariation::{update_and_check (IntervalType::Sample), check_threshold, is_termination}
                                                    -> mv_update_and_check, check_threshold, mv_is_termination
     rosomaxa/src/utils/iterators.rs            :: CollectGroupBy::collect_group_by (grouping by objective index) -> column
   Division by zero: f64 x/0 is +inf or NaN and `.min(1.)` maps both to 1 (f64::min ignores NaN) -> modelled by the explicit zero-limit case.
   sqrt: `cv > threshold` with cv = sqrt(variance)/mean is decided exactly through squares (cv_gt).
   Entry points used by the correspondence: run_estimate, run_minvar.  No proofs in this file. *)
From Coq Require Import QArith Qabs Qminmax.
From VRP Require Import Base.Tac.
Open Scope Q_scope.

Definition qz (n : nat) : Q := inject_Z (Z.of_nat n).

(* (generation as Float / limit as Float).min(1.) *)
Definition est_max_generation (generation limit : nat) : Q :=
  if Nat.eqb limit 0 then 1 else Qmin (qz generation / qz limit) 1.

(* (elapsed / limit_in_secs).min(1.), elapsed >= 0 *)
Definition est_max_time (elapsed limit : Q) : Q :=
  if Qeq_bool limit 0 then 1 else Qmin (elapsed / limit) 1.

Definition est_zero : Q := 0.

(* iter.max_by(total_cmp).unwrap_or_default() *)
Definition est_composite (es : list Q) : Q :=
  match es with
  | [] => 0
  | e :: rest => fold_left Qmax rest e
  end.

(* ---------- statistics ---------- *)
Definition qsum (l : list Q) : Q := fold_left Qplus l 0.

Definition mean_q (l : list Q) : Q := match l with [] => 0 | _ => qsum l / qz (length l) end.

(* get_variance_mean: ((first - second*second/n)/n, mean), first = sum dev^2, second = sum dev *)
Definition variance_q (l : list Q) : Q :=
  let m := mean_q l in
  let first := qsum (map (fun v => (v - m) * (v - m)) l) in
  let second := qsum (map (fun v => v - m) l) in
  let n := qz (length l) in
  (first - second * second / n) / n.

(* `get_cv(values) > threshold` where get_cv = if mean == 0 { 0 } else { sqrt(variance) / mean }, decided over the reals:
   mean > 0:  sqrt(var) > thr*mean  <->  thr*mean < 0 \/ var > (thr*mean)^2
   mean < 0:  sqrt(var)/mean > thr  <->  sqrt(var) < thr*mean  <->  thr*mean > 0 /\ var < (thr*mean)^2
   (var < 0 cannot happen in exact arithmetic, see variance_nonneg; in f64 sqrt gives NaN and `NaN > thr` is false) *)
Definition cv_gt (var mean thr : Q) : bool :=
  if Qeq_bool mean 0 then (if Qlt_le_dec thr 0 then true else false)
  else if Qlt_le_dec var 0 then false
  else
    let t := thr * mean in
    if Qlt_le_dec 0 mean then
      (if Qlt_le_dec t 0 then true else if Qlt_le_dec (t * t) var then true else false)
    else
      (if Qlt_le_dec 0 t then (if Qlt_le_dec var (t * t) then true else false) else false).

Definition col_cv_gt (vals : list Q) (thr : Q) : bool := cv_gt (variance_q vals) (mean_q vals) thr.

(* values of objective k over the window rows that have such a component (collect_group_by on (index, value)) *)
Fixpoint column (k : nat) (rows : list (list Q)) : list Q :=
  match rows with
  | [] => []
  | r :: rest => match nth_error r k with Some x => x :: column k rest | None => column k rest end
  end.

Definition width (rows : list (list Q)) : nat := fold_left (fun w r => Nat.max w (length r)) rows 0%nat.

(* try_fold(true, |_, col| if cv > thr { Break(false) } else { Continue(true) }): true iff no column has cv > thr
   (independent of the HashMap iteration order) *)
Definition check_threshold (rows : list (list Q)) (thr : Q) : bool :=
  forallb (fun k => negb (col_cv_gt (column k rows) thr)) (seq 0 (width rows)).

(* window state: None before the first call (state_mut inserter: `sample` rows of zeros as long as the first fitness) *)
Fixpoint set_nth {A} (l : list A) (i : nat) (x : A) : list A :=
  match l, i with
  | [], _ => []
  | _ :: r, O => x :: r
  | y :: r, S j => y :: set_nth r j x
  end.

Definition mv_update_and_check (sample : nat) (thr : Q) (st : option (list (list Q))) (generation : nat) (fitness : list Q)
  : list (list Q) * bool :=
  let values := match st with Some v => v | None => repeat (repeat 0 (length fitness)) sample end in
  let values' := set_nth values (Nat.modulo generation sample) fitness in
  (values', if Nat.ltb generation (sample - 1) then false else check_threshold values' thr).

(* phase: 0 Initial, 1 Exploration, 2 Exploitation; best = fitness of ranked().next() *)
Definition mv_is_termination (sample : nat) (thr : Q) (is_global : bool) (st : option (list (list Q)))
           (generation : nat) (phase : nat) (best : option (list Q)) : option (list (list Q)) * bool :=
  match best with
  | None => (st, false)
  | Some fitness =>
      let (values, result) := mv_update_and_check sample thr st generation fitness in
      (Some values, if is_global then result else if Nat.eqb phase 2 then result else false)
  end.

Fixpoint mv_run (sample : nat) (thr : Q) (is_global : bool) (st : option (list (list Q)))
         (steps : list (nat * nat * option (list Q))) : list bool :=
  match steps with
  | [] => []
  | (g, ph, best) :: rest =>
      let (st', r) := mv_is_termination sample thr is_global st g ph best in
      r :: mv_run sample thr is_global st' rest
  end.

(* ---------- correspondence entry points ---------- *)
Definition dyt (me : Z * Z) : Q :=
  let (m, e) := me in
  if (0 <=? e)%Z then inject_Z (m * 2 ^ e) else Qmake m (Z.to_pos (2 ^ (- e))).
Definition qout3 (q : Q) : Z * Z := let r := Qred q in (Qnum r, Zpos (Qden r)).

(* parts: (0, limit) = MaxGeneration limit; (1, _) = MinVariation / TargetProximity (estimate 0) *)
Definition run_estimate (generation : nat) (parts : list (nat * nat)) : list (Z * Z) * (Z * Z) :=
  let es := map (fun p => match fst p with O => est_max_generation generation (snd p) | _ => est_zero end) parts in
  (map qout3 es, qout3 (est_composite es)).

(* steps: (generation, phase, [] | [fitness]) *)
Definition run_minvar (sample : nat) (thr : Z * Z) (is_global : bool) (steps : list (nat * nat * list (list (Z * Z)))) : list bool :=
  mv_run sample (dyt thr) is_global None
         (map (fun s => match s with (g, ph, b) => (g, ph, match b with [] => None | f :: _ => Some (map dyt f) end) end) steps).
